//! Conformance harness for the specification-growth module G14 (signal
//! catalogue; names <-> numbers <-> conditions <-> exit statuses; the naming
//! layer of `kill` and `trap`).  Oracle: spec/SigNames.tla.
//!
//!   yv-g14 platform --sys sim|real
//!       measures the platform record of the system (names and numbers from
//!       a source independent of the `Signals` implementation under test: the
//!       public constants of the simulated system / the libc constants, the
//!       realtime range, the numbers kill() accepts) and prints it as JSON.
//!   yv-g14 replay --sys S --platform F --in cases.ndjson --out records.ndjson
//!       runs every case printed by Gen_SigNames.tla and records the
//!       observation (judged by Trace_SigNames.tla).
//!   yv-g14 random --sys S --platform F --n N --out records.ndjson
//!       seeded random kill / trap command lines and API calls, recorded the
//!       same way.
//!
//! Shell-level cases run in the real shell: on the simulated OS through
//! `yvcommon::shell::run_shell`, on the real kernel through the mirror runner
//! inside a fresh PID namespace (so that no command line, however it is
//! parsed, can signal a process outside the arena).  What a `kill` delivers is
//! observed on sacrificial processes that block every signal: the pending set
//! (simulated: the process table; real: /proc/<pid>/status) and the wait
//! status for KILL / STOP.
use rand::rngs::StdRng;
use rand::{Rng, SeedableRng};
use serde_json::{Value, json};
use std::io::{BufRead, Write};
use std::pin::Pin;
use std::rc::Rc;
use yash_cli::startup::args::Parse;
use yash_env::Env;
use yash_env::RealSystem;
use yash_env::VirtualSystem;
use yash_env::builtin::{Builtin, Result as BResult, Type};
use yash_env::io::Fd;
use yash_env::job::{Pid, ProcessResult, ProcessState};
use yash_env::semantics::{ExitStatus, Field, exit_or_raise};
use yash_env::signal::{Name, Number};
use yash_env::system::r#virtual as vs;
use yash_env::system::{Concurrent, SigmaskOp, Signals, Sigset as _};
use yash_env::trap::Condition;
use yash_env::variable::Scope;
use yvcommon::real::{RealCfg, run_real};
use yvcommon::sched::Outcome;
use yvcommon::shell::{ShellCfg, ShellSystem, Sys, register_generic_probes, run_shell, shell_body};
use yvcommon::util::{catch, opt, opt_usize, quiet_panics, seed};

// ---------------------------------------------------------------------------
// the catalogue as the platform defines it (not through `Signals`)
// ---------------------------------------------------------------------------
const POSIX_NAMES: [&str; 27] = [
    "ABRT", "ALRM", "BUS", "CHLD", "CONT", "FPE", "HUP", "ILL", "INT", "KILL", "PIPE", "QUIT", "SEGV", "STOP", "TERM", "TSTP", "TTIN",
    "TTOU", "USR1", "USR2", "WINCH", "SYS", "TRAP", "URG", "VTALRM", "XCPU", "XFSZ",
];

fn sim_table() -> Vec<(&'static str, i32)> {
    vec![
        ("ABRT", vs::SIGABRT.as_raw()),
        ("ALRM", vs::SIGALRM.as_raw()),
        ("BUS", vs::SIGBUS.as_raw()),
        ("CHLD", vs::SIGCHLD.as_raw()),
        ("CLD", vs::SIGCLD.as_raw()),
        ("CONT", vs::SIGCONT.as_raw()),
        ("EMT", vs::SIGEMT.as_raw()),
        ("FPE", vs::SIGFPE.as_raw()),
        ("HUP", vs::SIGHUP.as_raw()),
        ("ILL", vs::SIGILL.as_raw()),
        ("INFO", vs::SIGINFO.as_raw()),
        ("INT", vs::SIGINT.as_raw()),
        ("IO", vs::SIGIO.as_raw()),
        ("IOT", vs::SIGIOT.as_raw()),
        ("KILL", vs::SIGKILL.as_raw()),
        ("LOST", vs::SIGLOST.as_raw()),
        ("PIPE", vs::SIGPIPE.as_raw()),
        ("POLL", vs::SIGPOLL.as_raw()),
        ("PROF", vs::SIGPROF.as_raw()),
        ("PWR", vs::SIGPWR.as_raw()),
        ("QUIT", vs::SIGQUIT.as_raw()),
        ("SEGV", vs::SIGSEGV.as_raw()),
        ("STKFLT", vs::SIGSTKFLT.as_raw()),
        ("STOP", vs::SIGSTOP.as_raw()),
        ("SYS", vs::SIGSYS.as_raw()),
        ("TERM", vs::SIGTERM.as_raw()),
        ("THR", vs::SIGTHR.as_raw()),
        ("TRAP", vs::SIGTRAP.as_raw()),
        ("TSTP", vs::SIGTSTP.as_raw()),
        ("TTIN", vs::SIGTTIN.as_raw()),
        ("TTOU", vs::SIGTTOU.as_raw()),
        ("URG", vs::SIGURG.as_raw()),
        ("USR1", vs::SIGUSR1.as_raw()),
        ("USR2", vs::SIGUSR2.as_raw()),
        ("VTALRM", vs::SIGVTALRM.as_raw()),
        ("WINCH", vs::SIGWINCH.as_raw()),
        ("XCPU", vs::SIGXCPU.as_raw()),
        ("XFSZ", vs::SIGXFSZ.as_raw()),
    ]
}

/// <signal.h> of this platform as the libc crate transcribes it (Linux).
#[cfg(target_os = "linux")]
fn real_table() -> Vec<(&'static str, i32)> {
    vec![
        ("ABRT", libc::SIGABRT),
        ("ALRM", libc::SIGALRM),
        ("BUS", libc::SIGBUS),
        ("CHLD", libc::SIGCHLD),
        ("CONT", libc::SIGCONT),
        ("FPE", libc::SIGFPE),
        ("HUP", libc::SIGHUP),
        ("ILL", libc::SIGILL),
        ("INT", libc::SIGINT),
        ("IO", libc::SIGIO),
        ("IOT", libc::SIGIOT),
        ("KILL", libc::SIGKILL),
        ("PIPE", libc::SIGPIPE),
        ("POLL", libc::SIGPOLL),
        ("PROF", libc::SIGPROF),
        ("PWR", libc::SIGPWR),
        ("QUIT", libc::SIGQUIT),
        ("SEGV", libc::SIGSEGV),
        ("STKFLT", libc::SIGSTKFLT),
        ("STOP", libc::SIGSTOP),
        ("SYS", libc::SIGSYS),
        ("TERM", libc::SIGTERM),
        ("TRAP", libc::SIGTRAP),
        ("TSTP", libc::SIGTSTP),
        ("TTIN", libc::SIGTTIN),
        ("TTOU", libc::SIGTTOU),
        ("URG", libc::SIGURG),
        ("USR1", libc::SIGUSR1),
        ("USR2", libc::SIGUSR2),
        ("VTALRM", libc::SIGVTALRM),
        ("WINCH", libc::SIGWINCH),
        ("XCPU", libc::SIGXCPU),
        ("XFSZ", libc::SIGXFSZ),
    ]
}

fn block_all_and_sleep() -> ! {
    unsafe {
        let mut set: libc::sigset_t = std::mem::zeroed();
        libc::sigfillset(&mut set);
        libc::sigprocmask(libc::SIG_SETMASK, &set, std::ptr::null_mut());
        loop {
            libc::sleep(1000);
        }
    }
}

/// Forks a process that blocks every signal and sleeps; optionally in the
/// process group `pgid` (0: a group of its own).
fn spawn_victim(pgid: i32) -> i32 {
    unsafe {
        // the mask is inherited: no window in which the child is unprotected
        let mut all: libc::sigset_t = std::mem::zeroed();
        let mut old: libc::sigset_t = std::mem::zeroed();
        libc::sigfillset(&mut all);
        libc::sigprocmask(libc::SIG_SETMASK, &all, &mut old);
        let pid = libc::fork();
        if pid == 0 {
            libc::setpgid(0, pgid);
            block_all_and_sleep();
        }
        libc::sigprocmask(libc::SIG_SETMASK, &old, std::ptr::null_mut());
        if pid > 0 {
            libc::setpgid(pid, if pgid == 0 { pid } else { pgid });
        }
        pid
    }
}

/// (state, pending numbers) of a sacrificial process of this process.  KILL
/// and STOP cannot be blocked: while one of them is still pending in a process
/// that runs, the kernel has not acted on it yet, so the observation is
/// repeated (bounded) until the state has settled.
fn observe_victim(pid: i32) -> (String, Vec<i64>) {
    let mut last = observe_victim_once(pid);
    for _ in 0..5000 {
        let unsettled = last.0 == "run" && (last.1.contains(&(libc::SIGKILL as i64)) || last.1.contains(&(libc::SIGSTOP as i64)));
        if !unsettled {
            break;
        }
        std::thread::sleep(std::time::Duration::from_millis(1));
        let next = observe_victim_once(pid);
        // a state reported by waitpid is reported only once
        last = if next.0 == "gone" { last } else { next };
    }
    last
}

fn observe_victim_once(pid: i32) -> (String, Vec<i64>) {
    let mut status: libc::c_int = 0;
    let r = unsafe { libc::waitpid(pid, &mut status, libc::WNOHANG | libc::WUNTRACED) };
    let mut state = "run".to_string();
    if r == pid {
        if libc::WIFSIGNALED(status) {
            return (format!("sig:{}", libc::WTERMSIG(status)), vec![]);
        } else if libc::WIFEXITED(status) {
            return (format!("exit:{}", libc::WEXITSTATUS(status)), vec![]);
        } else if libc::WIFSTOPPED(status) {
            state = format!("stop:{}", libc::WSTOPSIG(status));
        }
    }
    let mut pend = vec![];
    if let Ok(text) = std::fs::read_to_string(format!("/proc/{pid}/status")) {
        let mut mask: u64 = 0;
        for line in text.lines() {
            if let Some(rest) = line.strip_prefix("SigPnd:").or_else(|| line.strip_prefix("ShdPnd:")) {
                mask |= u64::from_str_radix(rest.trim(), 16).unwrap_or(0);
            }
        }
        for n in 1..=64 {
            if mask & (1u64 << (n - 1)) != 0 {
                pend.push(n as i64);
            }
        }
    } else {
        state = "gone".to_string();
    }
    (state, pend)
}

fn reap_victim(pid: i32) {
    unsafe {
        libc::kill(pid, libc::SIGKILL);
        let mut status = 0;
        libc::waitpid(pid, &mut status, 0);
    }
}

fn platform(sys: &str) -> Value {
    let (table, rtmin, rtmax, kacc): (Vec<(&str, i32)>, i32, i32, Vec<i64>) = if sys == "sim" {
        let t = sim_table();
        let (lo, hi) = (vs::SIGRTMIN.as_raw(), vs::SIGRTMAX.as_raw());
        // The simulated kernel has no table of its own apart from these
        // constants: a POSIX kill() accepts 0 and the signals of the system.
        let mut k: Vec<i64> = vec![0];
        k.extend(t.iter().map(|(_, v)| *v as i64));
        k.extend((lo..=hi).map(|v| v as i64));
        k.sort();
        k.dedup();
        (t, lo, hi, k)
    } else {
        let t = real_table();
        let (lo, hi) = (libc::SIGRTMIN(), libc::SIGRTMAX());
        // which numbers does kill(2) take?  asked of a process of our own
        let v = spawn_victim(0);
        assert!(v > 0, "fork");
        let mut k = vec![];
        for n in 0..=(hi + 2) {
            if n == libc::SIGKILL {
                continue;
            }
            if unsafe { libc::kill(v, n) } == 0 {
                k.push(n as i64);
            }
        }
        if unsafe { libc::kill(v, libc::SIGKILL) } == 0 {
            k.push(libc::SIGKILL as i64);
        }
        let mut st = 0;
        unsafe { libc::waitpid(v, &mut st, 0) };
        k.sort();
        (t, lo, hi, k)
    };
    let mut names: Vec<Value> = table.iter().map(|(n, v)| json!({"n": n, "v": v, "req": POSIX_NAMES.contains(n)})).collect();
    names.sort_by(|a, b| a["n"].as_str().cmp(&b["n"].as_str()));
    json!({"sys": sys, "names": names, "rtmin": rtmin, "rtmax": rtmax, "kacc": kacc, "maxn": rtmax + 2})
}

// ---------------------------------------------------------------------------
// cases and observations
// ---------------------------------------------------------------------------
#[derive(Clone, Debug)]
struct Case {
    fam: String,
    po: bool,
    w: Vec<String>,
    op: String,
    t: String,
    n: i64,
    xk: String,
}

fn strs(v: &Value) -> Vec<String> {
    match v {
        Value::Array(a) => a.iter().map(|s| s.as_str().unwrap_or("").to_string()).collect(),
        // TLC prints a function with domain 1..n as an object
        Value::Object(m) => {
            let mut ks: Vec<(usize, String)> = m.iter().map(|(k, v)| (k.parse().unwrap_or(0), v.as_str().unwrap_or("").to_string())).collect();
            ks.sort();
            ks.into_iter().map(|(_, s)| s).collect()
        }
        _ => vec![],
    }
}

fn case_of(v: &Value) -> Case {
    Case {
        fam: v["fam"].as_str().unwrap_or("").to_string(),
        po: v["po"].as_bool().unwrap_or(false),
        w: strs(&v["w"]),
        op: v["op"].as_str().unwrap_or("").to_string(),
        t: v["t"].as_str().unwrap_or("").to_string(),
        n: v["n"].as_i64().unwrap_or(0),
        xk: v["xk"].as_str().unwrap_or("").to_string(),
    }
}

#[derive(Clone, Debug, Default)]
struct Obs {
    done: bool,
    st: i64,
    err: bool,
    out: Vec<Vec<String>>,
    recv: Vec<Value>,
    st2: i64,
    out2: Vec<Vec<String>>,
    r: i64,
    s: Vec<String>,
    note: String,
}

fn record(sys: &str, from: &str, c: &Case, o: &Obs) -> Value {
    json!({"sys": sys, "from": from, "fam": c.fam, "po": c.po, "w": c.w, "op": c.op, "t": c.t, "n": c.n, "xk": c.xk,
           "o": {"done": o.done, "st": o.st, "err": o.err, "out": o.out, "recv": o.recv, "st2": o.st2, "out2": o.out2,
                 "r": o.r, "s": o.s}, "note": o.note})
}

// ---------------------------------------------------------------------------
// the API of the system object
// ---------------------------------------------------------------------------
fn num_of(n: i64) -> Option<Number> {
    let raw: i32 = n.try_into().ok()?;
    std::num::NonZero::new(raw).map(Number::from_raw_unchecked)
}

fn api_op<S: Signals>(system: &S, sys: &str, c: &Case) -> Obs {
    let mut o = Obs { done: true, r: -1, st2: -1, ..Default::default() };
    let t = c.t.as_str();
    let n = c.n;
    let raw: i32 = n.try_into().unwrap_or(i32::MAX);
    match c.op.as_str() {
        "str2sig" => o.r = system.str2sig(t).map_or(-1, |x| x.as_raw() as i64),
        "sig2str" => o.s = system.sig2str(raw).into_iter().map(|s| s.into_owned()).collect(),
        "tosignum" => o.r = system.to_signal_number(raw).map_or(-1, |x| x.as_raw() as i64),
        "validate" => {
            if let Some((name, number)) = system.validate_signal(raw) {
                o.r = number.as_raw() as i64;
                o.s = vec![name.as_string().into_owned()];
            }
        }
        "fromstr" => o.s = t.parse::<Name>().ok().map(|nm| nm.as_string().into_owned()).into_iter().collect(),
        "numfromname" => {
            o.r = match t.parse::<Name>() {
                Ok(nm) => system.signal_number_from_name(nm).map_or(-1, |x| x.as_raw() as i64),
                Err(_) => -77,
            }
        }
        "parsesig0" | "parsesig1" => {
            o.r = yash_builtin::kill::syntax::parse_signal(system, t, c.op == "parsesig1").map_or(-1000, |x| x as i64);
        }
        "tosignal0" | "tosignal1" => {
            if let Some((name, number)) = ExitStatus(raw).to_signal(system, c.op == "tosignal1") {
                o.r = number.as_raw() as i64;
                o.s = vec![name.into_owned()];
            }
        }
        "fromsignal" => o.r = num_of(n).map_or(-1, |x| ExitStatus::from(x).0 as i64),
        "conditer" => {
            o.out = Condition::iter(system).map(|cnd| vec![i32::from(cnd).to_string(), cnd.to_string(system).into_owned()]).collect();
        }
        "named" => {
            o.out = S::NAMED_SIGNALS.iter().map(|(nm, v)| vec![nm.to_string(), v.map_or("-".to_string(), |x| x.as_raw().to_string())]).collect();
        }
        "itersigrt" => o.out = system.iter_sigrt().map(|x| vec![x.as_raw().to_string()]).collect(),
        "nameiter" => o.s = Name::iter().map(|nm| nm.as_string().into_owned()).collect(),
        "effect" if sys == "sim" => {
            if let Some(num) = num_of(n) {
                let mut p = vs::Process::with_parent_and_group(Pid(1), Pid(77));
                let _ = p.raise_signal(num);
                let e = match p.state() {
                    ProcessState::Halted(ProcessResult::Signaled { signal, core_dump }) if signal == num => {
                        if core_dump { "A" } else { "T" }
                    }
                    ProcessState::Halted(ProcessResult::Stopped(signal)) if signal == num => "S",
                    ProcessState::Running => {
                        // does it resume a stopped process?
                        let mut q = vs::Process::with_parent_and_group(Pid(1), Pid(77));
                        let _ = q.set_state(ProcessState::stopped(vs::SIGSTOP));
                        let _ = q.raise_signal(num);
                        if q.state() == ProcessState::Running { "C" } else { "I" }
                    }
                    _ => "other",
                };
                o.s = vec![e.to_string()];
            }
        }
        other => o.note = format!("unknown op {other}"),
    }
    o
}

fn run_api(sys: &str, c: &Case) -> Obs {
    let c2 = c.clone();
    let sys2 = sys.to_string();
    let r = if sys == "sim" {
        catch(move || api_op(&VirtualSystem::new(), &sys2, &c2))
    } else {
        // SAFETY: only the name / number tables of the object are used
        catch(move || api_op(&unsafe { RealSystem::new() }, &sys2, &c2))
    };
    match r {
        Ok(o) => o,
        Err(msg) => Obs { done: false, st: -1, st2: -1, r: -1, note: format!("panic: {msg}"), ..Default::default() },
    }
}

// ---------------------------------------------------------------------------
// built-ins of the harness
// ---------------------------------------------------------------------------
/// `mark`: writes `@@<$?>@@` as a line to standard output and `@@` to standard
/// error (so that the output of every command can be cut out) and assigns the
/// status to the variable `m`.
fn mark_main<S: ShellSystem>(env: &mut Env<S>, _args: Vec<Field>) -> Pin<Box<dyn Future<Output = BResult> + '_>> {
    Box::pin(async move {
        let st = env.exit_status.0;
        env.variables.get_or_new("m", Scope::Global).assign(st.to_string(), None).ok();
        let _ = env.system.write_all(Fd::STDOUT, format!("@@{st}@@\n").as_bytes()).await;
        let _ = env.system.write_all(Fd::STDERR, b"@@\n").await;
        BResult::new(ExitStatus(0))
    })
}

/// `mypid`: assigns the process ID of the process that runs it to `p`.
fn mypid_main<S: ShellSystem>(env: &mut Env<S>, _args: Vec<Field>) -> Pin<Box<dyn Future<Output = BResult> + '_>> {
    Box::pin(async move {
        let pid = env.system.getpid();
        env.variables.get_or_new("p", Scope::Global).assign(pid.0.to_string(), None).ok();
        BResult::new(ExitStatus(0))
    })
}

fn register<S: ShellSystem>(env: &mut Env<S>) {
    env.builtins.insert("mark", Builtin::new(Type::Mandatory, mark_main::<S>));
    env.builtins.insert("mypid", Builtin::new(Type::Mandatory, mypid_main::<S>));
}

/// The shell child on the real OS: the mirror runner plus the harness built-ins.
fn real_shell_child() -> ! {
    // SAFETY: single-threaded at this point
    unsafe {
        std::env::remove_var("YV_EVENTS");
        std::env::remove_var("YV_CHILD");
        std::env::remove_var("YV_G14");
        // every disposition as a freshly logged-in process has it, no core files
        for n in 1..=64 {
            if n != libc::SIGKILL && n != libc::SIGSTOP {
                libc::signal(n, libc::SIG_DFL);
            }
        }
        let lim = libc::rlimit { rlim_cur: 0, rlim_max: 0 };
        libc::setrlimit(libc::RLIMIT_CORE, &lim);
    }
    // SAFETY: the only RealSystem in this process
    let system = unsafe { RealSystem::new() };
    let system = Rc::new(Concurrent::new(system));
    let runner = Rc::clone(&system);
    let task = async {
        let mut env = Env::with_system(system);
        match yash_cli::startup::args::parse(std::env::args()) {
            Ok(Parse::Run(run)) => {
                env.variables.extend_env(std::env::vars());
                shell_body(&mut env, run, |env| {
                    register_generic_probes(env);
                    register(env);
                })
                .await;
            }
            _ => env.exit_status = ExitStatus(2),
        }
        exit_or_raise(&env.system, env.exit_status).await
    };
    runner.run_real(task)
}

// ---------------------------------------------------------------------------
// rendering and running shell-level cases
// ---------------------------------------------------------------------------
fn quote(a: &str) -> String {
    format!("'{}'", a.replace('\'', "'\\''"))
}

/// Process IDs behind the symbolic targets of one case.
#[derive(Clone, Copy, Debug, Default)]
struct Pids {
    v1: i32,
    v2: i32,
    v3: i32,
    none: i32,
}

fn is_numeric(w: &str) -> bool {
    let b = w.strip_prefix(['+', '-']).unwrap_or(w);
    !b.is_empty() && b.chars().all(|ch| ch.is_ascii_digit())
}

/// A kill command line is only run if no word that looks like a number can
/// be taken for a target: a numeric word is an option (`-15`, before the first
/// operand) or the argument of `-s` / `-n`; targets come from tokens only.
fn safe_kill_words(w: &[String]) -> bool {
    let mut opts = true;
    let mut prev_takes_arg = false;
    for a in w {
        let takes_arg = opts && (a == "-s" || a == "-n");
        if a.starts_with('@') || a == "--" {
            opts = false;
        } else if is_numeric(a) {
            if !(prev_takes_arg || (opts && a.starts_with('-'))) {
                return false;
            }
        } else if opts && !prev_takes_arg && (!a.starts_with('-') || a == "-") {
            opts = false;
        }
        prev_takes_arg = takes_arg;
    }
    true
}

fn render_word(a: &str, p: &Pids, me: &str) -> String {
    match a {
        "@V1" => p.v1.to_string(),
        "@V2" => p.v2.to_string(),
        "@V3" => p.v3.to_string(),
        "@-G1" => format!("-{}", p.v1),
        "@-G2" => format!("-{}", p.v2),
        "@NONE" => p.none.to_string(),
        "@ME" => me.to_string(),
        _ => quote(a),
    }
}

fn render_words(w: &[String], p: &Pids, me: &str) -> String {
    w.iter().map(|a| render_word(a, p, me)).collect::<Vec<_>>().join(" ")
}

/// The script of one case; the number of marks it contains.
fn render_case(c: &Case, p: &Pids) -> (String, usize) {
    let po = if c.po { "set -o portable; " } else { "" };
    match c.fam.as_str() {
        "send" | "list" => (format!("({po}kill {})\nmark\n", render_words(&c.w, p, "")), 1),
        "self" => {
            let (on, off) = if c.po { ("set -o portable\n", "set +o portable\n") } else { ("", "") };
            (format!("{on}kill {}\nmark\n{off}", render_words(&c.w, p, "$$")), 1)
        }
        "die" => (format!("(mypid; {po}kill {})\nmark\nkill -l \"$m\"\nmark\n", render_words(&c.w, p, "\"$p\"")), 2),
        "trap" => {
            let words = render_words(&c.w, p, "");
            if c.w.first().map(|s| s.as_str()) == Some("-p") {
                (format!("(trap {words})\nmark\n"), 1)
            } else {
                // the first operand is the action unless it is an unsigned integer
                let first_is_cond = c.w.first().is_some_and(|a| !a.is_empty() && a.chars().all(|ch| ch.is_ascii_digit()));
                let conds = render_words(&c.w[if first_is_cond { 0 } else { 1.min(c.w.len()) }..], p, "");
                (format!("(trap {words})\nmark\n(trap {words}; trap -p {conds})\nmark\n"), 2)
            }
        }
        "trapall" => ("(trap -p)\nmark\n".to_string(), 1),
        _ => (String::new(), 0),
    }
}

fn tokens(text: &str) -> Vec<Vec<String>> {
    let mut lines: Vec<&str> = text.split('\n').collect();
    if lines.last() == Some(&"") {
        lines.pop();
    }
    lines.iter().map(|l| l.split_whitespace().map(|s| s.to_string()).collect()).collect()
}

/// Cuts the next `n` marked segments off the two streams.
fn cut<'a>(out: &mut &'a str, err: &mut &'a str, n: usize) -> Option<Vec<(i64, &'a str, bool)>> {
    let mut res = vec![];
    for _ in 0..n {
        let p = out.find("@@")?;
        let text = &out[..p];
        let tail = &out[p + 2..];
        let q = tail.find("@@\n")?;
        let st: i64 = tail[..q].parse().ok()?;
        *out = &tail[q + 3..];
        let e = err.find("@@\n")?;
        let etext = &err[..e];
        *err = &err[e + 3..];
        res.push((st, text, !etext.is_empty()));
    }
    Some(res)
}

struct Ran {
    out: String,
    err: String,
    completed: bool,
    outcome: String,
}

trait Backend {
    fn name(&self) -> &'static str;
    /// Creates the sacrificial processes of `n` cases.
    fn victims(&mut self, n: usize) -> Vec<Pids>;
    fn run(&mut self, script: &str, pids: &[Pids]) -> Ran;
    /// (state, pending) of a sacrificial process after the run.
    fn observe(&mut self, pid: i32) -> (String, Vec<i64>);
    fn cleanup(&mut self, pids: &[Pids]);
}

// ---- simulated -------------------------------------------------------------
struct Sim {
    state: Option<Rc<std::cell::RefCell<vs::SystemState>>>,
}

impl Backend for Sim {
    fn name(&self) -> &'static str {
        "sim"
    }
    fn victims(&mut self, n: usize) -> Vec<Pids> {
        (0..n).map(|j| { let b = 5000 + 10 * j as i32; Pids { v1: b + 1, v2: b + 2, v3: b + 3, none: 4999 } }).collect()
    }
    fn run(&mut self, script: &str, pids: &[Pids]) -> Ran {
        let mut cfg = ShellCfg::stdin_script(script.as_bytes());
        cfg.step_limit = 50_000_000;
        let pids: Vec<Pids> = pids.to_vec();
        cfg.setup = Some(Box::new(move |env, state| {
            register::<Sys>(env);
            let mut st = state.borrow_mut();
            for p in &pids {
                for (pid, pgid) in [(p.v1, p.v1), (p.v2, p.v2), (p.v3, p.v1)] {
                    let mut proc = vs::Process::with_parent_and_group(Pid(1), Pid(pgid));
                    let all = (1..=1000).filter_map(|n| num_of(n));
                    let _ = proc.block_signals(SigmaskOp::Set, all);
                    st.processes.insert(Pid(pid), proc);
                }
            }
        }));
        match catch(move || run_shell(cfg)) {
            Ok(r) => {
                let completed = matches!(r.outcome, Outcome::Completed);
                let ran = Ran { out: r.stdout_str(), err: r.stderr_str(), completed, outcome: r.outcome_str() };
                self.state = Some(Rc::clone(&r.state));
                ran
            }
            Err(msg) => {
                self.state = None;
                Ran { out: String::new(), err: String::new(), completed: false, outcome: format!("panic: {msg}") }
            }
        }
    }
    fn observe(&mut self, pid: i32) -> (String, Vec<i64>) {
        let Some(state) = &self.state else { return ("gone".to_string(), vec![]) };
        let st = state.borrow();
        let Some(p) = st.processes.get(&Pid(pid)) else { return ("gone".to_string(), vec![]) };
        let state = match p.state() {
            ProcessState::Running => "run".to_string(),
            ProcessState::Halted(ProcessResult::Signaled { signal, .. }) => format!("sig:{}", signal.as_raw()),
            ProcessState::Halted(ProcessResult::Stopped(signal)) => format!("stop:{}", signal.as_raw()),
            ProcessState::Halted(ProcessResult::Exited(e)) => format!("exit:{}", e.0),
        };
        let mut pend = vec![];
        for n in 1..=1000i64 {
            if let Some(num) = num_of(n) {
                if p.pending_signals().contains(num) == Ok(true) {
                    pend.push(n);
                }
            }
        }
        (state, pend)
    }
    fn cleanup(&mut self, _pids: &[Pids]) {
        self.state = None;
    }
}

// ---- real (inside the PID namespace) ----------------------------------------
struct Real;

impl Backend for Real {
    fn name(&self) -> &'static str {
        "real"
    }
    fn victims(&mut self, n: usize) -> Vec<Pids> {
        (0..n)
            .map(|_| {
                let v1 = spawn_victim(0);
                let v2 = spawn_victim(0);
                let v3 = spawn_victim(v1);
                assert!(v1 > 1000 && v2 > 1000 && v3 > 1000, "victim pids {v1} {v2} {v3}");
                Pids { v1, v2, v3, none: 4_000_000 }
            })
            .collect()
    }
    fn run(&mut self, script: &str, _pids: &[Pids]) -> Ran {
        let mut cfg = RealCfg::command("", true);
        cfg.args = vec![];
        cfg.stdin = script.as_bytes().to_vec();
        cfg.timeout = std::time::Duration::from_secs(60);
        cfg.env.push(("YV_CHILD".into(), "none".into()));
        cfg.env.push(("YV_G14".into(), "shell".into()));
        let r = run_real(&cfg);
        Ran {
            out: String::from_utf8_lossy(&r.stdout).into_owned(),
            err: String::from_utf8_lossy(&r.stderr).into_owned(),
            completed: !r.timed_out && r.status == 0,
            outcome: if r.timed_out { "timeout".to_string() } else { format!("status {}", r.status) },
        }
    }
    fn observe(&mut self, pid: i32) -> (String, Vec<i64>) {
        observe_victim(pid)
    }
    fn cleanup(&mut self, pids: &[Pids]) {
        for p in pids {
            for v in [p.v3, p.v2, p.v1] {
                reap_victim(v);
            }
        }
    }
}

fn needs_victims(c: &Case) -> bool {
    c.fam == "send"
}

fn self_prelude(plat: &Value) -> String {
    // traps by number on everything that can be trapped
    let mut nums: Vec<i64> = plat["names"].as_array().unwrap().iter().map(|e| e["v"].as_i64().unwrap()).collect();
    nums.extend(plat["rtmin"].as_i64().unwrap()..=plat["rtmax"].as_i64().unwrap());
    nums.sort();
    nums.dedup();
    let kill = num_named(plat, "KILL");
    let stop = num_named(plat, "STOP");
    let mut s = String::new();
    for n in nums {
        if n != kill && n != stop {
            s.push_str(&format!("trap 'echo T{n}' {n}\n"));
        }
    }
    s
}

fn num_named(plat: &Value, name: &str) -> i64 {
    plat["names"].as_array().unwrap().iter().find(|e| e["n"] == name).map_or(-1, |e| e["v"].as_i64().unwrap())
}

/// On the real kernel some cases cannot be observed: a SEGV or BUS sent by
/// kill() to a Rust process is swallowed by the handler of the Rust runtime.
fn skip_reason(backend: &str, plat: &Value, c: &Case) -> Option<&'static str> {
    if matches!(c.fam.as_str(), "send" | "self" | "die") && !safe_kill_words(&c.w) {
        return Some("numeric-operand");
    }
    if backend == "real" && c.fam == "die" {
        for nm in ["SEGV", "BUS"] {
            let n = num_named(plat, nm);
            if c.w.iter().any(|a| a.to_ascii_uppercase().contains(nm) || *a == format!("-{n}") || *a == n.to_string()) {
                return Some("rust-runtime-handler");
            }
        }
    }
    None
}

/// Runs a batch of shell-level cases of one family kind in one shell.
fn run_batch(b: &mut dyn Backend, plat: &Value, cases: &[Case], single: bool) -> Vec<Obs> {
    let nv = cases.iter().filter(|c| needs_victims(c)).count();
    let vict = b.victims(nv);
    let mut pids = vec![];
    let mut k = 0;
    for c in cases {
        if needs_victims(c) {
            pids.push(vict[k]);
            k += 1;
        } else {
            pids.push(Pids::default());
        }
    }
    let mut script = String::new();
    if cases.iter().any(|c| c.fam == "self") {
        script.push_str(&self_prelude(plat));
    }
    let mut marks = vec![];
    for (c, p) in cases.iter().zip(&pids) {
        let (text, n) = render_case(c, p);
        script.push_str(&text);
        marks.push(n);
    }
    let ran = b.run(&script, &vict);
    let mut out: &str = &ran.out;
    let mut err: &str = &ran.err;
    let mut res: Vec<Option<Obs>> = vec![];
    let mut broken = false;
    for (i, c) in cases.iter().enumerate() {
        if broken {
            res.push(None);
            continue;
        }
        match cut(&mut out, &mut err, marks[i]) {
            Some(segs) => {
                let mut o = Obs { done: true, st: segs[0].0, err: segs[0].2, out: tokens(segs[0].1), st2: -1, r: -1, ..Default::default() };
                if segs.len() > 1 {
                    o.st2 = segs[1].0;
                    o.out2 = tokens(segs[1].1);
                }
                if needs_victims(c) {
                    let p = pids[i];
                    for (v, pid) in [("V1", p.v1), ("V2", p.v2), ("V3", p.v3)] {
                        let (state, pend) = b.observe(pid);
                        o.recv.push(json!({"v": v, "pend": pend, "state": state}));
                    }
                }
                res.push(Some(o));
            }
            None => {
                broken = true;
                res.push(None);
            }
        }
    }
    b.cleanup(&vict);
    let mut obs = vec![];
    for (i, r) in res.into_iter().enumerate() {
        match r {
            Some(o) => obs.push(o),
            None if single => obs.push(Obs {
                done: false,
                st: -1,
                st2: -1,
                r: -1,
                note: format!("{}; stdout {:?}; stderr {:?}", ran.outcome, truncate(&ran.out), truncate(&ran.err)),
                ..Default::default()
            }),
            None => {
                // a batch that broke off: this case again, alone
                let mut o = run_batch(b, plat, &cases[i..=i], true);
                obs.push(o.remove(0));
            }
        }
    }
    let _ = ran.completed;
    obs
}

fn truncate(s: &str) -> String {
    s.chars().take(300).collect()
}

fn batch_size(fam: &str) -> usize {
    match fam {
        "send" => 40,
        "self" => 60,
        _ => 80,
    }
}

fn process(b: &mut dyn Backend, plat: &Value, cases: &[Case], from: &str, out: &mut dyn Write, tally: &mut Tally) {
    let sys = b.name();
    // API cases directly; shell cases in batches per family
    let mut by_fam: std::collections::BTreeMap<String, Vec<Case>> = Default::default();
    for c in cases {
        if c.fam == "law" {
            continue;
        }
        if let Some(why) = skip_reason(sys, plat, c) {
            *tally.skipped.entry(why.to_string()).or_default() += 1;
            continue;
        }
        if c.fam == "api" {
            let o = run_api(sys, c);
            writeln!(out, "{}", record(sys, from, c, &o)).unwrap();
            tally.count(c);
            continue;
        }
        by_fam.entry(c.fam.clone()).or_default().push(c.clone());
    }
    for (fam, list) in by_fam {
        for chunk in list.chunks(batch_size(&fam)) {
            let obs = run_batch(b, plat, chunk, false);
            for (c, o) in chunk.iter().zip(&obs) {
                writeln!(out, "{}", record(sys, from, c, o)).unwrap();
                tally.count(c);
                if !o.done {
                    tally.not_done += 1;
                }
            }
            tally.runs += 1;
        }
    }
}

#[derive(Default)]
struct Tally {
    cases: usize,
    runs: usize,
    not_done: usize,
    by_fam: std::collections::BTreeMap<String, usize>,
    by_kind: std::collections::BTreeMap<String, usize>,
    skipped: std::collections::BTreeMap<String, usize>,
}

impl Tally {
    fn count(&mut self, c: &Case) {
        self.cases += 1;
        *self.by_fam.entry(c.fam.clone()).or_default() += 1;
        *self.by_kind.entry(format!("{}:{}", c.fam, c.xk)).or_default() += 1;
    }
    fn json(&self) -> Value {
        json!({"cases": self.cases, "shell_runs": self.runs, "not_done": self.not_done, "by_family": self.by_fam,
               "by_expected_kind": self.by_kind, "skipped": self.skipped})
    }
}

// ---------------------------------------------------------------------------
// the arena: a PID namespace of our own for the real side
// ---------------------------------------------------------------------------
/// Re-executes this program inside a new PID (and mount) namespace; the child
/// is process 1 there and runs `args` with YV_G14=arena-inner.
fn enter_arena(args: &[String]) -> ! {
    let exe = std::env::current_exe().expect("current_exe");
    let base = std::env::var("VERIF_SCRATCH").unwrap_or_else(|_| "/verif".to_string());
    let scratch = format!("{base}/work/G14-arena-{}", std::process::id());
    let _ = std::fs::create_dir_all(&scratch);
    unsafe {
        if libc::unshare(libc::CLONE_NEWPID | libc::CLONE_NEWNS) != 0 {
            eprintln!("yv-g14: unshare failed: {}", std::io::Error::last_os_error());
            std::process::exit(2);
        }
    }
    let st = std::process::Command::new(exe).args(args).env("YV_G14", "arena-inner").env("VERIF_SCRATCH", &scratch).status();
    let _ = std::fs::remove_dir_all(&scratch);
    match st {
        Ok(s) => std::process::exit(s.code().unwrap_or(2)),
        Err(e) => {
            eprintln!("yv-g14: arena: {e}");
            std::process::exit(2)
        }
    }
}

fn arena_setup() {
    assert_eq!(std::process::id(), 1, "not process 1 of a new PID namespace");
    unsafe {
        let root = std::ffi::CString::new("/").unwrap();
        let procp = std::ffi::CString::new("/proc").unwrap();
        let proct = std::ffi::CString::new("proc").unwrap();
        if libc::mount(std::ptr::null(), root.as_ptr(), std::ptr::null(), libc::MS_REC | libc::MS_PRIVATE, std::ptr::null()) != 0 {
            eprintln!("yv-g14: making / private failed: {}", std::io::Error::last_os_error());
            std::process::exit(2);
        }
        if libc::mount(proct.as_ptr(), procp.as_ptr(), proct.as_ptr(), 0, std::ptr::null()) != 0 {
            eprintln!("yv-g14: mounting /proc failed: {}", std::io::Error::last_os_error());
            std::process::exit(2);
        }
        // burn process IDs: those of the sacrificial processes must not look
        // like signal numbers or exit statuses
        loop {
            let pid = libc::fork();
            if pid == 0 {
                libc::_exit(0);
            }
            let mut st = 0;
            libc::waitpid(pid, &mut st, 0);
            if pid > 1200 || pid < 0 {
                break;
            }
        }
    }
}

// ---------------------------------------------------------------------------
// sub-commands
// ---------------------------------------------------------------------------
fn read_cases(path: &str) -> Vec<Case> {
    let f = std::io::BufReader::new(std::fs::File::open(path).expect("open --in"));
    f.lines().map_while(Result::ok).filter(|l| !l.trim().is_empty()).map(|l| case_of(&serde_json::from_str(&l).expect("case line"))).collect()
}

fn backend(sys: &str) -> Box<dyn Backend> {
    if sys == "sim" { Box::new(Sim { state: None }) } else { Box::new(Real) }
}

fn replay(args: &[String]) {
    let sys = opt(args, "--sys").unwrap_or("sim").to_string();
    let plat: Value = serde_json::from_str(&std::fs::read_to_string(opt(args, "--platform").expect("--platform")).unwrap()).unwrap();
    let cases = read_cases(opt(args, "--in").expect("--in"));
    let from = opt(args, "--from").unwrap_or("gen").to_string();
    let mut out = std::io::BufWriter::new(std::fs::File::create(opt(args, "--out").expect("--out")).unwrap());
    let mut tally = Tally::default();
    let mut b = backend(&sys);
    process(b.as_mut(), &plat, &cases, &from, &mut out, &mut tally);
    out.flush().unwrap();
    println!("{}", tally.json());
}

fn pick<'a, T>(rng: &mut StdRng, xs: &'a [T]) -> &'a T {
    &xs[rng.gen_range(0..xs.len())]
}

fn random_spelling(rng: &mut StdRng, nm: &str) -> String {
    let base: String = match rng.gen_range(0..5) {
        0 | 1 => nm.to_string(),
        2 => nm.to_ascii_lowercase(),
        3 => nm.chars().enumerate().map(|(i, ch)| if i % 2 == 0 { ch.to_ascii_lowercase() } else { ch }).collect(),
        _ => nm.chars().map(|ch| if rng.gen_bool(0.5) { ch.to_ascii_lowercase() } else { ch }).collect(),
    };
    match rng.gen_range(0..6) {
        0 => format!("SIG{base}"),
        1 => format!("sig{base}"),
        _ => base,
    }
}

fn random_spec(rng: &mut StdRng, plat: &Value) -> String {
    let names: Vec<String> = plat["names"].as_array().unwrap().iter().map(|e| e["n"].as_str().unwrap().to_string()).collect();
    let (lo, hi) = (plat["rtmin"].as_i64().unwrap(), plat["rtmax"].as_i64().unwrap());
    let span = hi - lo;
    match rng.gen_range(0..12) {
        0..=4 => {
            let nm = pick(rng, &names).clone();
            random_spelling(rng, &nm)
        }
        5 => {
            let k = rng.gen_range(0..=span + 2);
            let nm = if rng.gen_bool(0.5) { format!("RTMIN+{k}") } else { format!("RTMAX-{k}") };
            random_spelling(rng, &nm)
        }
        6 | 7 => rng.gen_range(0..=hi + 3).to_string(),
        8 => pick(rng, &["128", "129", "255", "256", "384", "399", "1000", "65535"]).to_string(),
        9 => pick(rng, &["RTMIN", "RTMAX", "RTMIN+0", "RTMAX-0", "RTMIN-1", "RTMAX+1", "rtmin", "SIGRTMAX"]).to_string(),
        _ => pick(rng, &["", "FOO", "EXIT", "TERMX", "SIG", " INT", "INT ", "+15", "-15", "015", "1x", "SIGSIGINT", "T"]).to_string(),
    }
}

fn random_case(rng: &mut StdRng, plat: &Value) -> Case {
    let mut c = Case { fam: String::new(), po: rng.gen_bool(0.25), w: vec![], op: String::new(), t: String::new(), n: 0, xk: "random".into() };
    let targets = ["@V1", "@V2", "@V3", "@NONE"];
    match rng.gen_range(0..10) {
        0..=3 => {
            c.fam = "send".into();
            let x = random_spec(rng, plat);
            match rng.gen_range(0..7) {
                0 => c.w.extend(["-s".to_string(), x]),
                1 => c.w.push(format!("-s{x}")),
                2 => c.w.extend(["-n".to_string(), x]),
                3 => c.w.push(format!("-n{x}")),
                4 | 5 => c.w.push(format!("-{x}")),
                _ => {}
            }
            if rng.gen_bool(0.1) {
                c.w.push(pick(rng, &["-l", "-v", "-q", "-s", "-n"]).to_string());
            }
            let dd = rng.gen_bool(0.4);
            if dd {
                c.w.push("--".into());
            }
            let k = rng.gen_range(0..=3);
            for i in 0..k {
                if i == 0 && dd && rng.gen_bool(0.5) || i > 0 && rng.gen_bool(0.3) {
                    c.w.push(pick(rng, &["@-G1", "@-G2"]).to_string());
                } else if rng.gen_bool(0.08) {
                    c.w.push(pick(rng, &["abc", "", "1x"]).to_string());
                } else {
                    c.w.push(pick(rng, &targets).to_string());
                }
            }
            if !dd && rng.gen_bool(0.05) {
                c.w.push("@-G1".into());
            }
        }
        4 | 5 => {
            c.fam = "list".into();
            c.w.push(pick(rng, &["-l", "-l", "-l", "-v", "-lv"]).to_string());
            if rng.gen_bool(0.15) {
                c.w.push("--".into());
            }
            let k = *pick(rng, &[0usize, 1, 1, 1, 2, 3]);
            let hi = plat["rtmax"].as_i64().unwrap();
            for _ in 0..k {
                let x = match rng.gen_range(0..4) {
                    0 => random_spec(rng, plat),
                    1 => rng.gen_range(0..=hi + 3).to_string(),
                    2 => (128 + rng.gen_range(0..=hi + 3)).to_string(),
                    _ => (384 + rng.gen_range(0..=hi + 3)).to_string(),
                };
                c.w.push(x);
            }
        }
        6 | 7 => {
            c.fam = "trap".into();
            c.po = false;
            let hi = plat["rtmax"].as_i64().unwrap();
            match rng.gen_range(0..8) {
                // the action omitted: the first operand is an unsigned integer
                0 => c.w.push(rng.gen_range(0..=hi + 3).to_string()),
                1 => c.w.push(pick(rng, &["true", "false", "exit"]).to_string()),
                _ => c.w.push(pick(rng, &["-p", "-", ""]).to_string()),
            }
            let k = *pick(rng, &[1usize, 1, 1, 2, 3]);
            for _ in 0..k {
                let x = match rng.gen_range(0..6) {
                    0 => pick(rng, &["EXIT", "0", "exit", "SIGEXIT", "00"]).to_string(),
                    _ => random_spec(rng, plat),
                };
                c.w.push(x);
            }
        }
        8 => {
            c.fam = "self".into();
            let x = random_spec(rng, plat);
            match rng.gen_range(0..3) {
                0 => c.w.extend(["-s".to_string(), x]),
                1 => c.w.extend(["-n".to_string(), x]),
                _ => c.w.push(format!("-{x}")),
            }
            c.w.push("@ME".into());
        }
        _ => {
            c.fam = "api".into();
            c.po = false;
            let hi = plat["rtmax"].as_i64().unwrap();
            c.op = pick(rng, &["str2sig", "sig2str", "tosignum", "validate", "fromstr", "parsesig0", "parsesig1", "tosignal0", "tosignal1"]).to_string();
            match c.op.as_str() {
                "str2sig" | "fromstr" | "parsesig0" | "parsesig1" => c.t = random_spec(rng, plat),
                "tosignal0" | "tosignal1" => c.n = rng.gen_range(-2..=384 + hi + 5),
                _ => c.n = rng.gen_range(-2..=hi + 4),
            }
        }
    }
    c
}

/// A random self case must not stop or kill the shell that runs the batch.
fn self_is_harmless(plat: &Value, c: &Case) -> bool {
    let kill = num_named(plat, "KILL");
    let stop = num_named(plat, "STOP");
    let bad = |a: &String| {
        let u = a.to_ascii_uppercase();
        u.contains("KILL") || u.contains("STOP") || u.trim_start_matches('-') == kill.to_string() || u.trim_start_matches('-') == stop.to_string()
    };
    !c.w.iter().any(bad)
}

fn random(args: &[String]) {
    let sys = opt(args, "--sys").unwrap_or("sim").to_string();
    let plat: Value = serde_json::from_str(&std::fs::read_to_string(opt(args, "--platform").expect("--platform")).unwrap()).unwrap();
    let n = opt_usize(args, "--n", 1000);
    let stream = opt_usize(args, "--stream", 0) as u64;
    let mut rng = StdRng::seed_from_u64(seed().wrapping_mul(0x9E3779B97F4A7C15) ^ if sys == "sim" { 14 } else { 41 } ^ (stream << 32));
    let mut cases = vec![];
    while cases.len() < n {
        let c = random_case(&mut rng, &plat);
        if c.fam == "self" && !self_is_harmless(&plat, &c) {
            continue;
        }
        cases.push(c);
    }
    let mut out = std::io::BufWriter::new(std::fs::File::create(opt(args, "--out").expect("--out")).unwrap());
    let mut tally = Tally::default();
    let mut b = backend(&sys);
    process(b.as_mut(), &plat, &cases, "random", &mut out, &mut tally);
    out.flush().unwrap();
    println!("{}", tally.json());
}

fn main() {
    match std::env::var("YV_G14").as_deref() {
        Ok("shell") => real_shell_child(),
        Ok("arena-inner") => {
            unsafe { std::env::remove_var("YV_G14") };
            arena_setup();
        }
        _ => {}
    }
    yvcommon::real::maybe_child_main();
    quiet_panics();
    let args: Vec<String> = std::env::args().skip(1).collect();
    let inner = std::process::id() == 1;
    let sys = opt(&args, "--sys").unwrap_or("sim").to_string();
    match args.first().map(|s| s.as_str()) {
        Some("platform") => println!("{}", platform(&sys)),
        Some("replay") | Some("random") if sys == "real" && !inner => enter_arena(&args),
        Some("replay") => replay(&args),
        Some("random") => random(&args),
        _ => {
            eprintln!("usage: yv-g14 platform|replay|random --sys sim|real ...");
            std::process::exit(2);
        }
    }
}
