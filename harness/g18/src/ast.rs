//! Abstract syntax of the command language of spec/ListsExt.tla: tokens in
//! prefix form (the interchange format with TLC) and trees.
use serde::{Deserialize, Serialize};

#[derive(Clone, Debug, Serialize, Deserialize, PartialEq, Eq)]
pub struct Tok {
    pub k: String,
    pub n: i64,
    pub s: String,
}

#[derive(Clone, Debug)]
pub struct Node {
    pub k: String,
    pub n: i64,
    pub s: String,
    /// marker: 1-based index of the token in the prefix form
    pub m: usize,
    pub c: Vec<Node>,
}

/// Number of children of a node of kind `k` (SlotsOf in ListsExt.tla).
pub fn arity(k: &str) -> usize {
    match k {
        "not" | "sub" | "bg" | "rdr" | "for" | "case" => 1,
        "seq" | "and" | "or" | "pipe" | "if" | "while" | "item" => 2,
        "ife" | "pipe3" => 3,
        _ => 0,
    }
}

fn parse_at(toks: &[Tok], i: &mut usize) -> Option<Node> {
    let t = toks.get(*i)?;
    let m = *i + 1;
    *i += 1;
    let mut c = Vec::new();
    for _ in 0..arity(&t.k) {
        c.push(parse_at(toks, i)?);
    }
    Some(Node { k: t.k.clone(), n: t.n, s: t.s.clone(), m, c })
}

pub fn parse(toks: &[Tok]) -> Option<Node> {
    let mut i = 0;
    let n = parse_at(toks, &mut i)?;
    if i == toks.len() { Some(n) } else { None }
}

/// Prefix form of a tree (markers are recomputed by `parse`).
pub fn flatten(n: &Node, out: &mut Vec<Tok>) {
    out.push(Tok { k: n.k.clone(), n: n.n, s: n.s.clone() });
    for c in &n.c {
        flatten(c, out);
    }
}

impl Node {
    pub fn leaf(k: &str, n: i64, s: &str) -> Node {
        Node { k: k.into(), n, s: s.into(), m: 0, c: vec![] }
    }
    pub fn with(k: &str, n: i64, s: &str, c: Vec<Node>) -> Node {
        Node { k: k.into(), n, s: s.into(), m: 0, c }
    }
    pub fn any(&self, f: &dyn Fn(&Node) -> bool) -> bool {
        f(self) || self.c.iter().any(|c| c.any(f))
    }
}
