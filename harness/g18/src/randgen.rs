//! Seeded random generation of larger programs (impl -> spec direction:
//! executed first, then judged by spec/Trace_ListsExt.tla).  A program is
//! drawn from one of four profiles so that most programs stay outside the
//! classes the specification leaves open (races on files and pipes); what
//! still slips through is classified by the specification and skipped.
use crate::ast::Node;
use rand::Rng;
use rand::rngs::StdRng;

#[derive(Clone, Copy)]
pub struct Ctx {
    /// loops lexically enclosing in the current environment
    pub ld: usize,
    /// inside the condition of a while loop: no `continue`
    pub nocnt: bool,
}

pub struct Gen<'a> {
    pub rng: &'a mut StdRng,
    /// 0: statuses of pipelines / asynchronous lists, 1: case and for,
    /// 2: redirections and data (no concurrency), 3: everything
    pub profile: usize,
}

fn leaf(k: &str, n: i64, s: &str) -> Node {
    Node::leaf(k, n, s)
}

/// `a; b` with the first child of every `seq` node not a `seq` node itself
fn mkseq(a: Node, b: Node) -> Node {
    if a.k == "seq" {
        let mut it = a.c.into_iter();
        let x = it.next().unwrap();
        let y = it.next().unwrap();
        Node::with("seq", 0, "", vec![x, mkseq(y, b)])
    } else {
        Node::with("seq", 0, "", vec![a, b])
    }
}

const PATS: &[&str] = &["a", "b", "c", "*", "?", "v", "a|b", "b|a", "Pa", "Pb", "Pc", "P*", "Pa|Pb", "Pb|Pa", "Pb|Pa|Pc"];
const SUBJ: &[&str] = &["a", "b", "c", "v", "Pa", "Pb"];
const FORW: &[&str] = &["", "a", "ab", "abc", "@", "q@", "bv", "U", "Pab", "Pc"];

impl Gen<'_> {
    fn io(&self) -> bool {
        self.profile >= 2
    }
    fn conc(&self) -> bool {
        self.profile != 2
    }

    fn gen_leaf(&mut self, c: Ctx) -> Node {
        loop {
            let x = self.rng.gen_range(0..100);
            let n = match x {
                0..=11 => leaf("mk", 0, ""),
                12..=22 => leaf("mk", 1, ""),
                23..=25 => leaf("mk", 3, ""),
                26..=40 => leaf("P", 0, ""),
                41..=46 => leaf("pv", 0, ""),
                47..=51 if self.conc() => leaf("pb", 0, ""),
                52..=57 => leaf("asg", 0, ["a", "b", "c", "d"][self.rng.gen_range(0..4)]),
                58 => leaf("ro", 0, ""),
                59..=61 => leaf("setpf", self.rng.gen_range(0..=1), ""),
                62 => leaf("sete", self.rng.gen_range(0..=1), ""),
                63..=64 => leaf("setpp", self.rng.gen_range(0..=3), ""),
                65..=71 if self.conc() => {
                    leaf("wait", 0, ["all", "last", "last", "last2", "unk"][self.rng.gen_range(0..5)])
                }
                72..=74 if self.conc() => leaf("kill", 0, ["INT", "QUIT", "TERM"][self.rng.gen_range(0..3)]),
                75..=77 => {
                    if self.rng.gen_bool(0.6) {
                        continue;
                    }
                    leaf("exit", *[-1, 2, 5].get(self.rng.gen_range(0..3)).unwrap(), "")
                }
                78..=85 => {
                    if c.ld == 0 || c.nocnt {
                        continue;
                    }
                    let n = if self.rng.gen_bool(0.7) { 1 } else { 2 };
                    if self.rng.gen_bool(0.5) { leaf("brk", n, "") } else { leaf("cnt", n, "") }
                }
                86..=93 if self.io() => leaf("say", self.rng.gen_range(1..=4), ""),
                94..=99 if self.io() => leaf("rd", 0, ""),
                _ => continue,
            };
            return n;
        }
    }

    fn case_items(&mut self, mut budget: usize, c: Ctx) -> Node {
        let k = self.rng.gen_range(0..=3);
        let mut items: Vec<(String, i64, Node)> = vec![];
        for _ in 0..k {
            let pat = PATS[self.rng.gen_range(0..PATS.len())].to_string();
            let term = *[0, 0, 1, 2].get(self.rng.gen_range(0..4)).unwrap();
            let body = if budget == 0 || self.rng.gen_bool(0.2) {
                leaf("empty", 0, "")
            } else {
                let b = self.rng.gen_range(1..=budget.min(5));
                budget -= b;
                self.cmd(b, c)
            };
            items.push((pat, term, body));
        }
        let mut acc = leaf("esac", 0, "");
        for (pat, term, body) in items.into_iter().rev() {
            acc = Node::with("item", term, &pat, vec![body, acc]);
        }
        acc
    }

    /// a command tree with at most `size` nodes (size >= 1)
    pub fn cmd(&mut self, size: usize, c: Ctx) -> Node {
        if size <= 1 {
            return self.gen_leaf(c);
        }
        loop {
            let x = self.rng.gen_range(0..100);
            let rest = size - 1;
            let split = |g: &mut Self, total: usize| -> (usize, usize) {
                let a = g.rng.gen_range(1..total);
                (a, total - a)
            };
            let sub = Ctx { ld: 0, nocnt: false };
            let node = match x {
                0..=21 if rest >= 2 => {
                    let (a, b) = split(self, rest);
                    let a2 = a.min(6);
                    let first = self.cmd(a2, c);
                    let second = self.cmd(b + (a - a2), c);
                    mkseq(first, second)
                }
                22..=27 if rest >= 2 => {
                    let (a, b) = split(self, rest);
                    Node::with("and", 0, "", vec![self.cmd(a, c), self.cmd(b, c)])
                }
                28..=32 if rest >= 2 => {
                    let (a, b) = split(self, rest);
                    Node::with("or", 0, "", vec![self.cmd(a, c), self.cmd(b, c)])
                }
                33..=36 => Node::with("not", 0, "", vec![self.cmd(rest, c)]),
                37..=42 => Node::with("sub", 0, "", vec![self.cmd(rest, sub)]),
                43..=52 if rest >= 2 && self.conc() => {
                    let (a, b) = split(self, rest);
                    Node::with("pipe", 0, "", vec![self.cmd(a, sub), self.cmd(b, sub)])
                }
                53..=56 if rest >= 3 && self.conc() => {
                    let a = self.rng.gen_range(1..=rest - 2);
                    let b = self.rng.gen_range(1..=rest - a - 1);
                    let d = rest - a - b;
                    Node::with("pipe3", 0, "", vec![self.cmd(a, sub), self.cmd(b, sub), self.cmd(d, sub)])
                }
                57..=66 if self.conc() => Node::with("bg", 0, "", vec![self.cmd(rest, sub)]),
                67..=70 if rest >= 2 => {
                    let (a, b) = split(self, rest);
                    Node::with("if", 0, "", vec![self.cmd(a, c), self.cmd(b, c)])
                }
                71..=72 if rest >= 3 => {
                    let a = self.rng.gen_range(1..=rest - 2);
                    let b = self.rng.gen_range(1..=rest - a - 1);
                    let d = rest - a - b;
                    Node::with("ife", 0, "", vec![self.cmd(a, c), self.cmd(b, c), self.cmd(d, c)])
                }
                73..=75 if rest >= 2 => {
                    let csz = self.rng.gen_range(1..=(rest - 1).min(3));
                    let lc = Ctx { ld: c.ld + 1, nocnt: false };
                    let cc = Ctx { nocnt: true, ..lc };
                    let cond = if csz >= 3 {
                        Node::with("seq", 0, "", vec![self.cmd(csz - 2, cc), leaf("tick", 0, "")])
                    } else {
                        leaf("tick", 0, "")
                    };
                    Node::with("while", 0, "", vec![cond, self.cmd(rest - csz, lc)])
                }
                76..=83 if self.profile != 0 || self.rng.gen_bool(0.3) => {
                    let lc = Ctx { ld: c.ld + 1, nocnt: false };
                    let w = FORW[self.rng.gen_range(0..FORW.len())];
                    Node::with("for", 0, w, vec![self.cmd(rest, lc)])
                }
                84..=92 if self.profile != 0 || self.rng.gen_bool(0.3) => {
                    let s = SUBJ[self.rng.gen_range(0..SUBJ.len())];
                    Node::with("case", 0, s, vec![self.case_items(rest, c)])
                }
                93..=99 if self.io() => {
                    let r = [">f", ">>f", "<f", "<g", "<g", ">f"][self.rng.gen_range(0..6)];
                    Node::with("rdr", 0, r, vec![self.cmd(rest, c)])
                }
                _ => continue,
            };
            return node;
        }
    }

    /// a whole program: a few top-level items
    pub fn program(&mut self, size: usize) -> Node {
        let top = Ctx { ld: 0, nocnt: false };
        let mut items: Vec<Node> = vec![];
        let mut left = size;
        while left > 0 {
            let a = if left <= 3 || self.rng.gen_bool(0.2) { left } else { self.rng.gen_range(1..=left.min(12)) };
            items.push(self.cmd(a, top));
            left = left.saturating_sub(a + 1);
        }
        let mut it = items.into_iter().rev();
        let mut acc = it.next().unwrap();
        for x in it {
            acc = mkseq(x, acc);
        }
        acc
    }
}
