//! Conformance harness for the specification-growth module G18 (lists,
//! pipelines and compound commands beyond Semantics.tla: asynchronous lists,
//! pipefail, case continuations, for, redirected compound commands); see
//! spec/ListsExt.tla.
//!
//!   yv-g18 run    --in gen.ndjson --out verdicts.ndjson [--variants V] [--every N] [--jobs J] [--dfs N --depth D --rand R]
//!       spec -> impl: every program printed by TLC (Gen_ListsExt) with the
//!       outcome the specification prescribes is rendered to shell text
//!       (seeded surface variation), executed on the simulated OS - programs
//!       with concurrent processes also under depth-first enumerated and
//!       random schedules - and compared (exec::conforms).
//!   yv-g18 random --n N --size S --out recs.ndjson --full recs.full.ndjson [--jobs J]
//!       impl -> spec: seeded random larger programs are executed under random
//!       schedules and recorded for validation by spec/Trace_ListsExt.tla.
//!   yv-g18 redo   --in replay.json
//!       re-executes the program of a replay file and prints the observation.
//!
//! Every execution happens in a worker process supervised with a watchdog: a
//! hang or a crash of the shell is recorded as data (outcome "timeout" /
//! "crash"), never a harness failure.
mod ast;
mod exec;
mod randgen;
mod render;

use ast::{Node, Tok};
use exec::Obs;
use rand::SeedableRng;
use rand::rngs::StdRng;
use render::Renderer;
use yvcommon::sched::Schedule;
use serde_json::{Value, json};
use std::io::{BufRead, BufReader, Write};
use std::process::{Command, Stdio};
use std::sync::mpsc;
use std::time::Duration;
use yvcommon::util::{opt, opt_usize, seed};

/// A worker that prints nothing for this long is considered hung on the
/// program it announced (simulated runs take well under a millisecond of CPU;
/// the margin is for a heavily loaded machine).
const STALL_SIM: Duration = Duration::from_secs(8);

fn mix(a: u64, b: u64) -> u64 {
    let mut x = a.wrapping_mul(0x9E37_79B9_7F4A_7C15).wrapping_add(b).wrapping_add(0x632B_E59B_D9B4_E019);
    x ^= x >> 29;
    x = x.wrapping_mul(0xBF58_476D_1CE4_E5B9);
    x ^= x >> 32;
    x
}

fn schedules_for(first: &Obs, dfs: usize, depth: usize, rand: usize, seed: u64, r: &render::Rendered,
                 mut f: impl FnMut(&Obs, &str) -> bool) {
    // depth-first enumeration of the schedules that differ within the first
    // `depth` choice points, at most `dfs` of them, then `rand` random ones
    let mut choices = first.choices.clone();
    let mut n = 0;
    while n < dfs {
        let Some(prefix) = yvcommon::sched::next_prefix(&choices, depth) else { break };
        let desc = format!("prefix {prefix:?}");
        let o = exec::run_sim(r, Schedule::Prefix(prefix));
        choices = o.choices.clone();
        n += 1;
        if !f(&o, &desc) {
            return;
        }
    }
    for k in 0..rand {
        let sd = mix(seed, 0xabc0 + k as u64);
        let o = exec::run_sim(r, Schedule::Random(sd));
        if !f(&o, &format!("random {sd}")) {
            return;
        }
    }
}

// ---------------------------------------------------------------------------
// workers
// ---------------------------------------------------------------------------

fn emit(line: &str) {
    let out = std::io::stdout();
    let mut l = out.lock();
    let _ = l.write_all(line.as_bytes());
    let _ = l.write_all(b"\n");
    let _ = l.flush();
}

/// P2 worker: reads TLC's lines, handles those with index % parts == part and >= skip.
fn worker_run(args: &[String]) -> i32 {
    let variants = opt_usize(args, "--variants", 2);
    let every = opt_usize(args, "--every", 1).max(1);
    let part = opt_usize(args, "--part", 0);
    let parts = opt_usize(args, "--parts", 1).max(1);
    let skip = opt_usize(args, "--skip", 0);
    let dfs = opt_usize(args, "--dfs", 6);
    let depth = opt_usize(args, "--depth", 6);
    let nrand = opt_usize(args, "--rand", 2);
    let only = opt(args, "--only").and_then(|s| s.parse::<usize>().ok());
    let path = opt(args, "--in").expect("--in");
    let f = BufReader::new(std::fs::File::open(path).expect("open --in"));
    let sd = seed();
    for (idx, line) in f.lines().enumerate() {
        let line = line.expect("read");
        if let Some(o) = only {
            if idx != o {
                continue;
            }
        } else if idx % parts != part || idx < skip || (idx / parts) % every != 0 {
            continue;
        }
        let v: Value = match serde_json::from_str(&line) {
            Ok(v) => v,
            Err(_) => continue,
        };
        let toks: Vec<Tok> = serde_json::from_value(v["p"].clone()).expect("tokens");
        let Some(tree) = ast::parse(&toks) else {
            emit(&format!("R {}", json!({"i": idx, "bad": "unparsable program"})));
            continue;
        };
        emit(&format!("S {} {}", idx, json!({"i": idx, "p": v["p"]})));
        let mut runs = 0;
        let mut scheds = 0;
        let mut unspec = 0;
        let mut open = 0;
        let mut div = 0;
        let mut okpairs = 0;
        let mut fails: Vec<Value> = vec![];
        let mut sample = Value::Null;
        let conc = tree.any(&|n| matches!(n.k.as_str(), "bg" | "pipe" | "pipe3"));
        let mut tags: Vec<String> = vec![];
        for (oi, o) in v["o"].as_array().cloned().unwrap_or_default().iter().enumerate() {
            match o["oc"].as_str().unwrap_or("") {
                "ok" => {}
                "unspec" => {
                    unspec += 1;
                    continue;
                }
                "open" => {
                    open += 1;
                    continue;
                }
                _ => {
                    div += 1;
                    continue;
                }
            }
            okpairs += 1;
            let e = o["e"].as_i64().unwrap_or(0) != 0;
            let pf = o["pf"].as_i64().unwrap_or(0) != 0;
            let exp = exec::expected_of(o);
            for tg in o["tg"].as_array().cloned().unwrap_or_default() {
                if let Some(tg) = tg.as_str() {
                    if !tags.iter().any(|x| x == tg) {
                        tags.push(tg.to_string());
                    }
                }
            }
            for vi in 0..variants {
                let s = mix(mix(mix(sd, idx as u64), oi as u64), vi as u64);
                // the first variant is the plain rendering, the others vary the surface
                let mut rd = Renderer::new(s, vi > 0 || variants == 1 && idx % 2 == 1);
                let rendered = rd.program(&tree, e, pf);
                let first = exec::run_sim(&rendered, Schedule::Fifo);
                runs += 1;
                let check = |obs: &Obs, sched: &str, fails: &mut Vec<Value>| -> bool {
                    let verdict = exec::conforms(&exp, obs);
                    if let Err(why) = verdict {
                        if fails.len() < 2 {
                            fails.push(json!({"e": o["e"], "pf": o["pf"], "tg": o["tg"], "x": o["x"], "why": why,
                                "text": rendered.script, "flags": rendered.flags, "file": rendered.via_file, "sched": sched,
                                "expected": {"tr": o["tr"], "win": o["win"], "st": o["st"], "out": o["out"], "ff": o["ff"], "orace": o["orace"]},
                                "observed": obs.to_json()}));
                        }
                        return false;
                    }
                    true
                };
                let ok = check(&first, "fifo", &mut fails);
                if sample.is_null() && (idx % 97 == 0) {
                    sample = json!({"text": rendered.script, "flags": rendered.flags,
                                    "expected": {"tr": o["tr"], "win": o["win"], "st": o["st"]}, "observed": first.to_json()});
                }
                if ok && conc && first.oc == "completed" {
                    // the same rendering under other schedules
                    let (d, r) = if vi == 0 { (dfs, nrand) } else { (0, nrand) };
                    schedules_for(&first, d, depth, r, s, &rendered, |obs, desc| {
                        runs += 1;
                        scheds += 1;
                        check(obs, desc, &mut fails)
                    });
                }
            }
        }
        emit(&format!(
            "R {}",
            json!({"i": idx, "p": v["p"], "runs": runs, "scheds": scheds, "pairs": okpairs, "unspec": unspec, "open": open, "div": div,
                   "fails": fails, "sample": sample, "tags": tags})
        ));
    }
    0
}

/// P3 worker: generates program i from the seed, executes it, records it.
fn worker_random(args: &[String]) -> i32 {
    let n = opt_usize(args, "--n", 100);
    let size = opt_usize(args, "--size", 40);
    let part = opt_usize(args, "--part", 0);
    let parts = opt_usize(args, "--parts", 1).max(1);
    let skip = opt_usize(args, "--skip", 0);
    let only = opt(args, "--only").and_then(|s| s.parse::<usize>().ok());
    let sd = seed();
    for idx in 0..n {
        if let Some(o) = only {
            if idx != o {
                continue;
            }
        } else if idx % parts != part || idx < skip {
            continue;
        }
        let mut rng = StdRng::seed_from_u64(mix(mix(sd, 0x5eed), idx as u64));
        use rand::Rng;
        let sz = rng.gen_range(3..=size);
        let profile = rng.gen_range(0..4);
        let tree0 = {
            let mut g = randgen::Gen { rng: &mut rng, profile };
            g.program(sz)
        };
        let mut toks = vec![];
        ast::flatten(&tree0, &mut toks);
        let tree = ast::parse(&toks).expect("own program parses");
        let e = rng.gen_bool(0.25);
        let pf = rng.gen_bool(0.4);
        let mut rd = Renderer::new(mix(sd, idx as u64), true);
        let rendered = rd.program(&tree, e, pf);
        let sched = if rng.gen_bool(0.2) { Schedule::Fifo } else { Schedule::Random(mix(sd, 77 + idx as u64)) };
        let head = json!({"i": idx, "p": toks, "e": e as i64, "pf": pf as i64, "text": rendered.script,
                          "flags": rendered.flags, "file": rendered.via_file, "sched": format!("{sched:?}")});
        emit(&format!("S {} {}", idx, head));
        let obs = exec::run_sim(&rendered, sched);
        let mut rec = head;
        rec["oc"] = json!(obs.oc);
        // (an abandoned run may have recorded thousands of observations: keep a prefix)
        let keep = if obs.oc == "completed" { obs.tr.len() } else { obs.tr.len().min(200) };
        rec["tr"] = exec::tr_json(&obs.tr[..keep]);
        rec["st"] = json!(obs.st);
        rec["out"] = json!(obs.out);
        rec["ff"] = json!(obs.ff);
        rec["detail"] = json!(obs.detail);
        emit(&format!("R {rec}"));
    }
    0
}

// ---------------------------------------------------------------------------
// supervisor
// ---------------------------------------------------------------------------

type Pending = Option<(usize, Value)>;

/// One worker process to its end (or to a stall).  Result records are sent on
/// `tx`; returns the item that was being executed when the worker was lost
/// and why ("timeout" / "crash"), or (None, None) after a clean end.
fn run_worker(
    exe: &std::path::Path,
    worker: &str,
    args: &[String],
    extra: &[String],
    stall: Duration,
    tx: &mpsc::Sender<Result<Value, String>>,
) -> (Pending, Option<&'static str>, Option<usize>) {
    let mut last_done: Option<usize> = None;
    let mut child = match Command::new(exe)
        .arg(worker)
        .args(args)
        .args(extra)
        .stdin(Stdio::null())
        .stdout(Stdio::piped())
        .stderr(Stdio::null())
        .spawn()
    {
        Ok(c) => c,
        Err(e) => {
            let _ = tx.send(Err(format!("cannot spawn worker: {e}")));
            return (None, None, None);
        }
    };
    let stdout = child.stdout.take().unwrap();
    let (ltx, lrx) = mpsc::channel::<String>();
    let reader = std::thread::spawn(move || {
        for line in BufReader::new(stdout).lines().map_while(Result::ok) {
            if ltx.send(line).is_err() {
                break;
            }
        }
    });
    let mut pending: Pending = None;
    let mut lost: Option<&'static str> = None;
    loop {
        match lrx.recv_timeout(stall) {
            Ok(line) => {
                if let Some(rest) = line.strip_prefix("S ") {
                    let mut it = rest.splitn(2, ' ');
                    let idx: usize = it.next().and_then(|s| s.parse().ok()).unwrap_or(0);
                    let v: Value = it.next().and_then(|s| serde_json::from_str(s).ok()).unwrap_or(Value::Null);
                    pending = Some((idx, v));
                } else if let Some(rest) = line.strip_prefix("R ") {
                    pending = None;
                    match serde_json::from_str::<Value>(rest) {
                        Ok(v) => {
                            if let Some(i) = v["i"].as_u64() {
                                last_done = Some(i as usize);
                            }
                            let _ = tx.send(Ok(v));
                        }
                        Err(e) => {
                            let _ = tx.send(Err(format!("bad worker line: {e}")));
                        }
                    }
                }
            }
            Err(mpsc::RecvTimeoutError::Timeout) => {
                let _ = child.kill();
                lost = Some("timeout");
                break;
            }
            Err(mpsc::RecvTimeoutError::Disconnected) => break,
        }
    }
    let status = child.wait();
    let _ = reader.join();
    let clean = matches!(&status, Ok(s) if s.success());
    if lost.is_none() && !clean {
        lost = Some("crash");
    }
    (pending, lost, last_done)
}

/// Runs `worker` (a sub-command of this binary) as child processes, `jobs` in
/// parallel, each restarted after a stall or crash.  `on_result` receives
/// every result record; `on_lost(pending, why)` builds the record for an item
/// whose execution hung ("timeout") or killed the worker ("crash").
fn supervise(worker: &str, args: &[String], jobs: usize, sink: &mut dyn FnMut(Value)) -> Result<(), String> {
    let exe = std::env::current_exe().map_err(|e| e.to_string())?;
    let stall = STALL_SIM;
    let (tx, rx) = mpsc::channel::<Result<Value, String>>();
    let mut handles = vec![];
    for part in 0..jobs {
        let tx = tx.clone();
        let exe = exe.clone();
        let args: Vec<String> = args.to_vec();
        let worker = worker.to_string();
        handles.push(std::thread::spawn(move || {
            let mut skip = 0usize;
            let mut restarts = 0;
            let mut confirmed_hangs = 0;
            let mut lost_items = 0;
            loop {
                let extra = vec!["--part".to_string(), part.to_string(), "--parts".into(), jobs.to_string(),
                                 "--skip".into(), skip.to_string()];
                let (pending, lost, last_done) = run_worker(&exe, &worker, &args, &extra, stall, &tx);
                if let Some(d) = last_done {
                    skip = skip.max(d + 1);
                }
                let Some(why) = lost else { return };
                restarts += 1;
                if restarts > 300 {
                    let _ = tx.send(Err("too many worker restarts".into()));
                    return;
                }
                match pending {
                    Some((idx, mut v)) => {
                        // A stall may be an overloaded machine: run the item once more, alone,
                        // with a generous limit, before calling it a hang of the shell.
                        let mut settled = false;
                        if why == "timeout" && confirmed_hangs < 1 {
                            let extra = vec!["--only".to_string(), idx.to_string()];
                            let (p2, l2, _) = run_worker(&exe, &worker, &args, &extra, stall * 4, &tx);
                            if l2.is_none() && p2.is_none() {
                                settled = true; // its result record has been delivered
                            } else {
                                confirmed_hangs += 1;
                            }
                        }
                        if !settled {
                            v["lost"] = json!(why);
                            let _ = tx.send(Ok(v));
                            lost_items += 1;
                            if lost_items >= 4 {
                                // the shell hangs or crashes on many programs: enough evidence
                                let _ = tx.send(Ok(json!({"note": format!(
                                    "part {part}/{jobs} abandoned after {lost_items} hung/crashed executions")})));
                                return;
                            }
                        }
                        skip = skip.max(idx + 1);
                    }
                    None => {
                        // lost between two items (start-up, end): nothing to attribute; go on
                        // after the last item that was completed
                        let _ = tx.send(Ok(json!({"note": format!("worker restarted ({why}) outside an execution")})));
                        if restarts > 20 {
                            let _ = tx.send(Err(format!("worker repeatedly lost ({why}) outside an execution")));
                            return;
                        }
                    }
                }
            }
        }));
    }
    drop(tx);
    let mut err = None;
    for m in rx {
        match m {
            Ok(v) => sink(v),
            Err(e) => err = Some(e),
        }
    }
    for h in handles {
        let _ = h.join();
    }
    match err {
        Some(e) => Err(e),
        None => Ok(()),
    }
}

fn passthrough(args: &[String]) -> Vec<String> {
    // everything except --out/--full/--jobs
    let mut out = vec![];
    let mut i = 0;
    while i < args.len() {
        if matches!(args[i].as_str(), "--out" | "--full" | "--jobs") {
            i += 2;
            continue;
        }
        out.push(args[i].clone());
        i += 1;
    }
    out
}

fn cmd_run(args: &[String]) -> i32 {
    let jobs = opt_usize(args, "--jobs", 4).max(1);
    let out_path = opt(args, "--out").expect("--out");
    let mut out = std::io::BufWriter::new(std::fs::File::create(out_path).expect("create --out"));
    let mut sink = |v: Value| {
        let _ = writeln!(out, "{v}");
    };
    match supervise("worker-run", &passthrough(args), jobs, &mut sink) {
        Ok(()) => 0,
        Err(e) => {
            eprintln!("yv-g18 run: {e}");
            2
        }
    }
}

fn cmd_random(args: &[String]) -> i32 {
    let jobs = opt_usize(args, "--jobs", 4).max(1);
    let out_path = opt(args, "--out").expect("--out");
    let full_path = opt(args, "--full").expect("--full");
    let mut recs: Vec<Value> = vec![];
    let mut sink = |v: Value| {
        if v.get("note").is_none() {
            recs.push(v)
        }
    };
    if let Err(e) = supervise("worker-random", &passthrough(args), jobs, &mut sink) {
        eprintln!("yv-g18 random: {e}");
        return 2;
    }
    recs.sort_by_key(|v| v["i"].as_u64().unwrap_or(0));
    let mut out = std::io::BufWriter::new(std::fs::File::create(out_path).expect("create --out"));
    let mut full = std::io::BufWriter::new(std::fs::File::create(full_path).expect("create --full"));
    for mut v in recs {
        if let Some(why) = v.get("lost").and_then(|w| w.as_str()).map(|s| s.to_string()) {
            v["oc"] = json!(why);
            v["tr"] = json!([]);
            v["st"] = json!(-1);
            v["out"] = json!([]);
            v["ff"] = json!([]);
        }
        let _ = writeln!(full, "{v}");
        let slim = json!({"p": v["p"], "e": v["e"], "pf": v["pf"], "oc": v["oc"], "tr": v["tr"], "st": v["st"],
                          "out": v["out"], "ff": v["ff"]});
        let _ = writeln!(out, "{slim}");
    }
    0
}

/// Re-executes one program: {"p": tokens, "e", "pf", optional "text", "flags", "file", "sched"}.
fn cmd_redo(args: &[String]) -> i32 {
    let path = opt(args, "--in").expect("--in");
    let v: Value = serde_json::from_str(&std::fs::read_to_string(path).expect("read --in")).expect("json");
    let rendered = if let Some(text) = v.get("text").and_then(|t| t.as_str()) {
        render::Rendered {
            script: text.to_string(),
            flags: v["flags"].as_array().map(|a| a.iter().filter_map(|f| f.as_str().map(String::from)).collect()).unwrap_or_default(),
            via_file: v["file"].as_bool().unwrap_or(false),
        }
    } else {
        let toks: Vec<Tok> = serde_json::from_value(v["p"].clone()).expect("tokens");
        let tree: Node = ast::parse(&toks).expect("program");
        let mut rd = Renderer::new(1, false);
        rd.program(&tree, v["e"].as_i64().unwrap_or(0) != 0, v["pf"].as_i64().unwrap_or(0) != 0)
    };
    let sched = parse_sched(v["sched"].as_str().unwrap_or("fifo"));
    let obs = exec::run_sim(&rendered, sched);
    println!("{}", json!({"text": rendered.script, "flags": rendered.flags, "observed": obs.to_json()}));
    0
}

/// "fifo", "prefix [1, 0]", "random 123", "Random(123)", "Fifo"
fn parse_sched(s: &str) -> Schedule {
    let digits = |t: &str| -> Vec<u64> {
        t.split(|c: char| !c.is_ascii_digit()).filter(|w| !w.is_empty()).filter_map(|w| w.parse().ok()).collect()
    };
    let l = s.to_ascii_lowercase();
    if l.starts_with("prefix") {
        Schedule::Prefix(digits(&l).into_iter().map(|x| x as usize).collect())
    } else if l.starts_with("random") {
        Schedule::Random(digits(&l).first().copied().unwrap_or(0))
    } else {
        Schedule::Fifo
    }
}

/// Debug aid: prints the renderings of the programs of a TLC output file.
fn cmd_render(args: &[String]) -> i32 {
    let path = opt(args, "--in").expect("--in");
    let vary = opt_usize(args, "--vary", 0) != 0;
    let f = BufReader::new(std::fs::File::open(path).expect("open"));
    for (idx, line) in f.lines().enumerate() {
        let v: Value = serde_json::from_str(&line.unwrap()).unwrap();
        let toks: Vec<Tok> = serde_json::from_value(v["p"].clone()).unwrap();
        let tree = ast::parse(&toks).unwrap();
        let mut rd = Renderer::new(idx as u64, vary);
        let r = rd.program(&tree, false, false);
        println!("{}", json!({"i": idx, "text": r.script}));
    }
    0
}

fn main() {
    yvcommon::real::maybe_child_main();
    let args: Vec<String> = std::env::args().collect();
    if args.len() < 2 {
        eprintln!("usage: yv-g18 <run|random|redo|render> ...");
        std::process::exit(2);
    }
    let rest = &args[2..];
    exec::TICK_LIMIT.store(opt_usize(rest, "--tick", 2) as i64, std::sync::atomic::Ordering::Relaxed);
    let code = match args[1].as_str() {
        "run" => cmd_run(rest),
        "random" => cmd_random(rest),
        "redo" => cmd_redo(rest),
        "render" => cmd_render(rest),
        "worker-run" => {
            yvcommon::util::quiet_panics();
            worker_run(rest)
        }
        "worker-random" => {
            yvcommon::util::quiet_panics();
            worker_random(rest)
        }
        other => {
            eprintln!("unknown subcommand {other}");
            2
        }
    };
    std::process::exit(code);
}
