//! Rendering of an abstract program of spec/ListsExt.tla to shell text, with
//! seeded surface variation (newline vs `;`, blanks, comments, line
//! continuations, the spellings of redirections, `for` headers, case items
//! and terminators).  Braces are inserted wherever the grammar level of a
//! child is lower than its slot requires; a brace group is semantically
//! transparent (XCU 2.9.4.1).
use crate::ast::Node;
use rand::rngs::StdRng;
use rand::{Rng, SeedableRng};

pub struct Renderer {
    rng: StdRng,
    pub vary: bool,
}

pub struct Rendered {
    pub script: String,
    pub flags: Vec<String>,
    /// the script is a file operand instead of a `-c` string
    pub via_file: bool,
}

/// Working directory of the simulated run: holds f (empty) and g (`5`).
pub const SIM_CWD: &str = "/w";

fn lvl(n: &Node) -> u8 {
    match n.k.as_str() {
        "seq" | "bg" => 0,
        "and" | "or" => 1,
        "not" | "pipe" | "pipe3" => 2,
        _ => 3,
    }
}

fn is_compound_syntax(k: &str) -> bool {
    matches!(k, "sub" | "if" | "ife" | "while" | "for" | "case")
}

/// Does the rendered list end with `&` (after which no `;` may follow)?
fn ends_amp(n: &Node) -> bool {
    match n.k.as_str() {
        "bg" => true,
        "seq" => ends_amp(&n.c[1]),
        _ => false,
    }
}

impl Renderer {
    pub fn new(seed: u64, vary: bool) -> Self {
        Renderer { rng: StdRng::seed_from_u64(seed), vary }
    }

    fn pick(&mut self, n: usize) -> usize {
        if self.vary { self.rng.gen_range(0..n) } else { 0 }
    }
    fn coin(&mut self) -> bool {
        self.vary && self.rng.gen_bool(0.5)
    }
    fn rare(&mut self) -> bool {
        self.vary && self.rng.gen_bool(0.15)
    }

    /// mandatory blank between two words
    fn sp(&mut self) -> String {
        match self.pick(12) {
            0..=7 => " ".into(),
            8 => "  ".into(),
            9 => "\t".into(),
            10 => " \\\n".into(),
            _ => " \\\n ".into(),
        }
    }
    /// optional blank around operators
    fn osp(&mut self) -> String {
        match self.pick(6) {
            0..=2 => " ".into(),
            3 | 4 => "".into(),
            _ => "  ".into(),
        }
    }
    fn comment(&mut self) -> String {
        match self.pick(4) {
            0 => " # note".into(),
            1 => " #".into(),
            2 => "\t# ; fi done } ) && exit 9 ;; esac".into(),
            _ => " # 'x \"y".into(),
        }
    }
    fn newline(&mut self) -> String {
        let mut s = String::new();
        if self.rare() {
            s.push_str(&self.comment());
        }
        s.push('\n');
        if self.rare() {
            s.push_str(if self.coin() { "\n" } else { "  # c\n" });
        }
        if self.rare() {
            s.push_str("  ");
        }
        s
    }
    fn sep(&mut self) -> String {
        match self.pick(8) {
            0..=2 => "; ".into(),
            3 => ";".into(),
            4 => " ;".into(),
            _ => self.newline(),
        }
    }
    /// separator after a list that ends with `&`
    fn amp_sep(&mut self) -> String {
        match self.pick(6) {
            0..=2 => " ".into(),
            3 => "".into(),
            _ => self.newline(),
        }
    }
    fn term_after(&mut self, n: &Node) -> String {
        if ends_amp(n) {
            match self.pick(4) {
                0 | 1 => " ".into(),
                _ => self.newline(),
            }
        } else {
            match self.pick(6) {
                0..=2 => "; ".into(),
                3 => ";".into(),
                _ => self.newline(),
            }
        }
    }
    fn kw(&mut self) -> String {
        match self.pick(6) {
            0..=3 => " ".into(),
            4 => self.newline(),
            _ => "  ".into(),
        }
    }
    fn linebreak(&mut self) -> String {
        match self.pick(8) {
            0..=3 => " ".into(),
            4 => "".into(),
            5 => self.newline(),
            6 => " \\\n".into(),
            _ => "  ".into(),
        }
    }

    pub fn list(&mut self, n: &Node) -> String {
        if n.k == "seq" {
            let a = self.item(&n.c[0]);
            let s = if n.c[0].k == "bg" { self.amp_sep() } else { self.sep() };
            let b = self.list(&n.c[1]);
            format!("{a}{s}{b}")
        } else {
            self.item(n)
        }
    }

    /// one and-or list, possibly asynchronous
    fn item(&mut self, n: &Node) -> String {
        if n.k == "bg" {
            let c = &n.c[0];
            let inner = if lvl(c) == 0 { self.brace(c) } else { self.andor(c) };
            let pre = self.osp();
            format!("{inner}{pre}&")
        } else {
            self.andor(n)
        }
    }

    fn andor(&mut self, n: &Node) -> String {
        match n.k.as_str() {
            "and" | "or" => {
                let l = if lvl(&n.c[0]) >= 1 { self.andor(&n.c[0]) } else { self.brace(&n.c[0]) };
                let r = if lvl(&n.c[1]) >= 2 { self.pipeline(&n.c[1]) } else { self.brace(&n.c[1]) };
                let op = if n.k == "and" { "&&" } else { "||" };
                let pre = if self.rare() { " \\\n".to_string() } else { self.osp() };
                let post = self.linebreak();
                format!("{l}{pre}{op}{post}{r}")
            }
            "seq" | "bg" => self.brace(n),
            _ => self.pipeline(n),
        }
    }

    fn pipeline(&mut self, n: &Node) -> String {
        match n.k.as_str() {
            "not" => {
                let c = &n.c[0];
                let inner = match c.k.as_str() {
                    "pipe" | "pipe3" => self.pipeseq(c),
                    _ if lvl(c) == 3 => self.command(c),
                    _ => self.brace(c),
                };
                format!("!{}{inner}", self.sp())
            }
            "pipe" | "pipe3" => self.pipeseq(n),
            "seq" | "bg" | "and" | "or" => self.brace(n),
            _ => self.command(n),
        }
    }

    fn pipeseq(&mut self, n: &Node) -> String {
        let mut s = String::new();
        for (i, e) in n.c.iter().enumerate() {
            if i > 0 {
                let pre = if self.rare() { " \\\n".to_string() } else { self.osp() };
                s.push_str(&pre);
                s.push('|');
                s.push_str(&self.linebreak());
            }
            let t = if lvl(e) == 3 { self.command(e) } else { self.brace(e) };
            s.push_str(&t);
        }
        s
    }

    fn brace(&mut self, n: &Node) -> String {
        let k = self.kw();
        let l = self.list(n);
        let t = self.term_after(n);
        format!("{{{k}{l}{t}}}")
    }

    fn if_tail(&mut self, n: &Node) -> String {
        let mut s = String::new();
        s.push_str(&self.kw());
        s.push_str(&self.list(&n.c[0]));
        s.push_str(&self.term_after(&n.c[0]));
        s.push_str("then");
        s.push_str(&self.kw());
        s.push_str(&self.list(&n.c[1]));
        s.push_str(&self.term_after(&n.c[1]));
        if n.k == "ife" {
            let e = &n.c[2];
            if (e.k == "if" || e.k == "ife") && self.coin() {
                s.push_str("elif");
                s.push_str(&self.if_tail(e));
            } else {
                s.push_str("else");
                s.push_str(&self.kw());
                s.push_str(&self.list(e));
                s.push_str(&self.term_after(e));
            }
        }
        s
    }

    fn loop_body(&mut self, body: &Node) -> String {
        let k = self.kw();
        let l = self.list(body);
        let t = self.term_after(body);
        format!("do{k}{l}{t}done")
    }

    fn redir_text(&mut self, s: &str) -> String {
        let v = self.pick(4);
        match s {
            ">f" => ["> f", ">f", "1>f", ">|f"][v].to_string(),
            ">>f" => [">> f", ">>f", "1>>f", ">> ./f"][v].to_string(),
            "<f" => ["< f", "<f", "0<f", "< ./f"][v].to_string(),
            _ => ["< g", "<g", "0<g", "<./g"][v].to_string(),
        }
    }

    /// `$(probe M)` in one of its spellings
    fn cs_probe(&mut self, marker: usize) -> String {
        match self.pick(4) {
            0 | 1 => format!("$(probe {marker})"),
            2 => format!("`probe {marker}`"),
            _ => format!("$( probe {marker} )"),
        }
    }

    fn for_header(&mut self, n: &Node) -> String {
        let mut s = format!("for{}v", self.sp());
        let words: Vec<String> = match n.s.as_str() {
            "@" => {
                // no `in`: the positional parameters
                return match self.pick(4) {
                    0 | 1 => format!("{s} "),
                    2 => format!("{s}; "),
                    _ => format!("{s}\n"),
                };
            }
            "" => vec![],
            "a" => vec!["a".into()],
            "ab" => vec!["a".into(), "b".into()],
            "abc" => vec!["a".into(), "b".into(), "c".into()],
            "q@" => vec!["\"$@\"".into()],
            "bv" => vec!["b".into(), if self.coin() { "${v}".into() } else { "$v".into() }],
            "U" => vec![if self.coin() { "$U".into() } else { "${U}".into() }],
            "Pab" => {
                let a = self.cs_probe(100 * n.m + 1);
                let b = self.cs_probe(100 * n.m + 2);
                vec![format!("{a}a"), format!("b{b}")]
            }
            "Pc" => {
                let a = self.cs_probe(100 * n.m + 1);
                vec![format!("c{a}")]
            }
            other => vec![format!("unknown-words-{other}")],
        };
        if self.rare() {
            s.push_str(&self.newline());
            s.push_str("in");
        } else {
            s.push_str(&self.sp());
            s.push_str("in");
        }
        for w in &words {
            s.push_str(&self.sp());
            s.push_str(w);
        }
        s.push_str(&match self.pick(4) {
            0 | 1 => "; ".to_string(),
            2 => ";".to_string(),
            _ => self.newline(),
        });
        s
    }

    fn pattern_word(&mut self, w: &str, pr: bool, marker: usize) -> String {
        let base = match w {
            "v" => match self.pick(3) {
                0 => "$v".to_string(),
                1 => "\"$v\"".to_string(),
                _ => "${v}".to_string(),
            },
            "a" | "b" | "c" => match self.pick(4) {
                0 | 1 => w.to_string(),
                2 => format!("'{w}'"),
                _ => format!("\\{w}"),
            },
            other => other.to_string(),
        };
        if pr {
            let p = self.cs_probe(marker);
            if self.coin() { format!("{p}{base}") } else { format!("{base}{p}") }
        } else {
            base
        }
    }

    fn case_command(&mut self, n: &Node) -> String {
        let subj = match n.s.as_str() {
            "v" => match self.pick(3) {
                0 => "$v".to_string(),
                1 => "\"$v\"".to_string(),
                _ => "${v}".to_string(),
            },
            "Pa" | "Pb" => {
                let p = self.cs_probe(100 * n.m);
                let w = &n.s[1..];
                if self.coin() { format!("{p}{w}") } else { format!("{w}{p}") }
            }
            w => match self.pick(3) {
                0 | 1 => w.to_string(),
                _ => format!("\"{w}\""),
            },
        };
        let mut s = format!("case{}{subj}", self.sp());
        if self.rare() {
            s.push_str(&self.newline());
        } else {
            s.push_str(&self.sp());
        }
        s.push_str("in");
        s.push_str(&self.kw());
        let mut it = &n.c[0];
        while it.k == "item" {
            let open = self.coin();
            if open {
                s.push('(');
                s.push_str(if self.rare() { " " } else { "" });
            }
            let pats: Vec<&str> = it.s.split('|').collect();
            for (j, p) in pats.iter().enumerate() {
                if j > 0 {
                    s.push_str(&self.osp());
                    s.push('|');
                    s.push_str(&if self.rare() { "\\\n".to_string() } else { self.osp() });
                }
                let (pr, w) = match p.strip_prefix('P') {
                    Some(rest) => (true, rest),
                    None => (false, *p),
                };
                let text = self.pattern_word(w, pr, 100 * it.m + j + 1);
                s.push_str(&text);
            }
            s.push_str(if self.rare() { " )" } else { ")" });
            let body = &it.c[0];
            let next = &it.c[1];
            let last = next.k != "item";
            s.push_str(&self.kw());
            let t = match it.n {
                0 => {
                    if last && self.coin() { "" } else { ";;" }
                }
                1 => ";&",
                _ => {
                    if self.coin() { ";|" } else { ";;&" }
                }
            };
            if body.k != "empty" {
                s.push_str(&self.list(body));
                let amp = ends_amp(body);
                let sep = if t.is_empty() {
                    // the last clause without `;;`: the list is terminated before `esac`
                    if amp {
                        if self.coin() { " ".to_string() } else { self.newline() }
                    } else if self.coin() {
                        "; ".to_string()
                    } else {
                        self.newline()
                    }
                } else {
                    match self.pick(5) {
                        0 | 1 => " ".to_string(),
                        2 => "".to_string(),
                        3 => self.newline(),
                        _ if amp => " ".to_string(),
                        _ => "; ".to_string(),
                    }
                };
                s.push_str(&sep);
            }
            s.push_str(t);
            s.push_str(&self.kw());
            it = next;
        }
        s.push_str("esac");
        s
    }

    pub fn command(&mut self, n: &Node) -> String {
        match n.k.as_str() {
            "sub" => {
                let inner = self.list(&n.c[0]);
                let pre = if inner.starts_with('(') { " ".to_string() } else { self.osp() };
                let post = if ends_amp(&n.c[0]) {
                    match self.pick(3) {
                        0 => self.newline(),
                        _ => self.osp(),
                    }
                } else {
                    match self.pick(4) {
                        0 => ";".to_string(),
                        1 => self.newline(),
                        _ => self.osp(),
                    }
                };
                format!("({pre}{inner}{post})")
            }
            "if" | "ife" => {
                let t = self.if_tail(n);
                format!("if{t}fi")
            }
            "while" => {
                let k = self.kw();
                let c = self.list(&n.c[0]);
                let t = self.term_after(&n.c[0]);
                let b = self.loop_body(&n.c[1]);
                format!("while{k}{c}{t}{b}")
            }
            "for" => {
                let h = self.for_header(n);
                let b = self.loop_body(&n.c[0]);
                format!("{h}{b}")
            }
            "case" => self.case_command(n),
            "rdr" => self.redirected(n),
            "seq" | "bg" | "and" | "or" | "not" | "pipe" | "pipe3" => self.brace(n),
            _ => self.simple(n),
        }
    }

    /// a compound command with its redirection(s)
    fn redirected(&mut self, n: &Node) -> String {
        // nested redirection nodes may be written on one command: they are
        // performed from left to right, the outer one first
        let mut redirs: Vec<String> = vec![self.redir_text(&n.s)];
        let mut base = &n.c[0];
        while base.k == "rdr" && self.coin() {
            redirs.push(self.redir_text(&base.s));
            base = &base.c[0];
        }
        let rs = {
            let mut s = String::new();
            for r in &redirs {
                // (a blank is needed: a digit before the operator would be taken for the descriptor number)
                s.push_str(&self.sp());
                s.push_str(r);
            }
            s
        };
        if is_compound_syntax(&base.k) && !self.rare() {
            let c = self.command(base);
            return format!("{c}{rs}");
        }
        if matches!(base.k.as_str(), "mk" | "P" | "pv" | "pb" | "say" | "rd" | "tick" | "wait" | "kill") && self.coin() {
            // a simple command: the redirection may stand before, after or
            // between the words (XCU 2.9.1)
            let c = self.simple(base);
            return if self.rare() { format!("{}{}{c}", rs.trim_start(), self.sp()) } else { format!("{c}{rs}") };
        }
        let b = self.brace(base);
        format!("{b}{rs}")
    }

    fn simple(&mut self, n: &Node) -> String {
        let m = n.m.to_string();
        let words: Vec<String> = match n.k.as_str() {
            "mk" => vec!["mk".into(), m, n.n.to_string()],
            "P" => vec!["probe".into(), m],
            "pv" => {
                let v = match self.pick(3) {
                    0 => "\"$v\"",
                    1 => "\"${v}\"",
                    _ => "\"${v-}\"",
                };
                vec!["probe".into(), m, "v".into(), v.into()]
            }
            "pb" => {
                let v = match self.pick(3) {
                    0 => "\"$!\"",
                    1 => "\"${!}\"",
                    _ => "\"${!-}\"",
                };
                vec!["probe".into(), m, "b".into(), v.into()]
            }
            "say" => vec!["echo".into(), n.n.to_string()],
            "rd" => vec!["rd".into(), m],
            "asg" => vec![format!("v={}", n.s)],
            "ro" => vec!["readonly".into(), "v".into()],
            "setpf" => vec!["set".into(), if n.n != 0 { "-o" } else { "+o" }.into(), "pipefail".into()],
            "sete" => {
                let on = n.n != 0;
                match self.pick(3) {
                    0 | 1 => vec!["set".into(), if on { "-e" } else { "+e" }.into()],
                    _ => vec!["set".into(), if on { "-o" } else { "+o" }.into(), "errexit".into()],
                }
            }
            "setpp" => {
                let mut w: Vec<String> = vec!["set".into(), "--".into()];
                for a in ["a", "b", "c", "d"].iter().take(n.n.max(0) as usize) {
                    w.push(a.to_string());
                }
                w
            }
            "tick" => vec!["tick".into()],
            "wait" => match n.s.as_str() {
                "all" => vec!["wait".into()],
                "last" => vec!["wait".into(), if self.coin() { "${!}".into() } else { "$!".into() }],
                "last2" => vec!["wait".into(), "$!".into(), "$!".into()],
                _ => vec!["wait".into(), "99999".into()],
            },
            "kill" => vec!["selfkill".into(), n.s.clone()],
            "brk" | "cnt" => {
                let name = if n.k == "brk" { "break" } else { "continue" };
                if n.n == 1 && self.coin() { vec![name.into()] } else { vec![name.into(), n.n.to_string()] }
            }
            "exit" => {
                if n.n < 0 { vec!["exit".into()] } else { vec!["exit".into(), n.n.to_string()] }
            }
            other => vec![format!("unknown-leaf-{other}")],
        };
        let mut s = String::new();
        for (i, w) in words.iter().enumerate() {
            if i > 0 {
                s.push_str(&self.sp());
            }
            s.push_str(w);
        }
        s
    }

    /// The whole program with its prelude.  `e`: errexit; `pf`: pipefail.
    pub fn program(&mut self, root: &Node, e: bool, pf: bool) -> Rendered {
        let mut flags: Vec<String> = vec![];
        let mut prelude: Vec<String> = vec![];
        if e {
            match self.pick(4) {
                0 | 1 => flags.push("-e".into()),
                2 => prelude.push("set -e".into()),
                _ => prelude.push("set -o errexit".into()),
            }
        }
        if pf {
            match self.pick(4) {
                0 | 1 => {
                    flags.push("-o".into());
                    flags.push("pipefail".into());
                }
                2 => prelude.push("set -o pipefail".into()),
                _ => flags.push("--pipefail".into()),
            }
        }
        let body = self.list(root);
        let mut s = String::new();
        for p in prelude.iter() {
            s.push_str(p);
            s.push_str(if self.coin() { "; " } else { "\n" });
        }
        s.push_str(&body);
        if self.coin() {
            s.push('\n');
        }
        let via_file = self.rare();
        Rendered { script: s, flags, via_file }
    }
}
