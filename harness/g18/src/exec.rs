//! Executing a rendered program on the real shell (simulated OS through
//! yvcommon::shell, under a chosen schedule) and projecting the run to what
//! spec/ListsExt.tla speaks about: the observations with the path of the
//! process that made them, in the order in which they happened, the final
//! exit status, the shell's standard output and the file f.
use crate::render::{Rendered, SIM_CWD};
use serde_json::{Value, json};
use std::collections::{BTreeMap, BTreeSet};
use std::pin::Pin;
use yash_env::builtin::{Builtin, Result as BResult, Type};
use yash_env::io::Fd;
use yash_env::semantics::{ExitStatus, Field};
use yash_env::system::GetPid as _;
use yash_env::system::SendSignal as _;
use yash_env::system::concurrency::ReadAll as _;
use yash_env::system::r#virtual::{SIGINT, SIGQUIT, SIGTERM};
use yash_env::variable::Scope;
use yvcommon::sched::Schedule;
use yvcommon::shell::{FileSpec, ShellCfg, VEnv, proc_table, push_event, run_shell};

/// One observation: path of the process, its process ID, marker, `$?`, extra.
#[derive(Clone, Debug, PartialEq, Eq)]
pub struct Ev {
    pub p: Vec<i64>,
    pub n: i64,
    pub m: i64,
    pub st: i64,
    pub x: i64,
}

#[derive(Clone, Debug)]
pub struct Obs {
    /// "completed", "deadlock", "steplimit", "panic"
    pub oc: String,
    pub st: i64,
    pub tr: Vec<Ev>,
    pub out: Vec<i64>,
    pub ff: Vec<i64>,
    pub detail: String,
    /// scheduling choices of the run (taken, options)
    pub choices: Vec<(usize, usize)>,
}

impl Obs {
    pub fn to_json(&self) -> Value {
        let keep = self.tr.len().min(120);
        json!({"oc": self.oc, "st": self.st, "tr": tr_json(&self.tr[..keep]), "tr_len": self.tr.len(),
               "out": self.out, "ff": self.ff, "detail": self.detail})
    }
}

pub fn tr_json(tr: &[Ev]) -> Value {
    Value::Array(tr.iter().map(|e| json!({"p": e.p, "n": e.n, "m": e.m, "st": e.st, "x": e.x})).collect())
}

/// `tick` succeeds this many times (TickLimit of the specification; `--tick N`).
pub static TICK_LIMIT: std::sync::atomic::AtomicI64 = std::sync::atomic::AtomicI64::new(2);

/// No terminating program of the specification records anywhere near this
/// many observations: a run that does is abandoned (outcome "panic": data).
const EVENT_CAP: usize = 20_000;

fn record(env: &mut VEnv, m: String, kind: &str, val: String) {
    let n = yvcommon::shell::EVENTS.with(|e| e.borrow().len());
    if n >= EVENT_CAP {
        panic!("observation limit exceeded (the program does not terminate?)");
    }
    let pid = env.system.getpid().0;
    push_event(json!({"ev": "obs", "pid": pid, "m": m, "kind": kind, "val": val, "st": env.exit_status.0}));
}

/// `mk M N`: records <<M, $?>> and returns N.
fn mk_main(env: &mut VEnv, args: Vec<Field>) -> Pin<Box<dyn Future<Output = BResult> + '_>> {
    Box::pin(async move {
        let m = args.first().map(|f| f.value.clone()).unwrap_or_default();
        let n = args.get(1).and_then(|f| f.value.parse::<i32>().ok()).unwrap_or(0);
        record(env, m, "", String::new());
        BResult::new(ExitStatus(n))
    })
}

/// `probe M [kind value]`: records <<M, $?>> (and the value: kind `v` the
/// value of a variable, kind `b` the expansion of `$!`); leaves $? unchanged.
fn probe_main(env: &mut VEnv, args: Vec<Field>) -> Pin<Box<dyn Future<Output = BResult> + '_>> {
    Box::pin(async move {
        let m = args.first().map(|f| f.value.clone()).unwrap_or_default();
        let kind = args.get(1).map(|f| f.value.clone()).unwrap_or_default();
        let val = args.get(2).map(|f| f.value.clone()).unwrap_or_default();
        let extra = args.len() > 3;
        record(env, m, if extra { "?" } else { &kind }, val);
        BResult::new(env.exit_status)
    })
}

/// `tick`: increments the shell variable TK; succeeds while TK <= the tick limit.
fn tick_main(env: &mut VEnv, _args: Vec<Field>) -> Pin<Box<dyn Future<Output = BResult> + '_>> {
    Box::pin(async move {
        let cur = env.variables.get_scalar("TK").and_then(|s| s.parse::<i64>().ok()).unwrap_or(0);
        let next = cur + 1;
        let mut var = env.get_or_create_variable("TK", Scope::Global);
        let _ = var.assign(next.to_string(), None);
        BResult::new(ExitStatus(if next <= TICK_LIMIT.load(std::sync::atomic::Ordering::Relaxed) { 0 } else { 1 }))
    })
}

/// `rd M`: reads standard input to end-of-file and records the tokens read.
fn rd_main(env: &mut VEnv, args: Vec<Field>) -> Pin<Box<dyn Future<Output = BResult> + '_>> {
    Box::pin(async move {
        let m = args.first().map(|f| f.value.clone()).unwrap_or_default();
        match env.system.read_all(Fd::STDIN).await {
            Ok(d) => {
                record(env, m, "r", String::from_utf8_lossy(&d).into_owned());
                BResult::new(ExitStatus(0))
            }
            Err(e) => {
                record(env, m, "rerr", format!("{e:?}"));
                BResult::new(ExitStatus(1))
            }
        }
    })
}

/// `selfkill SIG`: the calling process sends the signal to itself.
fn selfkill_main(env: &mut VEnv, args: Vec<Field>) -> Pin<Box<dyn Future<Output = BResult> + '_>> {
    Box::pin(async move {
        let sig = match args.first().map(|f| f.value.as_str()) {
            Some("INT") => SIGINT,
            Some("QUIT") => SIGQUIT,
            _ => SIGTERM,
        };
        match env.system.raise(sig).await {
            Ok(()) => BResult::new(ExitStatus(0)),
            Err(_) => BResult::new(ExitStatus(1)),
        }
    })
}

/// "1\n2\n" -> [1, 2]; anything that is not a sequence of digit tokens -> a
/// token -1 (never expected)
pub fn tokens(bytes: &[u8]) -> Vec<i64> {
    String::from_utf8_lossy(bytes).split_whitespace().map(|w| w.parse::<i64>().unwrap_or(-1)).collect()
}

fn code(tokens: &[i64]) -> i64 {
    let mut c: i64 = 0;
    for t in tokens {
        if !(0..=9).contains(t) || c > 99_999_999 {
            return -7;
        }
        c = c * 10 + t;
    }
    c
}

fn vcode(s: &str) -> i64 {
    match s {
        "" => 0,
        "a" => 1,
        "b" => 2,
        "c" => 3,
        "d" => 4,
        _ => 9,
    }
}

pub fn run_sim(r: &Rendered, schedule: Schedule) -> Obs {
    let mut argv: Vec<String> = vec!["yash".into()];
    argv.extend(r.flags.iter().cloned());
    let mut files = vec![
        FileSpec::Dir { path: SIM_CWD.to_string() },
        FileSpec::Regular { path: format!("{SIM_CWD}/f"), content: vec![], mode: 0o644 },
        FileSpec::Regular { path: format!("{SIM_CWD}/g"), content: b"5\n".to_vec(), mode: 0o644 },
        // (the simulated file system has no /dev/null of its own)
        FileSpec::Regular { path: "/dev/null".to_string(), content: vec![], mode: 0o666 },
    ];
    if r.via_file {
        files.push(FileSpec::Regular { path: format!("{SIM_CWD}/prog.sh"), content: r.script.as_bytes().to_vec(), mode: 0o644 });
        argv.push(format!("{SIM_CWD}/prog.sh"));
    } else {
        argv.push("-c".into());
        argv.push(r.script.clone());
    }
    let mut cfg = ShellCfg::with_argv(argv);
    cfg.stdin = b"7\n".to_vec();
    cfg.step_limit = 200_000;
    cfg.cwd = Some(SIM_CWD.to_string());
    cfg.files = files;
    cfg.schedule = schedule;
    cfg.setup = Some(Box::new(|env, _state| {
        env.builtins.insert("mk", Builtin::new(Type::Mandatory, mk_main));
        env.builtins.insert("probe", Builtin::new(Type::Mandatory, probe_main));
        env.builtins.insert("tick", Builtin::new(Type::Mandatory, tick_main));
        env.builtins.insert("rd", Builtin::new(Type::Mandatory, rd_main));
        env.builtins.insert("selfkill", Builtin::new(Type::Mandatory, selfkill_main));
    }));
    let res = run_shell(cfg);
    let table = proc_table(&res.state);
    let parent: BTreeMap<i32, i32> = table.iter().map(|(pid, v)| (*pid, v.0)).collect();
    let root = table.keys().cloned().min().unwrap_or(2);

    // raw observations in the order in which they happened
    let raw: Vec<(i32, i64, i64, i64)> = res
        .events
        .iter()
        .filter(|e| e["ev"] == "obs")
        .map(|e| {
            let pid = e["pid"].as_i64().unwrap_or(0) as i32;
            let m = e["m"].as_str().and_then(|s| s.parse::<i64>().ok()).unwrap_or(-999);
            let st = e["st"].as_i64().unwrap_or(-1);
            let val = e["val"].as_str().unwrap_or("");
            let x = match e["kind"].as_str().unwrap_or("") {
                "" => 0,
                "v" => vcode(val),
                "b" => {
                    if val.is_empty() { 0 } else { val.parse::<i64>().unwrap_or(-5) }
                }
                "r" => code(&tokens(val.as_bytes())),
                _ => -6,
            };
            (pid, m, st, x)
        })
        .collect();

    // paths: the children of a process that recorded anything (in their
    // subtree), numbered in the order of their creation (process IDs ascend)
    let mut noisy: BTreeSet<i32> = BTreeSet::new();
    for (pid, ..) in &raw {
        let mut q = *pid;
        for _ in 0..1000 {
            if !noisy.insert(q) || q == root {
                break;
            }
            match parent.get(&q) {
                Some(&pp) if pp != q => q = pp,
                _ => break,
            }
        }
    }
    let mut kids: BTreeMap<i32, Vec<i32>> = BTreeMap::new();
    for &q in &noisy {
        if q != root {
            if let Some(&pp) = parent.get(&q) {
                kids.entry(pp).or_default().push(q);
            }
        }
    }
    let mut path: BTreeMap<i32, Vec<i64>> = BTreeMap::new();
    path.insert(root, vec![]);
    let mut stack = vec![root];
    while let Some(q) = stack.pop() {
        let base = path.get(&q).cloned().unwrap_or_default();
        if let Some(ks) = kids.get(&q) {
            let mut ks = ks.clone();
            ks.sort();
            for (i, k) in ks.iter().enumerate() {
                let mut p = base.clone();
                p.push(i as i64 + 1);
                path.insert(*k, p);
                stack.push(*k);
            }
        }
    }
    let tr: Vec<Ev> = raw
        .iter()
        .map(|(pid, m, st, x)| Ev { p: path.get(pid).cloned().unwrap_or_else(|| vec![-1]), n: *pid as i64, m: *m, st: *st, x: *x })
        .collect();

    let oc = match &res.outcome {
        yvcommon::sched::Outcome::Completed => "completed",
        yvcommon::sched::Outcome::Deadlock => "deadlock",
        yvcommon::sched::Outcome::StepLimit => "steplimit",
        yvcommon::sched::Outcome::Panic(_) => "panic",
    };
    let mut detail = String::new();
    if let yvcommon::sched::Outcome::Panic(m) = &res.outcome {
        detail = m.chars().take(300).collect();
    } else if std::env::var("YV_G18_STDERR").is_ok() {
        detail = res.stderr_str().chars().take(600).collect();
    }
    let out = tokens(&res.stdout);
    let ff = tokens(&res.file_content(&format!("{SIM_CWD}/f")).unwrap_or_else(|| b"missing".to_vec()));
    let st = res.status as i64;
    let choices = res.choices.clone();
    Obs { oc: oc.into(), st, tr, out, ff, detail, choices }
}

// ---------------------------------------------------------------------------
// the conformance relation (Conforms of ListsExt.tla)
// ---------------------------------------------------------------------------

#[derive(Clone, Debug)]
pub struct Win {
    pub p: Vec<i64>,
    pub lo: i64,
    pub hi: i64,
    pub a: i64,
}

#[derive(Clone, Debug)]
pub struct Expected {
    pub tr: Vec<Ev>,
    pub win: Vec<Win>,
    pub st: i64,
    pub out: Vec<i64>,
    pub ff: Vec<i64>,
    pub orace: bool,
}

pub fn expected_of(o: &Value) -> Expected {
    let ints = |v: &Value| -> Vec<i64> { v.as_array().map(|a| a.iter().map(|x| x.as_i64().unwrap_or(0)).collect()).unwrap_or_default() };
    Expected {
        tr: o["tr"]
            .as_array()
            .map(|a| {
                a.iter()
                    .map(|e| Ev { p: ints(&e["p"]), n: 0, m: e["m"].as_i64().unwrap_or(0), st: e["st"].as_i64().unwrap_or(0), x: e["x"].as_i64().unwrap_or(0) })
                    .collect()
            })
            .unwrap_or_default(),
        win: o["win"]
            .as_array()
            .map(|a| {
                a.iter()
                    .map(|w| Win { p: ints(&w["p"]), lo: w["lo"].as_i64().unwrap_or(0), hi: w["hi"].as_i64().unwrap_or(0), a: w["a"].as_i64().unwrap_or(0) })
                    .collect()
            })
            .unwrap_or_default(),
        st: o["st"].as_i64().unwrap_or(0),
        out: ints(&o["out"]),
        ff: ints(&o["ff"]),
        orace: o["orace"].as_bool().unwrap_or(false),
    }
}

fn st_ok(es: i64, os: i64) -> bool {
    if es <= -1000 {
        os > 128
    } else if es <= -10 {
        (1..=255).contains(&os)
    } else {
        es == os
    }
}

fn is_prefix(a: &[i64], b: &[i64]) -> bool {
    a.len() <= b.len() && &b[..a.len()] == a
}

/// Is the observed run one the specification allows?
pub fn conforms(e: &Expected, o: &Obs) -> Result<(), String> {
    if o.oc != "completed" {
        return Err(format!("outcome {}", o.oc));
    }
    let mut eown: BTreeMap<Vec<i64>, Vec<&Ev>> = BTreeMap::new();
    for x in &e.tr {
        eown.entry(x.p.clone()).or_default().push(x);
    }
    let mut oown: BTreeMap<Vec<i64>, Vec<(usize, &Ev)>> = BTreeMap::new();
    for (i, x) in o.tr.iter().enumerate() {
        oown.entry(x.p.clone()).or_default().push((i, x));
    }
    if e.tr.len() != o.tr.len() {
        return Err("number of observations".into());
    }
    for p in oown.keys() {
        if !eown.contains_key(p) {
            return Err(format!("observations in an environment {p:?} that should make none"));
        }
    }
    let mut errbind: BTreeMap<i64, i64> = BTreeMap::new();
    let mut bang: BTreeMap<i64, i64> = BTreeMap::new();
    for (p, es) in &eown {
        let os = oown.get(p).map(|v| v.as_slice()).unwrap_or(&[]);
        if es.len() != os.len() {
            return Err(format!("number of observations of environment {p:?}"));
        }
        for (k, (ex, (_, ob))) in es.iter().zip(os.iter()).enumerate() {
            if ex.m != ob.m {
                return Err(format!("marker of observation {k} of environment {p:?}"));
            }
            if !st_ok(ex.st, ob.st) {
                return Err(format!("status at marker {} in environment {p:?}", ex.m));
            }
            if ex.st <= -10 && ex.st > -1000 {
                if *errbind.entry(ex.st).or_insert(ob.st) != ob.st {
                    return Err("error status changed".into());
                }
            }
            if ex.x <= -100 {
                if ob.x <= 0 {
                    return Err(format!("$! at marker {} is not a process ID", ex.m));
                }
                if *bang.entry(ex.x).or_insert(ob.x) != ob.x {
                    return Err(format!("$! at marker {} changed", ex.m));
                }
            } else if ex.x != ob.x {
                return Err(format!("value at marker {} in environment {p:?}", ex.m));
            }
        }
    }
    if !st_ok(e.st, o.st) {
        return Err("final status".into());
    }
    if e.st <= -10 && e.st > -1000 {
        if *errbind.entry(e.st).or_insert(o.st) != o.st {
            return Err("error status changed (final status)".into());
        }
    }
    let vals: BTreeSet<i64> = bang.values().cloned().collect();
    if vals.len() != bang.len() {
        return Err("$! of two asynchronous lists is the same process ID".into());
    }
    for w in &e.win {
        // $! names the process that runs the asynchronous list
        if w.a > 0 {
            if let Some(&pid) = bang.get(&(-(100 + w.a))) {
                if let Some(os) = oown.get(&w.p) {
                    if os.iter().any(|(_, ob)| ob.n != pid) {
                        return Err("$! is not the process ID of the asynchronous list".into());
                    }
                }
            }
        }
        let q = &w.p[..w.p.len() - 1];
        let pi: Vec<usize> = oown.get(q).map(|v| v.iter().map(|(i, _)| *i).collect()).unwrap_or_default();
        for (i, ob) in o.tr.iter().enumerate() {
            if !is_prefix(&w.p, &ob.p) {
                continue;
            }
            if w.lo > 0 && !(pi[w.lo as usize - 1] < i) {
                return Err(format!("environment {:?} ran before it was started (marker {})", w.p, ob.m));
            }
            let det = e.win.iter().any(|d| d.hi == -1 && d.p.len() > w.p.len() && is_prefix(&w.p, &d.p) && is_prefix(&d.p, &ob.p));
            if w.hi >= 0 && pi.len() as i64 > w.hi && !det && !(i < pi[w.hi as usize]) {
                return Err(format!("environment {:?} still ran after the shell had waited for it (marker {})", w.p, ob.m));
            }
        }
    }
    if e.orace {
        let mut a = e.out.clone();
        let mut b = o.out.clone();
        a.sort();
        b.sort();
        if a != b {
            return Err("standard output (as a multiset)".into());
        }
    } else if e.out != o.out {
        return Err("standard output".into());
    }
    if e.ff != o.ff {
        return Err("content of the file f".into());
    }
    Ok(())
}
