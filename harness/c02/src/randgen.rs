//! Seeded random generation of larger programs (P3: executed first, then
//! validated by spec/Trace_Semantics.tla).  The generator avoids constructs
//! whose behaviour POSIX leaves unspecified (break outside a loop, return
//! outside a function) and loops that obviously do not terminate; what still
//! slips through is classified by the specification and skipped.
use crate::ast::Node;
use rand::Rng;
use rand::rngs::StdRng;

#[derive(Clone, Copy)]
pub struct Ctx {
    /// loops lexically enclosing in the current function body / environment
    pub ld: usize,
    pub infn: bool,
    /// inside the condition of a while/until loop: no `continue`
    pub nocnt: bool,
    /// 0: top level (may call f, g), 1: body of f (may call g), 2: body of g
    pub rank: usize,
}

pub struct Gen<'a> {
    pub rng: &'a mut StdRng,
    /// include the failing commands of XCU 2.8.1 (profile c10)
    pub errors: bool,
}

fn leaf(k: &str, n: i64, s: &str) -> Node {
    Node::leaf(k, n, s)
}

impl Gen<'_> {
    fn wr(&mut self, mut n: Node, w: bool, r: bool) -> Node {
        n.w = w;
        n.r = r;
        n
    }

    fn gen_leaf(&mut self, c: Ctx) -> Node {
        loop {
            let x = self.rng.gen_range(0..100);
            let n = match x {
                0..=19 => leaf("mk", 0, ""),
                20..=32 => leaf("mk", 1, ""),
                33..=36 => leaf("mk", 3, ""),
                37..=50 => leaf("P", 0, ""),
                51 => leaf("tick", 0, ""),
                52..=57 => {
                    if c.rank == 0 {
                        leaf("cmd", 0, if self.rng.gen_bool(0.6) { "f" } else { "g" })
                    } else if c.rank == 1 {
                        leaf("cmd", 0, "g")
                    } else {
                        continue;
                    }
                }
                58..=60 => leaf("cmd", 0, if self.rng.gen_bool(0.5) { "true" } else { "false" }),
                61 => leaf("cmd", 0, "nosuch"),
                62..=69 => {
                    // (not in loop conditions: `continue` there does not terminate)
                    if c.ld == 0 || c.nocnt {
                        continue;
                    }
                    let n = if self.rng.gen_bool(0.7) { 1 } else { self.rng.gen_range(2..=3) };
                    if self.rng.gen_bool(0.5) || c.nocnt { leaf("brk", n, "") } else { leaf("cnt", n, "") }
                }
                70..=75 => {
                    if !c.infn {
                        continue;
                    }
                    leaf("ret", *[-1, 0, 5].get(self.rng.gen_range(0..3)).unwrap(), "")
                }
                76 => leaf("exit", if self.rng.gen_bool(0.5) { -1 } else { 4 }, ""),
                77 => leaf(if self.rng.gen_bool(0.5) { "nop" } else { "nil" }, 0, ""),
                78 => leaf("trap", 0, ""),
                79..=81 => {
                    // `command` in front of something
                    let inner = self.gen_leaf(c);
                    if matches!(inner.k.as_str(), "asg" | "asgc" | "exp" | "trap" | "nil") {
                        continue;
                    }
                    self.wr(inner, true, false)
                }
                _ => {
                    if !self.errors {
                        continue;
                    }
                    match self.rng.gen_range(0..12) {
                        0 => leaf("asg", 0, ""),
                        1 => leaf("asgc", 0, ""),
                        2 => leaf("exp", 0, ""),
                        3 => leaf("dot", 0, ""),
                        4 => self.wr(leaf("dot", 0, ""), true, false),
                        5 => self.wr(leaf("nop", 0, ""), false, true),
                        6 => self.wr(leaf("nop", 0, ""), true, true),
                        7 => self.wr(leaf("mk", 0, ""), false, true),
                        8 => self.wr(leaf("P", 0, ""), false, true),
                        9 => self.wr(leaf("cmd", 0, "true"), false, true),
                        10 => leaf("brk", 0, ""),
                        _ => self.wr(leaf("exit", 4, ""), false, true),
                    }
                }
            };
            return n;
        }
    }

    /// a condition that fails once the tick counter is exhausted
    fn while_cond(&mut self, size: usize, c: Ctx) -> Node {
        let cc = Ctx { nocnt: true, ..c };
        if size >= 3 && self.rng.gen_bool(0.5) {
            if self.rng.gen_bool(0.5) {
                Node::with("seq", 0, "", vec![self.cmd(size - 2, cc), leaf("tick", 0, "")])
            } else {
                Node::with("and", 0, "", vec![leaf("tick", 0, ""), self.cmd(size - 2, cc)])
            }
        } else {
            leaf("tick", 0, "")
        }
    }

    fn until_cond(&mut self, size: usize, c: Ctx) -> Node {
        let cc = Ctx { nocnt: true, ..c };
        let nt = Node::with("not", 0, "", vec![leaf("tick", 0, "")]);
        if size >= 4 && self.rng.gen_bool(0.5) {
            Node::with("seq", 0, "", vec![self.cmd(size - 3, cc), nt])
        } else {
            nt
        }
    }

    fn items(&mut self, size: usize, c: Ctx) -> Node {
        // size: budget for item nodes and their bodies
        if size == 0 {
            return leaf("esac", 0, "");
        }
        let pats = ["a", "b", "*", "a|b"];
        let p = pats[self.rng.gen_range(0..pats.len())];
        let term = *[0, 0, 0, 1, 2].get(self.rng.gen_range(0..5)).unwrap();
        let (body, used) = if size >= 2 && self.rng.gen_bool(0.85) {
            let b = self.rng.gen_range(1..=(size - 1).min(8));
            (self.cmd(b, c), b + 1)
        } else {
            (leaf("empty", 0, ""), 1)
        };
        let rest = if size > used && self.rng.gen_bool(0.6) { self.items(size - used, c) } else { leaf("esac", 0, "") };
        Node::with("item", term, p, vec![body, rest])
    }

    /// a command tree with at most `size` nodes (size >= 1)
    pub fn cmd(&mut self, size: usize, c: Ctx) -> Node {
        if size <= 1 {
            return self.gen_leaf(c);
        }
        loop {
            let x = self.rng.gen_range(0..100);
            let rest = size - 1;
            let split = |g: &mut Self, total: usize| -> (usize, usize) {
                let a = g.rng.gen_range(1..total);
                (a, total - a)
            };
            let node = match x {
                0..=27 if rest >= 2 => {
                    let (a, b) = split(self, rest);
                    // keep the left operand of a sequential list small: long lists
                    let a2 = a.min(6);
                    Node::with("seq", 0, "", vec![self.cmd(a2, c), self.cmd(b + (a - a2), c)])
                }
                28..=35 if rest >= 2 => {
                    let (a, b) = split(self, rest);
                    Node::with("and", 0, "", vec![self.cmd(a, c), self.cmd(b, c)])
                }
                36..=43 if rest >= 2 => {
                    let (a, b) = split(self, rest);
                    Node::with("or", 0, "", vec![self.cmd(a, c), self.cmd(b, c)])
                }
                44..=47 => Node::with("not", 0, "", vec![self.cmd(rest, c)]),
                48..=52 if rest >= 2 => {
                    let (a, b) = split(self, rest);
                    let sc = Ctx { ld: 0, ..c };
                    Node::with("pipe", 0, "", vec![self.cmd(a, sc), self.cmd(b, sc)])
                }
                53..=58 => {
                    let sc = Ctx { ld: 0, ..c };
                    Node::with("sub", 0, "", vec![self.cmd(rest, sc)])
                }
                59..=65 if rest >= 2 => {
                    let (a, b) = split(self, rest);
                    Node::with("if", 0, "", vec![self.cmd(a, c), self.cmd(b, c)])
                }
                66..=70 if rest >= 3 => {
                    let a = self.rng.gen_range(1..=rest - 2);
                    let b = self.rng.gen_range(1..=rest - a - 1);
                    let d = rest - a - b;
                    Node::with("ife", 0, "", vec![self.cmd(a, c), self.cmd(b, c), self.cmd(d, c)])
                }
                71..=75 if rest >= 2 => {
                    let csz = self.rng.gen_range(1..=(rest - 1).min(4));
                    let lc = Ctx { ld: c.ld + 1, ..c };
                    let cond = self.while_cond(csz, lc);
                    Node::with("while", 0, "", vec![cond, self.cmd(rest - csz, lc)])
                }
                76..=78 if rest >= 3 => {
                    let csz = self.rng.gen_range(2..=(rest - 1).min(5));
                    let lc = Ctx { ld: c.ld + 1, ..c };
                    let cond = self.until_cond(csz, lc);
                    Node::with("until", 0, "", vec![cond, self.cmd(rest - csz, lc)])
                }
                79..=86 => {
                    let words = ["ab", "a", "", "abc", "ba"];
                    let w = words[self.rng.gen_range(0..words.len())];
                    let lc = Ctx { ld: c.ld + 1, ..c };
                    Node::with("for", 0, w, vec![self.cmd(rest, lc)])
                }
                87..=91 if rest >= 2 => {
                    let subj = ["v", "v", "a", "b"];
                    let s = subj[self.rng.gen_range(0..subj.len())];
                    Node::with("case", 0, s, vec![self.items(rest, c)])
                }
                92..=94 if c.rank < 2 => {
                    // function definition: f at top level (body may call g), g anywhere above rank 2
                    let name = if c.rank == 0 && self.rng.gen_bool(0.6) { "f" } else { "g" };
                    let rank = if name == "f" { 1 } else { 2 };
                    let fc = Ctx { ld: 0, infn: true, nocnt: false, rank };
                    let body = self.cmd(rest, fc);
                    if self.errors && self.rng.gen_bool(0.08) {
                        Node::with("def", 0, name, vec![Node::with("rx", 0, "", vec![body])])
                    } else {
                        Node::with("def", 0, name, vec![body])
                    }
                }
                95..=96 if self.errors => Node::with("rx", 0, "", vec![self.cmd(rest, c)]),
                _ => continue,
            };
            return node;
        }
    }

    /// a whole program: a few top-level lines, the first ones often function definitions
    pub fn program(&mut self, size: usize) -> Node {
        let top = Ctx { ld: 0, infn: false, nocnt: false, rank: 0 };
        let mut items: Vec<Node> = vec![];
        let mut left = size;
        if left >= 8 && self.rng.gen_bool(0.6) {
            let b = self.rng.gen_range(2..=(left / 3).max(2));
            let fc = Ctx { ld: 0, infn: true, nocnt: false, rank: 2 };
            items.push(Node::with("def", 0, "g", vec![self.cmd(b, fc)]));
            left -= b + 1;
        }
        if left >= 8 && self.rng.gen_bool(0.7) {
            let b = self.rng.gen_range(2..=(left / 3).max(2));
            let fc = Ctx { ld: 0, infn: true, nocnt: false, rank: 1 };
            items.push(Node::with("def", 0, "f", vec![self.cmd(b, fc)]));
            left -= b + 1;
        }
        while left > 0 {
            let a = if left <= 3 || self.rng.gen_bool(0.2) { left } else { self.rng.gen_range(1..=left.min(14)) };
            items.push(self.cmd(a, top));
            left = left.saturating_sub(a + 1);
        }
        let mut it = items.into_iter().rev();
        let mut acc = it.next().unwrap();
        for x in it {
            acc = Node::with("seq", 0, "", vec![x, acc]);
        }
        acc
    }
}
