//! Conformance harness for property C02, see /verif/DESIGN.md.
fn main() {
    eprintln!("yv-c02: not implemented yet");
    std::process::exit(2);
}
