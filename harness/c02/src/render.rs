//! Rendering of an abstract program to shell text, with seeded surface
//! variation (newline vs `;`, blanks, comments, line continuations, optional
//! parentheses of case patterns, `elif` vs `else if`, flattened pipelines,
//! position of redirections).  Braces are inserted wherever the grammar level
//! of a child is lower than its slot requires; a brace group is semantically
//! transparent (XCU 2.9.4.1), so every rendering of a tree has the meaning the
//! specification gives to the tree.
use crate::ast::Node;
use rand::rngs::StdRng;
use rand::{Rng, SeedableRng};

#[derive(Clone, Copy, PartialEq, Eq, Debug)]
pub enum Mode {
    /// simulated OS, probe built-ins `mk`, `probe`, `tick`
    Sim,
    /// real OS, true entry point: helper executables `./mk`, `./probe`
    Real,
}

pub struct Renderer {
    rng: StdRng,
    pub mode: Mode,
    pub vary: bool,
}

pub struct Rendered {
    pub script: String,
    pub flags: Vec<String>,
    pub via_stdin: bool,
}

const SYNERR: &[&str] = &["fi", "done", ")", "}", "&& :", "then", "esac", "do", "| :", "else"];

fn lvl(n: &Node) -> u8 {
    match n.k.as_str() {
        "seq" => 0,
        "and" | "or" => 1,
        "not" | "pipe" => 2,
        _ => 3,
    }
}

fn is_compound_syntax(k: &str) -> bool {
    matches!(k, "sub" | "if" | "ife" | "while" | "until" | "for" | "case")
}

impl Renderer {
    pub fn new(seed: u64, mode: Mode, vary: bool) -> Self {
        Renderer { rng: StdRng::seed_from_u64(seed), mode, vary }
    }

    fn pick(&mut self, n: usize) -> usize {
        if self.vary { self.rng.gen_range(0..n) } else { 0 }
    }
    fn coin(&mut self) -> bool {
        self.vary && self.rng.gen_bool(0.5)
    }
    fn rare(&mut self) -> bool {
        self.vary && self.rng.gen_bool(0.15)
    }

    /// mandatory blank between two words
    fn sp(&mut self) -> String {
        match self.pick(12) {
            0..=7 => " ".into(),
            8 => "  ".into(),
            9 => "\t".into(),
            10 => " \\\n".into(),
            _ => " \\\n ".into(),
        }
    }
    /// optional blank around operators
    fn osp(&mut self) -> String {
        match self.pick(6) {
            0..=2 => " ".into(),
            3 | 4 => "".into(),
            _ => "  ".into(),
        }
    }
    fn comment(&mut self) -> String {
        match self.pick(4) {
            0 => " # note".into(),
            1 => " #".into(),
            2 => "\t# ; fi done } ) && exit 9".into(),
            _ => " # 'x".into(),
        }
    }
    /// a newline, possibly preceded by a comment and followed by blank lines
    fn newline(&mut self) -> String {
        let mut s = String::new();
        if self.rare() {
            s.push_str(&self.comment());
        }
        s.push('\n');
        if self.rare() {
            s.push_str(if self.coin() { "\n" } else { "  # c\n" });
        }
        if self.rare() {
            s.push_str("  ");
        }
        s
    }
    /// separator between two and-or lists of a list
    fn sep(&mut self) -> String {
        match self.pick(8) {
            0..=2 => "; ".into(),
            3 => ";".into(),
            4 => " ;".into(),
            _ => self.newline(),
        }
    }
    /// terminator of a list before a closing reserved word
    fn term(&mut self) -> String {
        match self.pick(6) {
            0..=2 => "; ".into(),
            3 => ";".into(),
            _ => self.newline(),
        }
    }
    /// blank or newline after an opening reserved word
    fn kw(&mut self) -> String {
        match self.pick(6) {
            0..=3 => " ".into(),
            4 => self.newline(),
            _ => "  ".into(),
        }
    }
    /// what may follow `&&`, `||`, `|`: optional blanks or a linebreak
    fn linebreak(&mut self) -> String {
        match self.pick(8) {
            0..=3 => " ".into(),
            4 => "".into(),
            5 => self.newline(),
            6 => " \\\n".into(),
            _ => "  ".into(),
        }
    }

    pub fn list(&mut self, n: &Node) -> String {
        if n.k == "seq" {
            let a = self.list(&n.c[0]);
            let s = self.sep();
            let b = self.list(&n.c[1]);
            format!("{a}{s}{b}")
        } else {
            self.andor(n)
        }
    }

    fn andor(&mut self, n: &Node) -> String {
        match n.k.as_str() {
            "and" | "or" => {
                let l = if lvl(&n.c[0]) >= 1 { self.andor(&n.c[0]) } else { self.brace(&n.c[0]) };
                let r = if lvl(&n.c[1]) >= 2 { self.pipeline(&n.c[1]) } else { self.brace(&n.c[1]) };
                let op = if n.k == "and" { "&&" } else { "||" };
                // a line continuation may precede the operator
                let pre = if self.rare() { " \\\n".to_string() } else { self.osp() };
                let post = self.linebreak();
                format!("{l}{pre}{op}{post}{r}")
            }
            "seq" => self.brace(n),
            _ => self.pipeline(n),
        }
    }

    fn pipeline(&mut self, n: &Node) -> String {
        match n.k.as_str() {
            "not" => {
                let c = &n.c[0];
                let inner = if c.k == "pipe" {
                    self.pipe_seq(c)
                } else if lvl(c) == 3 {
                    self.command(c)
                } else {
                    self.brace(c)
                };
                format!("!{}{inner}", self.sp())
            }
            "pipe" => self.pipe_seq(n),
            "seq" | "and" | "or" => self.brace(n),
            _ => self.command(n),
        }
    }

    fn pipe_seq(&mut self, n: &Node) -> String {
        let a = self.member(&n.c[0]);
        let pre = self.osp();
        let post = self.linebreak();
        let b = self.member(&n.c[1]);
        format!("{a}{pre}|{post}{b}")
    }

    fn member(&mut self, n: &Node) -> String {
        if n.k == "pipe" {
            if self.rare() { self.brace(n) } else { self.pipe_seq(n) }
        } else if lvl(n) == 3 {
            self.command(n)
        } else {
            self.brace(n)
        }
    }

    fn brace(&mut self, n: &Node) -> String {
        let k = self.kw();
        let l = self.list(n);
        let t = self.term();
        format!("{{{k}{l}{t}}}")
    }

    /// a compound command (for redirections and function bodies)
    fn compound(&mut self, n: &Node) -> String {
        if is_compound_syntax(&n.k) && !self.rare() { self.command(n) } else { self.brace(n) }
    }

    fn redirect(&mut self) -> String {
        let base = match self.mode {
            Mode::Sim => "/nx",
            Mode::Real => "/nonexistent-yv",
        };
        // (the simulated file system creates missing parent directories on
        // output redirections, so only input redirections fail there)
        let real = self.mode == Mode::Real;
        match self.pick(5) {
            0 | 1 => format!("<{}{base}/f", self.osp()),
            2 if real => format!(">{}{base}/d/f", self.osp()),
            3 => format!("3<{base}/f"),
            4 if real => format!(">>{base}/d/f"),
            _ => format!("<{base}/f"),
        }
    }

    fn if_tail(&mut self, n: &Node) -> String {
        // text after `if`/`elif` up to (excluding) `fi`
        let mut s = String::new();
        s.push_str(&self.kw());
        s.push_str(&self.list(&n.c[0]));
        s.push_str(&self.term());
        s.push_str("then");
        s.push_str(&self.kw());
        s.push_str(&self.list(&n.c[1]));
        s.push_str(&self.term());
        if n.k == "ife" {
            let e = &n.c[2];
            if (e.k == "if" || e.k == "ife") && self.coin() {
                s.push_str("elif");
                s.push_str(&self.if_tail(e));
            } else {
                s.push_str("else");
                s.push_str(&self.kw());
                s.push_str(&self.list(e));
                s.push_str(&self.term());
            }
        }
        s
    }

    fn case_items(&mut self, it: &Node) -> String {
        let mut s = String::new();
        let mut cur = it;
        while cur.k == "item" {
            let body = &cur.c[0];
            let next = &cur.c[1];
            let pat = match cur.s.as_str() {
                "a|b" => {
                    if self.coin() { "a|b".to_string() } else { "a | b".to_string() }
                }
                "*" => "*".to_string(),
                p => {
                    if self.rare() { format!("'{p}'") } else { p.to_string() }
                }
            };
            if !self.rare() {
                s.push('(');
            }
            s.push_str(&pat);
            s.push(')');
            s.push_str(&self.kw());
            if body.k != "empty" {
                s.push_str(&self.list(body));
                s.push_str(&match self.pick(3) {
                    0 => " ".to_string(),
                    1 => self.newline(),
                    _ => "".to_string(),
                });
            }
            let last = next.k == "esac";
            let t = match cur.n {
                0 => {
                    if last && self.coin() {
                        // the terminator of the last item may be omitted
                        if body.k == "empty" { "" } else { "\n" }
                    } else {
                        ";;"
                    }
                }
                1 => ";&",
                _ => {
                    if self.coin() { ";;&" } else { ";|" }
                }
            };
            s.push_str(t);
            s.push_str(&self.kw());
            cur = next;
        }
        s
    }

    fn loop_body(&mut self, body: &Node) -> String {
        let k = self.kw();
        let l = self.list(body);
        let t = self.term();
        format!("do{k}{l}{t}done")
    }

    pub fn command(&mut self, n: &Node) -> String {
        match n.k.as_str() {
            "sub" => {
                let inner = self.list(&n.c[0]);
                let pre = if inner.starts_with('(') { " ".to_string() } else { self.osp() };
                let post = match self.pick(4) {
                    0 => ";".to_string(),
                    1 => self.newline(),
                    _ => self.osp(),
                };
                format!("({pre}{inner}{post})")
            }
            "if" | "ife" => {
                let t = self.if_tail(n);
                format!("if{t}fi")
            }
            "while" | "until" => {
                let k = self.kw();
                let c = self.list(&n.c[0]);
                let t = self.term();
                let b = self.loop_body(&n.c[1]);
                format!("{}{k}{c}{t}{b}", n.k)
            }
            "for" => {
                let words: Vec<String> = n.s.chars().map(|c| c.to_string()).collect();
                let mut s = format!("for{}v{}in", self.sp(), self.sp());
                for w in &words {
                    s.push_str(&self.sp());
                    s.push_str(w);
                }
                s.push_str(&self.term());
                s.push_str(&self.loop_body(&n.c[0]));
                s
            }
            "case" => {
                let subj = if n.s == "v" {
                    match self.pick(3) {
                        0 => "$v".to_string(),
                        1 => "\"$v\"".to_string(),
                        _ => "${v}".to_string(),
                    }
                } else {
                    n.s.clone()
                };
                let a = self.sp();
                let b = self.sp();
                let k = self.kw();
                let items = self.case_items(&n.c[0]);
                format!("case{a}{subj}{b}in{k}{items}esac")
            }
            "def" => {
                let body = &n.c[0];
                let b = if body.k == "rx" {
                    let c = self.compound(&body.c[0]);
                    format!("{c} {}", self.redirect())
                } else {
                    self.compound(body)
                };
                let name = &n.s;
                match self.pick(4) {
                    0 => format!("{name}() {b}"),
                    1 => format!("{name} ( ){b}"),
                    2 => format!("{name}(){}{b}", self.newline()),
                    _ => format!("{name}(){b}"),
                }
            }
            "rx" => {
                let c = self.compound(&n.c[0]);
                format!("{c} {}", self.redirect())
            }
            "seq" | "and" | "or" | "not" | "pipe" => self.brace(n),
            _ => self.simple(n),
        }
    }

    fn simple(&mut self, n: &Node) -> String {
        let real = self.mode == Mode::Real;
        let m = n.m.to_string();
        let mut words: Vec<String> = match n.k.as_str() {
            "mk" => {
                if real {
                    vec!["./mk".into(), m, n.n.to_string(), "$?".into()]
                } else {
                    vec!["mk".into(), m, n.n.to_string()]
                }
            }
            "P" => {
                if real {
                    vec!["./probe".into(), m, "$?".into()]
                } else {
                    vec!["probe".into(), m]
                }
            }
            "tick" => vec!["tick".into()],
            // a command whose words expand to nothing (U is never set; no positional parameters)
            "nil" => match self.pick(4) {
                0 => vec!["$U".into()],
                1 => vec!["\"$@\"".into()],
                2 => vec!["${U}".into(), "$U".into()],
                _ => vec!["$U$U".into()],
            },
            "cmd" => vec![if n.s == "nosuch" { "nosuchcmd".to_string() } else { n.s.clone() }],
            "brk" | "cnt" => {
                let name = if n.k == "brk" { "break" } else { "continue" };
                if n.n == 1 && self.coin() { vec![name.into()] } else { vec![name.into(), n.n.to_string()] }
            }
            "ret" | "exit" => {
                let name = if n.k == "ret" { "return" } else { "exit" };
                if n.n < 0 { vec![name.into()] } else { vec![name.into(), n.n.to_string()] }
            }
            "nop" => vec![":".into()],
            "dot" => vec![".".into(), if real { "/nonexistent-yv/script".into() } else { "/nx/script".into() }],
            "asg" => vec!["RO=2".into()],
            "asgc" => {
                if real {
                    vec!["RO=2".into(), "./mk".into(), m, "0".into(), "$?".into()]
                } else {
                    vec!["RO=2".into(), "mk".into(), m, "0".into()]
                }
            }
            "exp" => {
                let e = match self.pick(3) {
                    0 => "${U?}",
                    1 => "${U:?}",
                    _ => "${U?unset}",
                };
                if real {
                    vec!["./mk".into(), m, "0".into(), "$?".into(), e.into()]
                } else {
                    vec!["mk".into(), m, "0".into(), e.into()]
                }
            }
            "trap" => {
                let act = if real { format!("./probe {m} $?") } else { format!("probe {m}") };
                vec!["trap".into(), format!("'{act}'"), "EXIT".into()]
            }
            other => vec![format!("unknown-leaf-{other}")],
        };
        if n.w {
            words.insert(0, "command".into());
        }
        let mut s = String::new();
        let redir_first = n.r && self.rare();
        if redir_first {
            s.push_str(&self.redirect());
            s.push_str(&self.sp());
        }
        for (i, w) in words.iter().enumerate() {
            if i > 0 {
                s.push_str(&self.sp());
            }
            s.push_str(w);
        }
        if n.r && !redir_first {
            s.push(' ');
            s.push_str(&self.redirect());
        }
        s
    }

    /// The whole program with its prelude.  `m`: monitor option on.  `e`: errexit, `t`: EXIT trap
    /// `probe 0` set on the first line, `y` > 0: a line with a syntax error
    /// follows top-level line `y`.
    pub fn program(&mut self, root: &Node, e: bool, t: bool, y: usize, m: bool) -> Rendered {
        let real = self.mode == Mode::Real;
        let mut flags: Vec<String> = vec![];
        let mut prelude: Vec<String> = vec![];
        if root.any(&|n| n.k == "asg" || n.k == "asgc") {
            prelude.push("readonly RO=1".into());
        }
        if e {
            match self.pick(4) {
                0 | 1 => flags.push("-e".into()),
                2 => prelude.push("set -e".into()),
                _ => prelude.push("set -o errexit".into()),
            }
        }
        if m {
            // monitor (job control) option
            match self.pick(4) {
                0 | 1 => flags.push("-m".into()),
                2 => prelude.push("set -m".into()),
                _ => prelude.push("set -o monitor".into()),
            }
        }
        if t {
            prelude.push(if real { "trap './probe 0 $?' EXIT".into() } else { "trap 'probe 0' EXIT".into() });
        }
        let mut s = String::new();
        for p in &prelude {
            s.push_str(p);
            s.push_str(if self.coin() { "; " } else { "\n" });
        }
        let lines = root.lines();
        for (i, l) in lines.iter().enumerate() {
            s.push_str(&self.list(l));
            if y > 0 && i + 1 == y {
                let bad = SYNERR[self.pick(SYNERR.len())];
                s.push('\n');
                s.push_str(bad);
                s.push('\n');
            } else if i + 1 < lines.len() {
                let sep = self.sep();
                s.push_str(&sep);
            } else {
                // end of input: nothing, the terminating newline, or further
                // lines holding only blanks / comments (XCU 2.3 rule 7 and
                // 2.10.2: they are no commands, so `$?` and the final exit
                // status stay those of the last command executed)
                match self.pick(8) {
                    0 | 1 => {}
                    2 | 3 | 4 => s.push('\n'),
                    5 => s.push_str("\n\n"),
                    6 => s.push_str("\n  # the end\n"),
                    _ => s.push_str(" # c\n \t\n#"),
                }
            }
        }
        let via_stdin = self.rare();
        Rendered { script: s, flags, via_stdin }
    }
}
