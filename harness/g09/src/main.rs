//! Conformance harness for specification-growth module g09 (see /verif/DESIGN.md 12.6).
fn main() {
    eprintln!("yv-g09: not implemented yet");
    std::process::exit(2);
}
