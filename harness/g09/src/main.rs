//! Conformance harness for specification-growth module G09 - invocation,
//! initialisation and termination of the shell (spec/Startup.tla).
//!
//!   yv-g09 replay --in gen.ndjson --out mismatch.ndjson [--real-every K] [--threads T]
//!       spec -> impl: every line is a scenario printed by Gen_Startup with its
//!       rendering and the outcomes Startup!Expect allows; it is run on the
//!       simulated OS and (every K-th eligible one, small families entirely) on
//!       the real OS through the true entry point; deviations are written out.
//!   yv-g09 random --runs N --real M --out trace.ndjson
//!       impl -> spec: seeded random scenarios, rendered here, run, recorded;
//!       Trace_Startup.tla judges the records.
//!   yv-g09 redo --in one.json
//!       runs one scenario (a line of either kind) again and prints what it shows.
mod real;
mod scen;
mod sim;

use rand::SeedableRng;
use scen::{Deviation, Obs, Rendered};
use serde_json::{Value, json};
use std::io::{BufRead, Write};
use std::sync::Mutex;
use std::sync::atomic::{AtomicUsize, Ordering};
use yvcommon::util::{catch, opt, opt_usize, open_in, open_out, quiet_panics, seed};

fn sim_run(r: &Rendered) -> Obs {
    match catch(|| sim::run(r)) {
        Ok(o) => o,
        Err(m) => Obs { outcome: format!("panic: {m}"), out: vec![], status: 0, sig: 0, stderr: String::new() },
    }
}

fn fnv(s: &str) -> u64 {
    s.bytes().fold(0xcbf2_9ce4_8422_2325u64, |h, b| (h ^ b as u64).wrapping_mul(0x100_0000_01b3)) >> 7
}

fn real_eligible(r: &Rendered) -> bool {
    r.ids == "same"
}

fn mismatch(mode: &str, j: &Value, d: &Deviation, obs: &Obs) -> Value {
    json!({"mode": mode, "fam": j["fam"], "field": d.field, "pos": d.pos, "exp": d.exp, "got": d.got, "class": j["class"],
           "plan": j["plan"], "sc": j["sc"], "argv": j["argv"], "alts": j["alts"], "seen": obs.to_json(), "line": j})
}

/// Judges one observation against a generated line: the deviations (none = allowed).
fn judge_line(j: &Value, obs: &Obs) -> Vec<Deviation> {
    if j["class"] == "unspec" {
        // neither POSIX nor the manual decides: the shell must merely terminate
        if obs.outcome == "completed" { vec![] } else { scen::deviations(&json!({"out": []}), obs) }
    } else {
        scen::judge(&j["alts"], obs)
    }
}

fn cmd_replay(args: &[String]) {
    let threads = opt_usize(args, "--threads", 8);
    let real_every = opt_usize(args, "--real-every", 20);
    let lines: Vec<String> = open_in(args).lines().map(|l| l.expect("read")).filter(|l| !l.trim().is_empty()).collect();
    let bin = real::prepare();
    let next = AtomicUsize::new(0);
    let mism: Mutex<Vec<Value>> = Mutex::new(vec![]);
    let stats: Mutex<serde_json::Map<String, Value>> = Mutex::new(Default::default());
    let samples: Mutex<Vec<Value>> = Mutex::new(vec![]);
    let counters = [(); 8].map(|_| AtomicUsize::new(0));
    // 0 sim cases, 1 sim deviations, 2 real cases, 3 real deviations, 4 unspec, 5 nontrivial, 6 real tty, 7 usage
    std::thread::scope(|s| {
        for _ in 0..threads {
            s.spawn(|| {
                quiet_panics();
                loop {
                    let i = next.fetch_add(1, Ordering::SeqCst);
                    if i >= lines.len() {
                        break;
                    }
                    let j: Value = serde_json::from_str(&lines[i]).expect("gen line");
                    let r = Rendered::from_gen(&j);
                    let fam = j["fam"].as_str().unwrap_or("").to_string();
                    let obs = sim_run(&r);
                    counters[0].fetch_add(1, Ordering::Relaxed);
                    if j["class"] == "unspec" {
                        counters[4].fetch_add(1, Ordering::Relaxed);
                    }
                    if j["class"] == "usage" {
                        counters[7].fetch_add(1, Ordering::Relaxed);
                    }
                    let ds = judge_line(&j, &obs);
                    if !ds.is_empty() {
                        counters[1].fetch_add(1, Ordering::Relaxed);
                        for d in &ds {
                            mism.lock().unwrap().push(mismatch("sim", &j, d, &obs));
                        }
                    } else if j["class"] == "ok" && !obs.out.is_empty() {
                        counters[5].fetch_add(1, Ordering::Relaxed);
                    }
                    {
                        let mut st = stats.lock().unwrap();
                        let e = st.entry(fam.clone()).or_insert(json!(0));
                        *e = json!(e.as_u64().unwrap_or(0) + 1);
                    }
                    // the small families half or entirely, the big ones sampled (by a hash of
                    // the scenario, so that the sample does not depend on TLC's output order)
                    let h = fnv(&format!("{}{}", j["argv"], j["sc"])) as usize;
                    let small = matches!(fam.as_str(), "files" | "vars");
                    let take = real_eligible(&r) && (h % real_every == 0 || (small && h % 2 == 0) || fam == "portable");
                    if take {
                        let obs = real::run(&r, &bin);
                        counters[2].fetch_add(1, Ordering::Relaxed);
                        if r.tin || r.terr {
                            counters[6].fetch_add(1, Ordering::Relaxed);
                        }
                        let ds = if obs.outcome == "no-pty" { vec![] } else { judge_line(&j, &obs) };
                        if !ds.is_empty() {
                            counters[3].fetch_add(1, Ordering::Relaxed);
                            for d in &ds {
                                mism.lock().unwrap().push(mismatch("real", &j, d, &obs));
                            }
                        }
                        let mut sm = samples.lock().unwrap();
                        if sm.len() < 6 && h % 97 == 0 {
                            sm.push(json!({"argv": j["argv"], "mode": "real", "stdout": obs.out, "status": obs.status, "sig": obs.sig}));
                        }
                    }
                }
            });
        }
    });
    real::cleanup();
    let mut out = open_out(args);
    let mism = mism.into_inner().unwrap();
    for m in &mism {
        writeln!(out, "{m}").unwrap();
    }
    out.flush().unwrap();
    let c = |k: usize| counters[k].load(Ordering::Relaxed);
    println!(
        "{}",
        json!({"scenarios": lines.len(), "sim": {"cases": c(0), "mismatches": c(1)},
               "real": {"cases": c(2), "mismatches": c(3), "with_tty": c(6)}, "unspec": c(4), "usage": c(7),
               "nontrivial": c(5), "families": Value::Object(stats.into_inner().unwrap()),
               "samples": samples.into_inner().unwrap()})
    );
}

fn cmd_random(args: &[String]) {
    let runs = opt_usize(args, "--runs", 1000);
    let real_n = opt_usize(args, "--real", 100);
    let threads = opt_usize(args, "--threads", 8);
    let mut rng = rand::rngs::StdRng::seed_from_u64(seed().wrapping_mul(0x9E37_79B9).wrapping_add(9));
    let scs: Vec<Value> = (0..runs).map(|_| scen::random_scenario(&mut rng)).collect();
    let bin = real::prepare();
    let next = AtomicUsize::new(0);
    let real_left = AtomicUsize::new(real_n);
    let recs: Mutex<Vec<(usize, Value)>> = Mutex::new(vec![]);
    let real_done = AtomicUsize::new(0);
    std::thread::scope(|s| {
        for _ in 0..threads {
            s.spawn(|| {
                quiet_panics();
                loop {
                    let i = next.fetch_add(1, Ordering::SeqCst);
                    if i >= scs.len() {
                        break;
                    }
                    let sc = &scs[i];
                    let (r, script) = scen::render(sc);
                    let mut runs = vec![];
                    let o = sim_run(&r);
                    runs.push(json!({"mode": "sim", "outcome": o.outcome, "out": o.out, "status": o.status, "sig": o.sig,
                                     "err": if o.stderr.is_empty() { "empty" } else { "nonempty" }}));
                    if real_eligible(&r)
                        && real_left.fetch_update(Ordering::SeqCst, Ordering::SeqCst, |x| x.checked_sub(1)).is_ok()
                    {
                        let o = real::run(&r, &bin);
                        if o.outcome != "no-pty" {
                            real_done.fetch_add(1, Ordering::Relaxed);
                            runs.push(json!({"mode": "real", "outcome": o.outcome, "out": o.out, "status": o.status, "sig": o.sig,
                                             "err": if o.stderr.is_empty() { "empty" } else { "nonempty" }}));
                        }
                    }
                    recs.lock().unwrap().push((i, json!({"id": i, "sc": sc, "argv": r.argv, "stdin": r.stdin, "script": script, "runs": runs})));
                }
            });
        }
    });
    real::cleanup();
    let mut recs = recs.into_inner().unwrap();
    recs.sort_by_key(|(i, _)| *i);
    let mut out = open_out(args);
    for (_, r) in &recs {
        writeln!(out, "{r}").unwrap();
    }
    out.flush().unwrap();
    println!("{}", json!({"records": recs.len(), "sim_runs": recs.len(), "real_runs": real_done.load(Ordering::Relaxed)}));
}

fn cmd_redo(args: &[String]) {
    let path = opt(args, "--in").expect("--in");
    let text = std::fs::read_to_string(path).expect("read --in");
    let j: Value = serde_json::from_str(text.lines().next().unwrap_or("{}")).expect("json");
    let (r, gen_line) = if j.get("alts").is_some() { (Rendered::from_gen(&j), true) } else { (scen::render(&j["sc"]).0, false) };
    let bin = real::prepare();
    let mut bad = 0;
    let mut results = vec![("sim", sim_run(&r))];
    if real_eligible(&r) {
        results.push(("real", real::run(&r, &bin)));
    }
    real::cleanup();
    println!("argv: {:?}", r.argv);
    println!("stdin: {:?}  tty(stdin,stderr)=({},{})  ids={}  env={:?}", r.stdin, r.tin, r.terr, r.ids, r.env);
    for (mode, o) in &results {
        println!("{mode}: outcome={} status={} sig={} stdout={:?} stderr={:?}", o.outcome, o.status, o.sig, o.out, scen::clip(&o.stderr, 400));
        if gen_line {
            let ds = if o.outcome == "no-pty" { vec![] } else { judge_line(&j, o) };
            if ds.is_empty() {
                println!("  -> allowed");
            } else {
                bad += 1;
                for d in &ds {
                    println!("  -> DEVIATES in {} (line {}: expected {:?}, got {:?})", d.field, d.pos, d.exp, d.got);
                }
                println!("  allowed: {}", j["alts"]);
            }
        }
    }
    let recs: Vec<Value> = results
        .iter()
        .map(|(mode, o)| {
            json!({"mode": mode, "outcome": o.outcome, "out": o.out, "status": o.status, "sig": o.sig,
                   "err": if o.stderr.is_empty() { "empty" } else { "nonempty" }})
        })
        .collect();
    if let Some(p) = opt(args, "--out") {
        let (rr, script) = if gen_line { (r.clone(), j["script"].as_str().unwrap_or("").to_string()) } else { scen::render(&j["sc"]) };
        std::fs::write(p, format!("{}\n", json!({"id": 0, "sc": j["sc"], "argv": rr.argv, "stdin": rr.stdin, "script": script, "runs": recs})))
            .expect("write --out");
    }
    println!("{}", json!({"bad": bad}));
}

fn main() {
    yvcommon::real::maybe_child_main();
    let args: Vec<String> = std::env::args().skip(1).collect();
    match args.first().map(|s| s.as_str()) {
        Some("replay") => cmd_replay(&args[1..]),
        Some("random") => cmd_random(&args[1..]),
        Some("redo") => cmd_redo(&args[1..]),
        _ => {
            eprintln!("usage: yv-g09 replay|random|redo ...");
            std::process::exit(2);
        }
    }
}
