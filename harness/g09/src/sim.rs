//! One complete invocation of the REAL shell on the simulated OS: the whole of
//! `yash_cli::run_as_shell_process` + `main` re-assembled from its public
//! pieces (`startup::args::parse`, import of the environment,
//! `startup::configure_environment`, `startup::init_file::run_rcfile`,
//! `startup::input::prepare_input`, `read_eval_loop` /
//! `interactive_read_eval_loop`, `Env::apply_result`, `trap::run_exit_trap`,
//! `semantics::exit_or_raise`) - unlike `yvcommon::shell::run_shell`, which
//! runs no initialisation file and no interactive loop.  Standard input and
//! standard error can be terminals, real and effective ids can differ.
//!
//! The glue in `yash-cli/src/lib.rs` itself (what is called in which order,
//! the exit statuses 2 / 126 / 127 of failed start-ups) cannot run on the
//! simulated OS (it is tied to `std::env` and `RealSystem`); it is mirrored
//! here line by line and exercised for real by `real.rs`.
use crate::scen::{Obs, Rendered, normalise};
use std::cell::RefCell;
use std::future::Future;
use std::ops::ControlFlow::{Break, Continue};
use std::pin::Pin;
use std::rc::Rc;
use yash_cli::startup::args::Parse;
use yash_env::Env;
use yash_env::builtin::{Builtin, Result as BResult, Type};
use yash_env::io::Fd;
use yash_env::option::{Interactive, On, Portable};
use yash_env::path::PathBuf;
use yash_env::semantics::{Divert, ExitStatus, Field, exit_or_raise};
use yash_env::system::r#virtual::{FileBody, Inode, SIGTERM, SystemState, VirtualSystem};
use yash_env::system::{Concurrent, Errno, Gid, Mode, Uid};
use yvcommon::sched::{Outcome, Schedule, Scheduler};
use yvcommon::shell::{Sys, VEnv, register_generic_probes};

fn save(state: &Rc<RefCell<SystemState>>, path: &str, inode: Inode) {
    state.borrow_mut().file_system.save(path, Rc::new(RefCell::new(inode))).unwrap();
}

fn dir(state: &Rc<RefCell<SystemState>>, path: &str) {
    save(
        state,
        path,
        Inode { body: FileBody::Directory { files: Default::default() }, permissions: Mode::from_bits_truncate(0o755) },
    );
}

/// `printenv NAME`: prints the value of the exported variable NAME (status 1 if there is none).
fn printenv_main(env: &mut VEnv, args: Vec<Field>) -> Pin<Box<dyn Future<Output = BResult> + '_>> {
    Box::pin(async move {
        use yash_env::system::concurrency::WriteAll as _;
        let name = args.first().map(|f| f.value.clone()).unwrap_or_default();
        let val = env.variables.get(&name).filter(|v| v.is_exported).and_then(|v| match &v.value {
            Some(yash_env::variable::Value::Scalar(s)) => Some(s.clone()),
            _ => None,
        });
        match val {
            Some(v) => {
                let _ = env.system.write_all(Fd::STDOUT, format!("{v}\n").as_bytes()).await;
                BResult::new(ExitStatus(0))
            }
            None => BResult::new(ExitStatus(1)),
        }
    })
}

/// `selfkill`: the calling process sends itself SIGTERM (what the external
/// utility `selfkill` of the real-OS runs does).
fn selfkill_main(env: &mut VEnv, _args: Vec<Field>) -> Pin<Box<dyn Future<Output = BResult> + '_>> {
    Box::pin(async move {
        use yash_env::system::SendSignal as _;
        let _ = env.system.raise(SIGTERM).await;
        BResult::new(ExitStatus(1))
    })
}

/// The body of `yash_cli::run_as_shell_process`, with `argv` / `vars` in place
/// of `std::env::args()` / `std::env::vars()`.
async fn shell_process(env: &mut VEnv, argv: Vec<String>, vars: Vec<(String, String)>) {
    use yash_env::system::concurrency::WriteAll as _;
    let run = match yash_cli::startup::args::parse(argv.iter().cloned()) {
        Ok(Parse::Run(run)) => run,
        Ok(_) => {
            // --help / --version: not in the model
            env.exit_status = ExitStatus(0);
            return;
        }
        Err(e) => {
            let arg0 = argv.first().cloned().unwrap_or_else(|| "yash".to_owned());
            env.system.print_error(&format!("{arg0}: {e}\n")).await;
            env.exit_status = ExitStatus::ERROR;
            return;
        }
    };
    let portable =
        run.options.iter().rev().find_map(|&(option, state)| (option == Portable).then_some(state)) == Some(On);
    env.variables
        .extend_env(vars.into_iter().filter(|(name, _)| !portable || yash_env::variable::is_portable_variable_name(name)));

    let work = yash_cli::startup::configure_environment(env, run).await;
    // harness: utilities that exist as external commands in the real-OS runs
    register_generic_probes(env);
    env.builtins.insert("printenv", Builtin::new(Type::Mandatory, printenv_main));
    env.builtins.insert("selfkill", Builtin::new(Type::Mandatory, selfkill_main));

    let is_interactive = env.options.get(Interactive) == On;
    yash_cli::startup::init_file::run_rcfile(env, work.rcfile).await;

    let ref_env = RefCell::new(env);
    let lexer = match yash_cli::startup::input::prepare_input(&ref_env, &work.source).await {
        Ok(lexer) => lexer,
        Err(e) => {
            let arg0 = argv.first().cloned().unwrap_or_else(|| "yash".to_owned());
            let message = format!("{arg0}: {e}\n");
            let mut env = ref_env.borrow_mut();
            env.system.print_error(&message).await;
            env.exit_status = match e.errno {
                Errno::ENOENT | Errno::ENOTDIR | Errno::EILSEQ => ExitStatus::NOT_FOUND,
                _ => ExitStatus::NOEXEC,
            };
            return;
        }
    };
    let result = if is_interactive {
        yash_semantics::interactive_read_eval_loop(&ref_env, &mut { lexer }).await
    } else {
        yash_semantics::read_eval_loop(&ref_env, &mut { lexer }).await
    };
    let env = ref_env.into_inner();
    env.apply_result(result);
    match result {
        Continue(())
        | Break(Divert::Continue { .. })
        | Break(Divert::Break { .. })
        | Break(Divert::Return(_))
        | Break(Divert::Interrupt(_))
        | Break(Divert::Exit(_)) => yash_semantics::trap::run_exit_trap(env).await,
        Break(Divert::Abort(_)) => (),
    }
}

pub const SIM_PPID: i64 = 1;

pub fn run(r: &Rendered) -> Obs {
    let system = VirtualSystem::new();
    let state = Rc::clone(&system.state);
    let sched = Rc::new(Scheduler::new(Schedule::Fifo, 400_000));
    state.borrow_mut().executor = Some(Rc::clone(&sched) as Rc<dyn yash_env::system::r#virtual::Executor>);

    for d in ["/bin", "/w", "/w/d", "/w/pathdir", "/x"] {
        dir(&state, d);
    }
    for (name, b) in yash_builtin::iter::<Sys>() {
        if b.r#type == Type::Substitutive {
            let mut inode = Inode::new(Vec::<u8>::new());
            inode.permissions = Mode::from_bits_truncate(0o755);
            if let FileBody::Regular { is_native_executable, .. } = &mut inode.body {
                *is_native_executable = true;
            }
            save(&state, &format!("/bin/{name}"), inode);
        }
    }
    for f in &r.files {
        let mut inode = Inode::new(f.content.as_bytes().to_vec());
        inode.permissions = Mode::from_bits_truncate(f.mode as _);
        save(&state, &f.path, inode);
    }
    {
        let st = state.borrow();
        let stdin = st.file_system.get("/dev/stdin").unwrap();
        stdin.borrow_mut().body = if r.tin {
            FileBody::Terminal { content: r.stdin.as_bytes().to_vec() }
        } else {
            FileBody::new(r.stdin.as_bytes().to_vec())
        };
        if r.terr {
            let stderr = st.file_system.get("/dev/stderr").unwrap();
            stderr.borrow_mut().body = FileBody::Terminal { content: vec![] };
        }
    }
    let main_pid = system.process_id;
    {
        let mut p = system.current_process_mut();
        p.chdir(PathBuf::from("/w"));
        p.set_uid(Uid(1000));
        p.set_euid(Uid(if r.ids == "uid" { 1001 } else { 1000 }));
        p.set_gid(Gid(100));
        p.set_egid(Gid(if r.ids == "gid" { 101 } else { 100 }));
    }

    let sys: Sys = Rc::new(Concurrent::new(system));
    let mut env = Env::with_system(Rc::clone(&sys));
    let mut vars = vec![("PATH".to_string(), "/w/pathdir:/bin".to_string())];
    vars.extend(r.env.iter().cloned());
    let argv = r.argv.clone();
    let sys2 = Rc::clone(&sys);
    let main_task = async move {
        let body = async move {
            shell_process(&mut env, argv, vars).await;
            // yash_cli::main
            exit_or_raise(&env.system, env.exit_status).await
        };
        sys2.run_virtual(body).await;
    };
    let outcome = sched.run_main(Box::pin(main_task), &state);

    let mut status = -1;
    let mut sig = 0;
    let mut halted = false;
    {
        let st = state.borrow();
        if let Some(p) = st.processes.get(&main_pid) {
            use yash_env::job::{ProcessResult, ProcessState};
            match p.state() {
                ProcessState::Halted(ProcessResult::Exited(e)) => {
                    halted = true;
                    status = e.0 & 0xFF;
                }
                ProcessState::Halted(ProcessResult::Signaled { signal, .. }) => {
                    halted = true;
                    status = 0;
                    sig = signal.as_raw();
                }
                _ => {}
            }
        }
    }
    let read = |path: &str| -> Vec<u8> {
        let st = state.borrow();
        let Ok(inode) = st.file_system.get(path) else { return vec![] };
        let inode = inode.borrow();
        match &inode.body {
            FileBody::Regular { content, .. } | FileBody::Terminal { content } => content.clone(),
            _ => vec![],
        }
    };
    let stdout = String::from_utf8_lossy(&read("/dev/stdout")).into_owned();
    let stderr = String::from_utf8_lossy(&read("/dev/stderr")).into_owned();
    let executor = state.borrow_mut().executor.take();
    drop(executor);
    let outcome = match outcome {
        // the shell process has exited (its task never returns from `exit`)
        Outcome::Completed | Outcome::Deadlock if halted => "completed".to_string(),
        Outcome::Completed => "completed-without-exit".to_string(),
        Outcome::Deadlock => "deadlock".to_string(),
        Outcome::StepLimit => "steplimit".to_string(),
        Outcome::Panic(m) => format!("panic: {m}"),
    };
    Obs { outcome, out: normalise(&stdout, SIM_PPID, ""), status: status.max(0), sig, stderr }
}
