//! One invocation of the shell on the REAL OS through its true entry point
//! `yash_cli::main()` (this binary re-executed with YV_CHILD=yash, see
//! `yvcommon::real::maybe_child_main`): real argv[0], real environment, real
//! descriptors - regular files or a pseudo-terminal for standard input and
//! standard error.  The directory `/w` of a scenario is `<root>/w` of a
//! scratch directory; `echo`, `printenv`, `true`... are the system's
//! utilities, `selfkill` a two-line /bin/sh script in a shared directory.
use crate::scen::{Obs, Rendered, normalise};
use std::io::Write as _;
use std::os::fd::{AsRawFd, FromRawFd, OwnedFd};
use std::os::unix::process::CommandExt as _;
use std::path::{Path, PathBuf};
use std::process::{Command, Stdio};
use std::sync::atomic::{AtomicUsize, Ordering};
use std::time::{Duration, Instant};

static COUNTER: AtomicUsize = AtomicUsize::new(0);

fn base() -> PathBuf {
    let b = std::env::var("VERIF_SCRATCH").unwrap_or_else(|_| "/verif".to_string());
    Path::new(&b).join("work").join("real09").join(std::process::id().to_string())
}

/// Creates the directory of helper utilities (once, before any thread starts:
/// an executable written while another thread forks could be busy at exec time).
pub fn prepare() -> PathBuf {
    let bin = base().join("bin");
    std::fs::create_dir_all(&bin).expect("bin dir");
    let p = bin.join("selfkill");
    std::fs::write(&p, "#!/bin/sh\nkill -TERM $$\n").expect("selfkill");
    use std::os::unix::fs::PermissionsExt as _;
    std::fs::set_permissions(&p, std::fs::Permissions::from_mode(0o755)).expect("chmod");
    bin
}

pub fn cleanup() {
    let _ = std::fs::remove_dir_all(base());
}

struct Pty {
    master: OwnedFd,
    slave: OwnedFd,
}

fn open_pty() -> Option<Pty> {
    unsafe {
        let m = libc::posix_openpt(libc::O_RDWR | libc::O_NOCTTY | libc::O_CLOEXEC);
        if m < 0 {
            return None;
        }
        let master = OwnedFd::from_raw_fd(m);
        if libc::grantpt(m) != 0 || libc::unlockpt(m) != 0 {
            return None;
        }
        let mut buf = [0 as libc::c_char; 128];
        if libc::ptsname_r(m, buf.as_mut_ptr(), buf.len()) != 0 {
            return None;
        }
        let s = libc::open(buf.as_ptr(), libc::O_RDWR | libc::O_NOCTTY | libc::O_CLOEXEC);
        if s < 0 {
            return None;
        }
        let slave = OwnedFd::from_raw_fd(s);
        let mut t: libc::termios = std::mem::zeroed();
        if libc::tcgetattr(s, &mut t) != 0 {
            return None;
        }
        // canonical input (so that ^D at the start of a line is end-of-file), no echo, raw output
        t.c_lflag &= !(libc::ECHO | libc::ECHOE | libc::ECHOK | libc::ECHONL | libc::ISIG);
        t.c_lflag |= libc::ICANON;
        t.c_oflag &= !libc::OPOST;
        t.c_iflag &= !(libc::ICRNL | libc::INLCR | libc::IXON);
        if libc::tcsetattr(s, libc::TCSANOW, &t) != 0 {
            return None;
        }
        Some(Pty { master, slave })
    }
}

fn dup(fd: &OwnedFd) -> OwnedFd {
    fd.try_clone().expect("dup")
}

fn drain(master: &OwnedFd) -> Vec<u8> {
    let fd = master.as_raw_fd();
    let mut out = vec![];
    unsafe {
        let fl = libc::fcntl(fd, libc::F_GETFL);
        libc::fcntl(fd, libc::F_SETFL, fl | libc::O_NONBLOCK);
        let mut buf = [0u8; 4096];
        loop {
            let n = libc::read(fd, buf.as_mut_ptr() as *mut libc::c_void, buf.len());
            if n <= 0 {
                break;
            }
            out.extend_from_slice(&buf[..n as usize]);
        }
    }
    out
}

/// Runs the scenario; a run that exceeds its time limit is repeated with a
/// longer one: on a loaded machine a child may simply not get the CPU.
pub fn run(r: &Rendered, bin: &Path) -> Obs {
    let mut last = None;
    for secs in [10u64, 40, 120] {
        let obs = run_once(r, bin, Duration::from_secs(secs));
        if obs.outcome != "timeout" {
            return obs;
        }
        last = Some(obs);
    }
    last.unwrap()
}

fn run_once(r: &Rendered, bin: &Path, limit: Duration) -> Obs {
    let n = COUNTER.fetch_add(1, Ordering::SeqCst);
    let root = base().join(format!("r{n}"));
    let _ = std::fs::remove_dir_all(&root);
    let rootstr = root.to_string_lossy().into_owned();
    let re = |s: &str| -> String { s.replace("/w/", &format!("{rootstr}/w/")) };
    for d in ["w", "w/d", "w/pathdir", "x"] {
        std::fs::create_dir_all(root.join(d)).expect("scratch dir");
    }
    for f in &r.files {
        let p = root.join(f.path.trim_start_matches('/'));
        std::fs::write(&p, &f.content).expect("scenario file");
        use std::os::unix::fs::PermissionsExt as _;
        let _ = std::fs::set_permissions(&p, std::fs::Permissions::from_mode(f.mode));
    }
    let out_path = root.join("stdout");
    let err_path = root.join("stderr");
    let stdin_path = root.join("stdin");
    let pty = if r.tin || r.terr { open_pty() } else { None };
    if (r.tin || r.terr) && pty.is_none() {
        let _ = std::fs::remove_dir_all(&root);
        return Obs { outcome: "no-pty".into(), out: vec![], status: 0, sig: 0, stderr: String::new() };
    }
    let exe = std::env::current_exe().expect("current_exe");
    let mut cmd = Command::new(exe);
    cmd.arg0(&r.argv[0]);
    for a in &r.argv[1..] {
        cmd.arg(re(a));
    }
    cmd.current_dir(root.join("w"))
        .env_clear()
        .env("PATH", format!("{}:{rootstr}/w/pathdir:/bin:/usr/bin", bin.to_string_lossy()))
        .env("YV_CHILD", "yash");
    for (k, v) in &r.env {
        cmd.env(k, re(v));
    }
    if r.tin {
        let p = pty.as_ref().unwrap();
        // the whole input, then ^D at the start of a line = end-of-file
        let mut data = r.stdin.as_bytes().to_vec();
        data.push(4);
        let mut m = std::fs::File::from(dup(&p.master));
        m.write_all(&data).expect("write pty");
        cmd.stdin(Stdio::from(dup(&p.slave)));
    } else {
        std::fs::write(&stdin_path, &r.stdin).expect("stdin file");
        cmd.stdin(Stdio::from(std::fs::File::open(&stdin_path).unwrap()));
    }
    cmd.stdout(Stdio::from(std::fs::File::create(&out_path).unwrap()));
    if r.terr {
        cmd.stderr(Stdio::from(dup(&pty.as_ref().unwrap().slave)));
    } else {
        cmd.stderr(Stdio::from(std::fs::File::create(&err_path).unwrap()));
    }
    cmd.process_group(0);
    let mut child = match cmd.spawn() {
        Ok(c) => c,
        Err(e) => {
            let _ = std::fs::remove_dir_all(&root);
            return Obs { outcome: format!("spawn: {e}"), out: vec![], status: 0, sig: 0, stderr: String::new() };
        }
    };
    drop(cmd);
    let t0 = Instant::now();
    let mut timed_out = false;
    let status = loop {
        match child.try_wait() {
            Ok(Some(st)) => break Some(st),
            Ok(None) => {
                if t0.elapsed() > limit {
                    timed_out = true;
                    unsafe { libc::kill(-(child.id() as i32), libc::SIGKILL) };
                    let _ = child.kill();
                    let _ = child.wait();
                    break None;
                }
                std::thread::sleep(Duration::from_micros(500));
            }
            Err(_) => break None,
        }
    };
    unsafe { libc::kill(-(child.id() as i32), libc::SIGKILL) };
    let (code, sig) = match status {
        Some(st) => {
            use std::os::unix::process::ExitStatusExt as _;
            (st.code().unwrap_or(0), st.signal().unwrap_or(0))
        }
        None => (0, 0),
    };
    let stderr_bytes = if r.terr { drain(&pty.as_ref().unwrap().master) } else { std::fs::read(&err_path).unwrap_or_default() };
    let stdout = String::from_utf8_lossy(&std::fs::read(&out_path).unwrap_or_default()).into_owned();
    let stderr = String::from_utf8_lossy(&stderr_bytes).into_owned().replace(&rootstr, "");
    drop(pty);
    let _ = std::fs::remove_dir_all(&root);
    Obs {
        outcome: if timed_out { "timeout".into() } else { "completed".into() },
        out: normalise(&stdout, std::process::id() as i64, &rootstr),
        status: code,
        sig,
        stderr,
    }
}
