//! Scenarios of spec/Startup.tla: the rendered form the runners need, the
//! observation they produce, its normalisation and the comparison with an
//! allowed outcome; a seeded random scenario generator with its own renderer
//! (checked against Startup!Argv etc. by Trace_Startup: verdict "render").
use rand::Rng;
use rand::seq::SliceRandom;
use serde_json::{Value, json};

#[derive(Clone, Debug)]
pub struct FileEntry {
    pub path: String,
    pub content: String,
    pub mode: u32,
}

/// Everything needed to start the shell once.
#[derive(Clone, Debug)]
pub struct Rendered {
    pub argv: Vec<String>,
    pub stdin: String,
    pub files: Vec<FileEntry>,
    pub env: Vec<(String, String)>,
    pub tin: bool,
    pub terr: bool,
    pub ids: String,
}

fn strs(v: &Value) -> Vec<String> {
    v.as_array().map(|a| a.iter().map(|x| x.as_str().unwrap_or("").to_string()).collect()).unwrap_or_default()
}

impl Rendered {
    /// From a line printed by Gen_Startup (`sc`, `argv`, `stdin`, `script`, `files`).
    pub fn from_gen(j: &Value) -> Rendered {
        let sc = &j["sc"];
        let script = j["script"].as_str().unwrap_or("").to_string();
        let files = j["files"]
            .as_array()
            .map(|a| {
                a.iter()
                    .map(|f| {
                        let c = f["content"].as_str().unwrap_or("");
                        FileEntry {
                            path: f["path"].as_str().unwrap_or("").to_string(),
                            content: if c == "@S" { script.clone() } else { c.to_string() },
                            mode: f["mode"].as_u64().unwrap_or(0o644) as u32,
                        }
                    })
                    .collect()
            })
            .unwrap_or_default();
        Rendered {
            argv: strs(&j["argv"]),
            stdin: j["stdin"].as_str().unwrap_or("").to_string(),
            files,
            env: env_pairs(&sc["env"]),
            tin: sc["tin"].as_bool().unwrap_or(false),
            terr: sc["terr"].as_bool().unwrap_or(false),
            ids: sc["ids"].as_str().unwrap_or("same").to_string(),
        }
    }
}

pub fn env_pairs(v: &Value) -> Vec<(String, String)> {
    v.as_array()
        .map(|a| {
            a.iter()
                .map(|p| (p[0].as_str().unwrap_or("").to_string(), p[1].as_str().unwrap_or("").to_string()))
                .collect()
        })
        .unwrap_or_default()
}

/// What one run of the shell showed.
#[derive(Clone, Debug, PartialEq, Eq)]
pub struct Obs {
    /// completed / timeout / deadlock / steplimit / panic: ...
    pub outcome: String,
    /// standard output, normalised (see `normalise`), one element per line
    pub out: Vec<String>,
    /// exit status (0..255) if the shell exited, else 0
    pub status: i32,
    /// number of the signal that killed the shell, 0 if it exited
    pub sig: i32,
    pub stderr: String,
}

impl Obs {
    pub fn to_json(&self) -> Value {
        json!({"outcome": self.outcome, "out": self.out, "status": self.status, "sig": self.sig,
               "err": if self.stderr.is_empty() { "empty" } else { "nonempty" }, "stderr": clip(&self.stderr, 300)})
    }
}

pub fn clip(s: &str, n: usize) -> String {
    if s.len() <= n { s.to_string() } else { format!("{}...", s.chars().take(n).collect::<String>()) }
}

pub const WATCHED: [&str; 9] =
    ["allexport", "cmdline", "errexit", "interactive", "login", "monitor", "portable", "posixlycorrect", "stdin"];

/// Normalisation of standard output (nothing else is touched):
///  * `-=<letters>`: the letters of `$-` are sorted (their order is not specified);
///  * the output of `set -o` between the marker lines `<<opts` and `opts>>` becomes one
///    line `on=` + the watched options that are on, in alphabetical order;
///  * in the `P=` line the number that equals the parent's process id becomes `@PPID`;
///  * `root` (the scratch directory standing for `/`) is removed from pathnames.
pub fn normalise(stdout: &str, ppid: i64, root: &str) -> Vec<String> {
    let text = if root.is_empty() { stdout.to_string() } else { stdout.replace(root, "") };
    let mut lines: Vec<&str> = text.split('\n').collect();
    if lines.last() == Some(&"") {
        lines.pop();
    } else if !text.is_empty() {
        // a last line without newline: keep it visibly different
    }
    let mut out = vec![];
    let mut i = 0;
    while i < lines.len() {
        let l = lines[i];
        if l == "<<opts" {
            let mut on: Vec<String> = vec![];
            let mut j = i + 1;
            let mut closed = false;
            while j < lines.len() {
                if lines[j] == "opts>>" {
                    closed = true;
                    break;
                }
                let mut it = lines[j].split_whitespace();
                if let (Some(name), Some(state)) = (it.next(), it.next()) {
                    if state == "on" && WATCHED.contains(&name) {
                        on.push(name.to_string());
                    }
                }
                j += 1;
            }
            if closed {
                on.sort();
                out.push(format!("on={}", on.join(",")));
                i = j + 1;
                continue;
            }
        }
        if let Some(rest) = l.strip_prefix("-=") {
            let mut cs: Vec<char> = rest.chars().collect();
            cs.sort();
            out.push(format!("-={}", cs.into_iter().collect::<String>()));
        } else if let Some(rest) = l.strip_prefix("P=") {
            let (num, tail) = match rest.find(' ') {
                Some(p) => (&rest[..p], &rest[p..]),
                None => (rest, ""),
            };
            if num.parse::<i64>().ok() == Some(ppid) {
                out.push(format!("P=@PPID{tail}"));
            } else {
                out.push(l.to_string());
            }
        } else {
            out.push(l.to_string());
        }
        i += 1;
    }
    out
}

fn line_matches(exp: &str, got: &str) -> bool {
    if let Some(prefix) = exp.strip_suffix("@NZ") {
        match got.strip_prefix(prefix) {
            Some(rest) => rest.parse::<i32>().map(|n| (1..=125).contains(&n)).unwrap_or(false) && !rest.starts_with('+'),
            None => false,
        }
    } else {
        exp == got
    }
}

/// One deviation of an observation from an allowed outcome.
#[derive(Clone, Debug, Default)]
pub struct Deviation {
    pub field: &'static str,
    /// 0-based index of the deviating line of standard output
    pub pos: usize,
    pub exp: String,
    pub got: String,
}

impl Deviation {
    fn new(field: &'static str, pos: usize, exp: String, got: String) -> Self {
        Deviation { field, pos, exp, got }
    }
}

/// Every deviation of the observation from one allowed outcome (as
/// Startup!Devs): all deviating lines of standard output when the line counts
/// agree (otherwise the first one) and, independently, signal, exit status and
/// class of standard error.
pub fn deviations(alt: &Value, obs: &Obs) -> Vec<Deviation> {
    if obs.outcome != "completed" {
        return vec![Deviation::new("outcome", 0, "completed".into(), obs.outcome.clone())];
    }
    let mut ds = vec![];
    let exp = strs(&alt["out"]);
    if exp.len() == obs.out.len() {
        for (i, (e, g)) in exp.iter().zip(&obs.out).enumerate() {
            if !line_matches(e, g) {
                ds.push(Deviation::new("stdout", i, e.clone(), g.clone()));
            }
        }
    } else {
        let n = exp.len().max(obs.out.len());
        for i in 0..n {
            let same = match (exp.get(i), obs.out.get(i)) {
                (Some(e), Some(g)) => line_matches(e, g),
                _ => false,
            };
            if !same {
                let end = "@END".to_string();
                ds.push(Deviation::new("stdout", i, exp.get(i).cloned().unwrap_or(end.clone()), obs.out.get(i).cloned().unwrap_or(end)));
                break;
            }
        }
    }
    let sig = alt["sig"].as_i64().unwrap_or(0) as i32;
    if sig != obs.sig {
        ds.push(Deviation::new("signal", 0, sig.to_string(), obs.sig.to_string()));
    }
    if sig == 0 && obs.sig == 0 {
        let lo = alt["lo"].as_i64().unwrap_or(0) as i32;
        let hi = alt["hi"].as_i64().unwrap_or(0) as i32;
        if obs.status < lo || obs.status > hi {
            ds.push(Deviation::new("status", 0, format!("{lo}-{hi}"), obs.status.to_string()));
        }
    }
    let err = alt["err"].as_str().unwrap_or("any");
    let got = if obs.stderr.is_empty() { "empty" } else { "nonempty" };
    if err != "any" && err != got {
        ds.push(Deviation::new("stderr", 0, err.to_string(), got.to_string()));
    }
    ds
}

/// The deviations from the closest allowed outcome (empty: the observation is allowed).
pub fn judge(alts: &Value, obs: &Obs) -> Vec<Deviation> {
    let mut best: Option<Vec<Deviation>> = None;
    for a in alts.as_array().map(|a| a.as_slice()).unwrap_or(&[]) {
        let d = deviations(a, obs);
        if best.as_ref().map(|b| d.len() < b.len()).unwrap_or(true) {
            best = Some(d);
        }
    }
    best.unwrap_or_else(|| vec![Deviation::new("outcome", 0, "some allowed outcome".into(), "none allowed".into())])
}

// ---------------------------------------------------------------------------
// random scenarios (impl -> spec) and the Rust renderer
// ---------------------------------------------------------------------------

pub const ALL_FILES: [&str; 7] = ["rc1", "rc2", "rc3", "scr", "dscr", "pa", "prof"];

fn file_path(f: &str) -> &'static str {
    match f {
        "rc1" => "/w/rc1",
        "rc2" => "/w/d/rc2",
        "rc3" => "/w/rc3",
        "scr" => "/w/scr",
        "dscr" => "/w/d/scr",
        "pa" => "/w/pathdir/pa",
        _ => "/w/prof",
    }
}

fn rc_text(f: &str) -> &'static str {
    match f {
        "rc1" => "echo \"R1 0=$0 #=$#\"\necho \"-=$-\"\nRCV=r1\n",
        "rc2" => "echo \"R2 1=$1\"\nRCV=r2\n",
        "rc3" => "echo R3\nexit 3\necho R3b\n",
        _ => "echo PROFILE\n",
    }
}

fn item_argv(n: &str) -> Vec<String> {
    let v: Vec<&str> = match n {
        "portable" => vec!["-o", "portable"],
        "rc1" => vec!["--rcfile", "/w/rc1"],
        "rc2" => vec!["--rcfile", "/w/d/rc2"],
        "rc3" => vec!["--rcfile", "/w/rc3"],
        "rcno" => vec!["--rcfile", "/w/norc"],
        "norc" => vec!["--norcfile"],
        "prof" => vec!["--profile", "/w/prof"],
        "noprof" => vec!["--noprofile"],
        other => vec![other],
    };
    v.into_iter().map(String::from).collect()
}

fn trap_action(t: &str) -> &'static str {
    match t {
        "t" => "echo \"T:$?\"",
        "tf" => "echo \"T:$?\"; false",
        "tx" => "echo \"T:$?\"; exit",
        "tfx" => "echo \"T:$?\"; false; exit",
        "tx5" => "echo \"T:$?\"; exit 5",
        "tt" => "echo \"T:$?\"; trap \"echo T2\" EXIT",
        _ => "echo \"T:$?\"; (exit 9)",
    }
}

fn kind_lines(k: &str, src: &str) -> Vec<String> {
    let v: Vec<&str> = match k {
        "true" => vec!["true"],
        "false" => vec!["false"],
        "st7" => vec!["(exit 7)"],
        "echo" => vec!["echo \"L:$?\""],
        "exit" => vec!["exit"],
        "exit3" => vec!["exit 3"],
        "synerr" => vec!["fi"],
        "dot" => vec![". ./nosuchfile"],
        "setbad" => vec!["set -o nosuchoption"],
        "sbredir" => vec![": <./nosuchfile"],
        "asgerr" => vec!["RO=2"],
        "experr" => vec!["echo \"${UNSET?}\""],
        "cmddot" => vec!["command . ./nosuchfile"],
        "redir" => vec!["echo hi <./nosuchfile"],
        "credir" => vec!["{ echo hi; } <./nosuchfile"],
        "notfound" => vec!["./nosuchcmd"],
        "execfail" => vec!["exec ./nosuchcmd"],
        "sig" => vec!["(selfkill)"],
        "kill" => vec!["kill -s TERM $$"],
        "penv" => vec!["printenv a-b"],
        "obs" => vec![
            "echo \"0=$0 #=$# 1=$1 2=$2 rcv=$RCV\"",
            "echo \"-=$-\"",
            if src == "string" { "echo \"P=$PPID O=$OPTIND\"" } else { "echo \"P=$PPID O=$OPTIND L=$LINENO\"" },
            "echo \"1[$PS1] 2[$PS2] 4[$PS4] I[$IFS]\"",
            "echo \"W=$PWD\"",
            "echo \"<<opts\"; set -o; echo \"opts>>\"",
        ],
        _ => vec![],
    };
    v.into_iter().map(String::from).collect()
}

fn prog_lines(prog: &[String], trap: &str, src: &str) -> Vec<String> {
    let mut l = vec![];
    if !trap.is_empty() {
        l.push(format!("trap '{}' EXIT", trap_action(trap)));
    }
    if prog.iter().any(|k| k == "asgerr") {
        l.push("readonly RO=1".to_string());
    }
    for k in prog {
        l.extend(kind_lines(k, src));
    }
    l
}

fn as_file(lines: &[String]) -> String {
    lines.iter().map(|l| format!("{l}\n")).collect()
}

/// The Rust rendering of a scenario (same tables as Startup.tla; Trace_Startup
/// compares `argv`, `stdin` and `script` with the specification's rendering).
pub fn render(sc: &Value) -> (Rendered, String) {
    let opts = strs(&sc["opts"]);
    let ops = strs(&sc["ops"]);
    let prog = strs(&sc["prog"]);
    let trap = sc["trap"].as_str().unwrap_or("");
    let c = opts.iter().any(|o| o == "-c");
    let s = opts.iter().any(|o| o == "-s");
    let src = if c {
        "string"
    } else if s || ops.is_empty() {
        "stdin"
    } else {
        "file"
    };
    let mut argv = vec![sc["a0"].as_str().unwrap_or("yash").to_string()];
    for o in &opts {
        argv.extend(item_argv(o));
    }
    let sep = sc["sep"].as_str().unwrap_or("");
    if !sep.is_empty() {
        argv.push(sep.to_string());
    }
    let string_form = prog_lines(&prog, trap, src).join("\n");
    for o in &ops {
        argv.push(if o == "@P" { string_form.clone() } else { o.clone() });
    }
    let script = as_file(&prog_lines(&prog, trap, "file"));
    let stdin = if src == "stdin" { as_file(&prog_lines(&prog, trap, "stdin")) } else { "echo FROM-STDIN\n".to_string() };
    let files = strs(&sc["files"])
        .iter()
        .map(|f| FileEntry {
            path: file_path(f).to_string(),
            content: if ["scr", "dscr", "pa"].contains(&f.as_str()) { script.clone() } else { rc_text(f).to_string() },
            mode: if f == "pa" { 0o755 } else { 0o644 },
        })
        .collect();
    (
        Rendered {
            argv,
            stdin,
            files,
            env: env_pairs(&sc["env"]),
            tin: sc["tin"].as_bool().unwrap_or(false),
            terr: sc["terr"].as_bool().unwrap_or(false),
            ids: sc["ids"].as_str().unwrap_or("same").to_string(),
        },
        script,
    )
}

fn pick<'a, R: Rng>(rng: &mut R, xs: &[&'a str]) -> &'a str {
    xs.choose(rng).copied().unwrap()
}

/// A random scenario over the whole scenario space of Startup.tla (all
/// dimensions vary at once; option sequences up to 4 items, programs up to 5
/// commands).  Mostly well-formed: the program text is put where the meaning
/// of the options says the shell looks for it.
pub fn random_scenario<R: Rng>(rng: &mut R) -> Value {
    const SHELL_ITEMS: [&str; 11] = ["-c", "-s", "-i", "+i", "-m", "+m", "-e", "-l", "-a", "--posixlycorrect", "portable"];
    const RC_ITEMS: [&str; 7] = ["rc1", "rc2", "rc3", "rcno", "norc", "prof", "noprof"];
    const KINDS: [&str; 19] = [
        "true", "false", "st7", "echo", "exit", "exit3", "synerr", "dot", "setbad", "sbredir", "asgerr", "experr", "cmddot",
        "redir", "credir", "notfound", "execfail", "sig", "kill",
    ];
    const SAFE: [&str; 6] = ["true", "false", "st7", "echo", "notfound", "sig"];
    const ENVV: [&str; 7] = ["", "/w/rc1", "$RCD/rc2", "${NORC-/w/rc1}", "/w/rc$((1+2))", "/w/norc", "${RCD}/rc2"];
    let a0 = pick(rng, &["yash", "yash", "-yash", "sh", "/x/sh", "/x/yash"]);
    let mut opts: Vec<String> = vec![];
    let n = rng.gen_range(0..=4);
    for _ in 0..n {
        let r = rng.gen_range(0..100);
        let it = if r < 70 {
            pick(rng, &SHELL_ITEMS)
        } else if r < 96 {
            pick(rng, &RC_ITEMS)
        } else {
            pick(rng, &["-Z", "--bogus"])
        };
        // keep -c and -s together rare, and `portable` rare (it turns most lines into usage errors)
        if (it == "-s" && opts.iter().any(|o| o == "-c") || it == "-c" && opts.iter().any(|o| o == "-s")) && rng.gen_range(0..10) > 0 {
            continue;
        }
        if it == "portable" && rng.gen_range(0..3) > 0 {
            continue;
        }
        opts.push(it.to_string());
    }
    let c = opts.iter().any(|o| o == "-c");
    let s = opts.iter().any(|o| o == "-s");
    let extras: Vec<String> = {
        let all = ["x", "y z", "w", ""];
        let k = rng.gen_range(0..=3);
        (0..k).map(|_| pick(rng, &all).to_string()).collect()
    };
    let mut ops: Vec<String> = vec![];
    if c {
        if rng.gen_range(0..25) > 0 {
            ops.push("@P".into());
            ops.extend(extras);
        }
    } else if s {
        ops.extend(extras);
    } else if rng.gen_range(0..3) > 0 {
        ops.push(pick(rng, &["scr", "scr", "d/scr", "d/scr", "./scr", "pa", "nos", "d/nos"]).to_string());
        ops.extend(extras);
    }
    let sep = pick(rng, &["", "", "", "-", "--"]);
    let tty = rng.gen_range(0..4);
    let (tin, terr) = match tty {
        0 => (false, false),
        1 => (true, true),
        2 => (true, false),
        _ => (false, true),
    };
    let ids = pick(rng, &["same", "same", "same", "same", "uid", "gid"]);
    let mut env: Vec<Value> = vec![];
    if rng.gen_range(0..2) == 0 {
        env.push(json!(["RCD", "/w/d"]));
        if rng.gen_range(0..6) == 0 {
            env.push(json!(["NORC", "/w/d/rc2"]));
        }
        env.push(json!(["ENV", pick(rng, &ENVV)]));
    }
    for (n, v) in [("PS1", "P1>"), ("PS2", "P2>"), ("PS4", "P4>"), ("IFS", ":"), ("PPID", "99999"), ("OPTIND", "7"), ("a-b", "1")] {
        if rng.gen_range(0..5) == 0 {
            env.push(json!([n, v]));
        }
    }
    let files: Vec<&str> = ALL_FILES.iter().copied().filter(|_| rng.gen_range(0..8) > 0).collect();
    let errexit = opts.iter().any(|o| o == "-e");
    let len = rng.gen_range(0..=5);
    let mut prog: Vec<String> = vec![];
    let mut has_obs = false;
    for _ in 0..len {
        let r = rng.gen_range(0..10);
        let k = if r < 2 && !has_obs {
            has_obs = true;
            "obs"
        } else if r == 2 {
            "penv"
        } else if errexit {
            pick(rng, &SAFE)
        } else {
            pick(rng, &KINDS)
        };
        prog.push(k.to_string());
    }
    let trap = pick(rng, &["", "", "t", "tf", "tx", "tfx", "tx5", "tt", "te"]);
    json!({"a0": a0, "opts": opts, "sep": sep, "ops": ops, "tin": tin, "terr": terr, "ids": ids, "env": env,
           "files": files, "prog": prog, "trap": trap})
}
