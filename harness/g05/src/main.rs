//! Conformance harness for specification-growth module G05 (the `read`
//! built-in), see spec/ReadBuiltin.tla.
//!
//! `yv-g05 replay --in GEN.ndjson --out MISMATCHES.ndjson --sample SAMPLE.ndjson [--threads T] [--feeds pipe]`
//!     spec -> impl: every line of GEN is an input printed by Gen_ReadBuiltin
//!     with the fan of cases (raw mode x IFS x variable operands) and what the
//!     specification demands of each.  Every case is run by the real shell on
//!     the simulated OS with the input on descriptor 0 as a regular file, as a
//!     pipe filled in chunks and (where the input can be one) as a
//!     here-document; status, variables and the rest of descriptor 0 are
//!     compared.  Every 211th observation is also written to SAMPLE in the
//!     record format of `random`, for TLC to judge (cross-check of the
//!     comparison done here).
//! `yv-g05 random --n N --out TRACE.ndjson [--threads T]`
//!     impl -> spec: N seeded random scenarios (longer inputs, more IFS values,
//!     delimiters, up to five variables); observations for Trace_ReadBuiltin.
//! `yv-g05 one --in SCEN.json --out TRACE.ndjson [--show]`
//!     one scenario, same record as `random`.
mod run;

use rand::rngs::StdRng;
use rand::{Rng, SeedableRng};
use run::{Case, Feed, NVARS, OLD, Obs};
use serde_json::{Value, json};
use std::collections::BTreeMap;
use std::io::{BufRead, Write};
use std::sync::Mutex;
use yvcommon::util::{self, opt, opt_usize};

fn strs(v: &Value) -> Vec<String> {
    v.as_array().map(|a| a.iter().map(|x| x.as_str().unwrap_or("").to_string()).collect()).unwrap_or_default()
}

#[derive(Default)]
struct Stats {
    lines: usize,
    cases: usize,
    runs: usize,
    mismatches: usize,
    nontrivial: usize,
    by_class: BTreeMap<String, usize>,
    by_fam: BTreeMap<String, usize>,
    by_feed: BTreeMap<String, usize>,
    features: BTreeMap<String, usize>,
}

impl Stats {
    fn merge(&mut self, o: Stats) {
        self.lines += o.lines;
        self.cases += o.cases;
        self.runs += o.runs;
        self.mismatches += o.mismatches;
        self.nontrivial += o.nontrivial;
        for (a, b) in [
            (&mut self.by_class, o.by_class),
            (&mut self.by_fam, o.by_fam),
            (&mut self.by_feed, o.by_feed),
            (&mut self.features, o.features),
        ] {
            for (k, v) in b {
                *a.entry(k).or_default() += v;
            }
        }
    }
    fn json(&self) -> Value {
        json!({"lines": self.lines, "cases": self.cases, "shell_runs": self.runs, "mismatches": self.mismatches,
               "nontrivial": self.nontrivial, "by_class": self.by_class, "by_family": self.by_fam,
               "by_feed": self.by_feed, "features": self.features})
    }
}

fn status_ok(st: &str, s: i32) -> bool {
    match st {
        "0" => s == 0,
        "1" => s == 1,
        "E" => (2..=255).contains(&s),
        _ => (0..=255).contains(&s),
    }
}

/// The comparison ReadBuiltin!Conforms, on what Gen_ReadBuiltin printed.
fn conforms(e: &Value, vk: &str, o: &Obs) -> &'static str {
    let n = vk.chars().count();
    let class = e["c"].as_str().unwrap_or("");
    let operand = |i: usize| i < n && vk.as_bytes()[i] != b'b';
    if !o.done {
        return "outcome";
    }
    if !status_ok(e["s"].as_str().unwrap_or(""), o.st) {
        return "status";
    }
    if !(o.used >= e["lo"].as_i64().unwrap_or(0) && o.used <= e["hi"].as_i64().unwrap_or(-1)) || (o.mid && class != "open") {
        return "consumed";
    }
    if (0..NVARS).any(|i| !operand(i) && !(o.set[i] && o.vals[i] == OLD)) {
        return "other-variables";
    }
    if class == "ok" {
        if (0..n).any(|i| !o.set[i]) {
            return "unset";
        }
        let got: Vec<String> = o.vals[..n].to_vec();
        if !e["o"].as_array().map(|a| a.iter().any(|t| strs(t) == got)).unwrap_or(false) {
            return "values";
        }
    }
    if class == "ronly" && (0..n).any(|i| vk.as_bytes()[i] == b'r' && !(o.set[i] && o.vals[i] == OLD)) {
        return "readonly-changed";
    }
    "ok"
}

fn ifs_of(table: &Value, idx: usize) -> Option<String> {
    let e = &table[idx - 1];
    if e["set"].as_bool().unwrap_or(false) { Some(e["v"].as_str().unwrap_or("").to_string()) } else { None }
}

fn ifs_json(ifs: &Option<String>) -> Value {
    json!({"set": ifs.is_some(), "v": ifs.clone().unwrap_or_default()})
}

fn obs_json(vk: &str, o: &Obs) -> Value {
    let n = vk.chars().count();
    let operand = |i: usize| i < n && vk.as_bytes()[i] != b'b';
    let oth = (0..NVARS).all(|i| operand(i) || (o.set.get(i) == Some(&true) && o.vals[i] == OLD));
    json!({"done": o.done, "st": o.st, "vals": o.vals[..n.min(o.vals.len())], "set": o.set[..n.min(o.set.len())],
           "pre": OLD, "oth": oth, "used": o.used, "mid": o.mid})
}

fn record(c: &Case, toks: &[String], o: &Obs) -> Value {
    json!({"d": c.d, "raw": c.raw, "ifs": ifs_json(&c.ifs), "k": c.vk, "inp": toks, "feed": c.feed.name(),
           "obs": obs_json(&c.vk, o)})
}

fn hash(toks: &[String], salt: u64) -> u64 {
    let mut h: u64 = 0xcbf2_9ce4_8422_2325 ^ salt.wrapping_mul(0x9e37_79b9_7f4a_7c15);
    for t in toks {
        for b in t.bytes() {
            h = (h ^ b as u64).wrapping_mul(0x1000_0000_01b3);
        }
        h = (h ^ 0xff).wrapping_mul(0x1000_0000_01b3);
    }
    h
}

const CHUNKS: [usize; 4] = [1, 0, 2, 3];

/// spec -> impl for one line of Gen_ReadBuiltin.
fn replay_line(g: &Value, st: &mut Stats, sample: &mut Vec<Value>, pipe_only: bool) -> Vec<Value> {
    let fam = g["fam"].as_str().unwrap().to_string();
    let d = g["d"].as_str().unwrap().to_string();
    let toks = strs(&g["inp"]);
    let exps = g["cases"].as_array().unwrap();
    let h = hash(&toks, util::seed());
    let here = run::here_ok(&toks);
    st.lines += 1;
    *st.by_fam.entry(fam.clone()).or_default() += 1;

    // the batch: every case with every feed
    let mut cases: Vec<Case> = Vec::new();
    let mut which: Vec<usize> = Vec::new();
    for (j, e) in exps.iter().enumerate() {
        let base = Case {
            raw: e["r"].as_bool().unwrap(),
            d: d.clone(),
            ifs: ifs_of(&g["ifs"], e["f"].as_u64().unwrap() as usize),
            vk: e["k"].as_str().unwrap().to_string(),
            feed: Feed::File,
        };
        let mut feeds = if fam == "noin" {
            vec![Feed::Closed]
        } else if pipe_only {
            // stage of C14: the input arrives through a pipe only, in chunks of
            // 1, 2 and 3 bytes (every way a short read can split a character)
            vec![Feed::Pipe(1), Feed::Pipe(2), Feed::Pipe(3)]
        } else {
            vec![Feed::File, Feed::Pipe(CHUNKS[((h as usize) + j) % CHUNKS.len()])]
        };
        if here && fam != "noin" && !pipe_only {
            feeds.push(Feed::Here);
        }
        for f in feeds {
            cases.push(Case { feed: f, ..base.clone() });
            which.push(j);
        }
    }
    let sched = if h % 3 == 0 { Some(h >> 8) } else { None };
    let obs = run::run_cases(&cases, &toks, sched, &mut st.runs);
    let mut out = Vec::new();
    let mut reported = vec![false; exps.len()];
    for (i, o) in obs.iter().enumerate() {
        let e = &exps[which[i]];
        let c = &cases[i];
        st.cases += 1;
        let class = e["c"].as_str().unwrap_or("");
        *st.by_class.entry(class.to_string()).or_default() += 1;
        *st.by_feed.entry(c.feed.name()).or_default() += 1;
        if c.feed == Feed::File {
            for t in strs(&e["t"]) {
                *st.features.entry(format!("scan/{t}")).or_default() += 1;
            }
            if class == "ok" {
                let n = c.vk.len() as u64;
                let m = e["m"].as_u64().unwrap_or(0);
                let rel = if m < n { "fields<vars" } else if m == n { "fields=vars" } else { "fields>vars" };
                *st.features.entry(format!("assign/{rel}")).or_default() += 1;
                *st.features.entry(format!("status/{}", e["s"].as_str().unwrap_or(""))).or_default() += 1;
                if e["o"].as_array().map(|a| a.len() > 1).unwrap_or(false) {
                    *st.features.entry("assign/two-allowed".into()).or_default() += 1;
                }
                if c.raw {
                    *st.features.entry("opt/-r".into()).or_default() += 1;
                }
                if c.d != "none" {
                    *st.features.entry("opt/-d".into()).or_default() += 1;
                }
            }
        }
        if class == "ok" && !toks.is_empty() {
            st.nontrivial += 1;
        }
        if (h as usize).wrapping_add(i * 7919) % 211 == 0 {
            sample.push(record(c, &toks, o));
        }
        let v = conforms(e, &c.vk, o);
        if v != "ok" {
            st.mismatches += 1;
            if reported[which[i]] {
                continue;
            }
            reported[which[i]] = true;
            let key = json!({"dir": "spec->impl", "symptom": v, "d": c.d, "raw": c.raw,
                             "ifs": c.ifs.clone().unwrap_or_else(|| "<unset>".into()), "vars": c.vk,
                             "inp": toks.join("|")});
            let detail = format!(
                "read: {v} differ from what ReadBuiltin.tla allows (feed {}): class {class}, expected status {} values {} consumed {}..{}; observed {} status {} values {:?} set {:?} consumed {} left {:?}; command: {}",
                c.feed.name(),
                e["s"],
                e["o"],
                e["lo"],
                e["hi"],
                o.outcome,
                o.st,
                o.vals,
                o.set,
                o.used,
                String::from_utf8_lossy(&o.rest),
                run::case_command(c, 0, &String::from_utf8_lossy(&run::input_bytes(&toks).0)),
            );
            out.push(json!({"key": key, "detail": detail, "rec": record(c, &toks, o)}));
        }
    }
    out
}

// ---------------------------------------------------------------------------
// random scenarios
// ---------------------------------------------------------------------------

struct Scen {
    case: Case,
    toks: Vec<String>,
}

fn pick<'a, R: Rng>(rng: &mut R, items: &[(&'a str, u32)]) -> &'a str {
    let total: u32 = items.iter().map(|x| x.1).sum();
    let mut r = rng.gen_range(0..total);
    for (s, w) in items {
        if r < *w {
            return s;
        }
        r -= w;
    }
    items[0].0
}

fn random_scen(rng: &mut StdRng) -> Scen {
    let d = pick(rng, &[("none", 50), (":", 12), ("", 10), ("\\", 5), (" ", 5), ("a", 5), ("\n", 5), ("W2", 1), ("ab", 1)]);
    let raw = rng.gen_range(0..10) < 4;
    let ifs = match rng.gen_range(0..10) {
        0 | 1 => None,
        2 => Some(String::new()),
        _ => {
            let n = rng.gen_range(1..=3);
            let mut s = String::new();
            for _ in 0..n {
                let c = pick(rng, &[(" ", 4), ("\t", 2), ("\n", 2), (":", 4), ("-", 2), ("\\", 2), ("a", 1)]);
                if !s.contains(c) {
                    s.push_str(c);
                }
            }
            Some(s)
        }
    };
    let vk: String = match rng.gen_range(0..40) {
        0 => String::new(),
        1 | 2 => {
            let n = rng.gen_range(1..=3);
            (0..n).map(|_| *["o", "r", "b"].get(rng.gen_range(0..3)).unwrap()).collect()
        }
        _ => "o".repeat(rng.gen_range(1..=NVARS)),
    };
    let odd = rng.gen_range(0..100) < 4; // NUL / ill-formed bytes allowed
    let len = match rng.gen_range(0..10) {
        0 => rng.gen_range(0..4),
        1..=6 => rng.gen_range(4..14),
        _ => rng.gen_range(14..28),
    };
    let mut toks = Vec::new();
    for _ in 0..len {
        let t = pick(
            rng,
            &[("a", 10), ("b", 6), ("c", 3), ("x", 2), (" ", 12), ("\t", 3), (":", 8), ("-", 3), ("\\", 12), ("\n", if d == "none" { 4 } else { 8 }),
              ("W2", 3), ("W3", 2), ("NUL", if odd || d.is_empty() { 4 } else { 0 }), ("BAD", if odd { 2 } else { 0 }),
              ("CUT", if odd { 2 } else { 0 })],
        );
        toks.push(t.to_string());
    }
    if rng.gen_range(0..3) > 0 && d == "none" {
        toks.push("\n".into());
    }
    let feed = match rng.gen_range(0..20) {
        0..=6 => Feed::File,
        7..=15 => Feed::Pipe(*[0usize, 1, 1, 2, 3, 5].get(rng.gen_range(0..6)).unwrap()),
        19 if rng.gen_range(0..8) == 0 => Feed::Closed,
        _ => {
            if run::here_ok(&toks) {
                Feed::Here
            } else {
                Feed::File
            }
        }
    };
    Scen { case: Case { raw, d: d.to_string(), ifs, vk, feed }, toks }
}

fn record_of(sc: &Scen, st: &mut Stats) -> Value {
    let h = hash(&sc.toks, util::seed());
    let sched = if h % 2 == 0 { Some(h >> 8) } else { None };
    let obs = run::run_cases(std::slice::from_ref(&sc.case), &sc.toks, sched, &mut st.runs);
    st.cases += 1;
    *st.by_feed.entry(sc.case.feed.name()).or_default() += 1;
    record(&sc.case, &sc.toks, &obs[0])
}

fn scen_from_json(v: &Value) -> Scen {
    let ifs = if v["ifs"]["set"].as_bool().unwrap_or(false) { Some(v["ifs"]["v"].as_str().unwrap_or("").to_string()) } else { None };
    Scen {
        case: Case {
            raw: v["raw"].as_bool().unwrap_or(false),
            d: v["d"].as_str().unwrap_or("none").to_string(),
            ifs,
            vk: v["k"].as_str().unwrap_or("o").to_string(),
            feed: Feed::parse(v["feed"].as_str().unwrap_or("file")),
        },
        toks: strs(&v["inp"]),
    }
}

// ---------------------------------------------------------------------------

fn open_out_send(p: &str) -> Mutex<Box<dyn Write + Send>> {
    Mutex::new(Box::new(std::io::BufWriter::with_capacity(1 << 20, std::fs::File::create(p).expect("create output"))))
}

fn write_values(out: &Mutex<Box<dyn Write + Send>>, vs: &[Value]) {
    if vs.is_empty() {
        return;
    }
    let mut buf = Vec::new();
    for v in vs {
        buf.extend_from_slice(v.to_string().as_bytes());
        buf.push(b'\n');
    }
    out.lock().unwrap().write_all(&buf).unwrap();
}

fn main() {
    let args: Vec<String> = std::env::args().skip(1).collect();
    let threads = opt_usize(&args, "--threads", 8).max(1);
    util::quiet_panics();
    match args.first().map(|s| s.as_str()) {
        Some("replay") => {
            let input = Mutex::new(std::io::BufReader::with_capacity(
                1 << 20,
                std::fs::File::open(opt(&args, "--in").expect("--in")).expect("open --in"),
            ));
            let out = open_out_send(opt(&args, "--out").expect("--out"));
            let sample = open_out_send(opt(&args, "--sample").expect("--sample"));
            let total = Mutex::new(Stats::default());
            // `--feeds pipe`: pipe feeds only (chunks of 1, 2 and 3 bytes for every case)
            let pipe_only = opt(&args, "--feeds") == Some("pipe");
            std::thread::scope(|s| {
                for _ in 0..threads {
                    s.spawn(|| {
                        util::quiet_panics();
                        let mut st = Stats::default();
                        loop {
                            let mut batch: Vec<String> = Vec::new();
                            {
                                let mut r = input.lock().unwrap();
                                for _ in 0..32 {
                                    let mut l = String::new();
                                    if r.read_line(&mut l).expect("read --in") == 0 {
                                        break;
                                    }
                                    if !l.trim().is_empty() {
                                        batch.push(l);
                                    }
                                }
                            }
                            if batch.is_empty() {
                                break;
                            }
                            let mut mism = Vec::new();
                            let mut smp = Vec::new();
                            for l in &batch {
                                let g: Value = serde_json::from_str(l).expect("json line of Gen_ReadBuiltin");
                                mism.extend(replay_line(&g, &mut st, &mut smp, pipe_only));
                            }
                            write_values(&out, &mism);
                            write_values(&sample, &smp);
                        }
                        total.lock().unwrap().merge(st);
                    });
                }
            });
            out.lock().unwrap().flush().unwrap();
            sample.lock().unwrap().flush().unwrap();
            println!("{}", total.into_inner().unwrap().json());
        }
        Some("random") => {
            let n = opt_usize(&args, "--n", 1000);
            let mut rng = StdRng::seed_from_u64(util::seed().wrapping_mul(0x9e37_79b9).wrapping_add(505));
            let items: Vec<Scen> = (0..n).map(|_| random_scen(&mut rng)).collect();
            let out = open_out_send(opt(&args, "--out").expect("--out"));
            let next = std::sync::atomic::AtomicUsize::new(0);
            let total = Mutex::new(Stats::default());
            // records are written in scenario order per block; order does not matter to the validation
            std::thread::scope(|s| {
                for _ in 0..threads {
                    s.spawn(|| {
                        util::quiet_panics();
                        let mut st = Stats::default();
                        loop {
                            let i = next.fetch_add(64, std::sync::atomic::Ordering::Relaxed);
                            if i >= items.len() {
                                break;
                            }
                            let recs: Vec<Value> =
                                items[i..(i + 64).min(items.len())].iter().map(|sc| record_of(sc, &mut st)).collect();
                            write_values(&out, &recs);
                        }
                        total.lock().unwrap().merge(st);
                    });
                }
            });
            out.lock().unwrap().flush().unwrap();
            println!("{}", total.into_inner().unwrap().json());
        }
        Some("one") => {
            let p = opt(&args, "--in").expect("--in");
            let v: Value = serde_json::from_str(&std::fs::read_to_string(p).expect("read --in")).expect("json");
            let sc = scen_from_json(if v.get("rec").is_some() { &v["rec"] } else { &v });
            let mut st = Stats::default();
            let rec = record_of(&sc, &mut st);
            let mut out = util::open_out(&args);
            writeln!(out, "{rec}").unwrap();
            if args.iter().any(|a| a == "--show") {
                eprintln!("{}", run::script_of(std::slice::from_ref(&sc.case), &sc.toks));
                eprintln!("{rec}");
            }
        }
        _ => {
            eprintln!("usage: yv-g05 replay|random|one ...");
            std::process::exit(2);
        }
    }
}
