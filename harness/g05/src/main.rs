//! Conformance harness for specification-growth module g05 (see /verif/DESIGN.md 12.6).
fn main() {
    eprintln!("yv-g05: not implemented yet");
    std::process::exit(2);
}
