//! Running `read` cases in the REAL shell on the simulated OS.
//!
//! One shell run executes a batch of cases that share the same input bytes.
//! Every case is one command of the script:
//!
//! ```text
//! ( v1=OLD .. v5=OLD; [readonly vK;] IFS=..|unset IFS; read [-r] [-d X] names..; after K ) </tmp/in
//! feed C | { ...; after K; }
//! ( ...; after K ) <<\G05EOF
//! ( ...; after K ) <&-
//! ```
//!
//! `after K` (registered through `ShellCfg.setup`) records the exit status of
//! `read`, the variables v1..v5 and every byte still readable on descriptor 0;
//! `feed C` writes the input into the pipe in chunks of C bytes (0 = at once),
//! sleeping in virtual time between chunks so that the reader runs dry and
//! blocks in the middle of the line.
use std::cell::RefCell;
use std::pin::Pin;
use std::time::Duration;
use yash_env::builtin::{Builtin, Result as BResult, Type};
use yash_env::io::Fd;
use yash_env::semantics::{ExitStatus, Field};
use yash_env::system::concurrency::{ReadAll as _, Sleep as _, WriteAll as _};
use yash_env::variable::Value as VarValue;
use yvcommon::sched::{Outcome, Schedule};
use yvcommon::shell::{FileSpec, ShellCfg, VEnv, run_shell};
use yvcommon::util::catch;

pub const NVARS: usize = 5;
pub const OLD: &str = "OLD";

// ---------------------------------------------------------------------------
// tokens
// ---------------------------------------------------------------------------

pub fn tok_bytes(t: &str) -> Vec<u8> {
    match t {
        "NUL" => vec![0],
        "W2" => "\u{e9}".as_bytes().to_vec(),
        "W3" => "\u{3042}".as_bytes().to_vec(),
        "W4" => "\u{1f600}".as_bytes().to_vec(),
        "BAD" => vec![0xff],
        "CUT" => vec![0xc3],
        _ => t.as_bytes().to_vec(),
    }
}

/// Bytes of a token sequence and the byte offset of every token boundary
/// (`bounds[i]` = offset after `i` tokens).
pub fn input_bytes(toks: &[String]) -> (Vec<u8>, Vec<usize>) {
    let mut b = Vec::new();
    let mut bounds = vec![0];
    for t in toks {
        b.extend(tok_bytes(t));
        bounds.push(b.len());
    }
    (b, bounds)
}

/// A value of the shell in the spelling of the specification.
pub fn enc_val(s: &str) -> String {
    s.replace('\u{e9}', "W2").replace('\u{3042}', "W3").replace('\u{1f600}', "W4")
}

/// The operand of -d / a token as it is written in the script.
pub fn dec_text(s: &str) -> String {
    s.replace("W2", "\u{e9}").replace("W3", "\u{3042}").replace("W4", "\u{1f600}")
}

// ---------------------------------------------------------------------------
// cases
// ---------------------------------------------------------------------------

#[derive(Clone, Debug, PartialEq, Eq)]
pub enum Feed {
    File,
    /// chunk size (0 = whole input in one write)
    Pipe(usize),
    Here,
    /// descriptor 0 closed
    Closed,
}

impl Feed {
    pub fn name(&self) -> String {
        match self {
            Feed::File => "file".into(),
            Feed::Pipe(c) => format!("pipe{c}"),
            Feed::Here => "here".into(),
            Feed::Closed => "closed".into(),
        }
    }
    pub fn parse(s: &str) -> Feed {
        match s {
            "file" => Feed::File,
            "here" => Feed::Here,
            "closed" => Feed::Closed,
            _ => Feed::Pipe(s.strip_prefix("pipe").and_then(|c| c.parse().ok()).unwrap_or(0)),
        }
    }
}

#[derive(Clone, Debug)]
pub struct Case {
    pub raw: bool,
    /// "none" or the operand of -d (specification spelling)
    pub d: String,
    /// None = unset
    pub ifs: Option<String>,
    /// kinds of the variable operands: o ordinary, r read-only, b invalid name
    pub vk: String,
    pub feed: Feed,
}

/// Can the input be the body of a here-document with a quoted delimiter?
pub fn here_ok(toks: &[String]) -> bool {
    !toks.is_empty()
        && toks.last().map(|t| t == "\n").unwrap_or(false)
        && toks.iter().all(|t| !matches!(t.as_str(), "NUL" | "BAD" | "CUT"))
}

fn sq(s: &str) -> String {
    // no test value contains a single quote
    format!("'{s}'")
}

pub fn case_command(c: &Case, k: usize, input_text: &str) -> String {
    let mut body = String::new();
    for i in 1..=NVARS {
        body.push_str(&format!("v{i}={OLD} "));
    }
    body.push(';');
    for (i, kind) in c.vk.chars().enumerate() {
        if kind == 'r' {
            body.push_str(&format!(" readonly v{};", i + 1));
        }
    }
    match &c.ifs {
        None => body.push_str(" unset IFS;"),
        Some(v) => body.push_str(&format!(" IFS={};", sq(v))),
    }
    body.push_str(" read");
    if c.raw {
        body.push_str(" -r");
    }
    if c.d != "none" {
        body.push_str(&format!(" -d {}", sq(&dec_text(&c.d))));
    }
    for (i, kind) in c.vk.chars().enumerate() {
        if kind == 'b' {
            body.push_str(&format!(" v{}=x", i + 1));
        } else {
            body.push_str(&format!(" v{}", i + 1));
        }
    }
    body.push_str(&format!("; after {k}"));
    match &c.feed {
        Feed::File => format!("({body}) </tmp/in"),
        Feed::Pipe(ch) => format!("feed {ch} | {{ {body}; }}"),
        Feed::Here => format!("({body}) <<\\G05EOF\n{input_text}G05EOF"),
        Feed::Closed => format!("({body}) <&-"),
    }
}

#[derive(Clone, Debug, Default)]
pub struct Obs {
    /// the run completed and the case reached its `after`
    pub done: bool,
    pub outcome: String,
    pub st: i32,
    /// v1..v5 in the spelling of the specification ("" when unset)
    pub vals: Vec<String>,
    pub set: Vec<bool>,
    /// tokens missing (wholly or partly) from descriptor 0 afterwards; -1: what is left is not a suffix of the input
    pub used: i64,
    /// the first token left is only partly there (some of the bytes of a multi-byte character were consumed)
    pub mid: bool,
    pub rest: Vec<u8>,
}

struct AfterRec {
    k: usize,
    st: i32,
    vals: Vec<Option<String>>,
    rest: Vec<u8>,
}

thread_local! {
    static INPUT: RefCell<Vec<u8>> = const { RefCell::new(Vec::new()) };
    static AFTER: RefCell<Vec<AfterRec>> = const { RefCell::new(Vec::new()) };
}

fn after_main(env: &mut VEnv, args: Vec<Field>) -> Pin<Box<dyn Future<Output = BResult> + '_>> {
    Box::pin(async move {
        let st = env.exit_status.0;
        let k = args.first().and_then(|f| f.value.parse::<usize>().ok()).unwrap_or(usize::MAX);
        let vals = (1..=NVARS)
            .map(|i| match env.variables.get(&format!("v{i}")).and_then(|v| v.value.clone()) {
                Some(VarValue::Scalar(s)) => Some(s),
                Some(VarValue::Array(a)) => Some(format!("!ARRAY{a:?}")),
                None => None,
            })
            .collect();
        let rest = match env.system.read_all(Fd::STDIN).await {
            Ok(d) => d,
            Err(e) => format!("!{e:?}").into_bytes(),
        };
        AFTER.with(|a| a.borrow_mut().push(AfterRec { k, st, vals, rest }));
        BResult::new(ExitStatus(st))
    })
}

fn feed_main(env: &mut VEnv, args: Vec<Field>) -> Pin<Box<dyn Future<Output = BResult> + '_>> {
    Box::pin(async move {
        let chunk = args.first().and_then(|f| f.value.parse::<usize>().ok()).unwrap_or(0);
        let data = INPUT.with(|i| i.borrow().clone());
        let size = if chunk == 0 { data.len().max(1) } else { chunk };
        let mut first = true;
        for piece in data.chunks(size) {
            if !first {
                env.system.sleep(Duration::from_millis(10)).await;
            }
            first = false;
            if env.system.write_all(Fd::STDOUT, piece).await.is_err() {
                return BResult::new(ExitStatus(1));
            }
        }
        BResult::new(ExitStatus(0))
    })
}

fn outcome_name(o: &Outcome) -> String {
    match o {
        Outcome::Completed => "completed".into(),
        Outcome::Deadlock => "deadlock".into(),
        Outcome::StepLimit => "steplimit".into(),
        Outcome::Panic(m) => format!("panic: {m}"),
    }
}

/// The script of a batch.
pub fn script_of(cases: &[Case], toks: &[String]) -> String {
    let (bytes, _) = input_bytes(toks);
    let text = String::from_utf8_lossy(&bytes).into_owned();
    let mut s = String::new();
    for (k, c) in cases.iter().enumerate() {
        s.push_str(&case_command(c, k, &text));
        s.push('\n');
    }
    s
}

/// One shell run for all `cases` over the same input.
fn run_batch(cases: &[Case], toks: &[String], sched: Option<u64>) -> (String, Vec<Option<Obs>>) {
    let (bytes, bounds) = input_bytes(toks);
    let script = script_of(cases, toks);
    let mut cfg = ShellCfg::command(&script);
    cfg.step_limit = 400_000 + 20_000 * cases.len();
    if let Some(seed) = sched {
        cfg.schedule = Schedule::Random(seed);
    }
    cfg.files.push(FileSpec::Regular { path: "/tmp/in".into(), content: bytes.clone(), mode: 0o644 });
    cfg.setup = Some(Box::new(|env: &mut VEnv, state| {
        state.borrow_mut().now = Some(std::time::Instant::now());
        env.builtins.insert("after", Builtin::new(Type::Mandatory, after_main));
        env.builtins.insert("feed", Builtin::new(Type::Mandatory, feed_main));
    }));
    INPUT.with(|i| *i.borrow_mut() = bytes.clone());
    AFTER.with(|a| a.borrow_mut().clear());
    let outcome = match catch(|| run_shell(cfg)) {
        Ok(r) => {
            let o = outcome_name(&r.outcome);
            // break the scheduler/state cycle (see tooling notes)
            let ex = r.state.borrow_mut().executor.take();
            drop(ex);
            o
        }
        Err(m) => format!("panic: {m}"),
    };
    let recs = AFTER.with(|a| std::mem::take(&mut *a.borrow_mut()));
    let mut out: Vec<Option<Obs>> = vec![None; cases.len()];
    for r in recs {
        if r.k >= cases.len() || out[r.k].is_some() {
            continue;
        }
        let off = bytes.len() as i64 - r.rest.len() as i64;
        let (used, mid) = if cases[r.k].feed == Feed::Closed {
            // nothing to consume on a closed descriptor (`after` got an error as well)
            (if r.rest.starts_with(b"!") { 0 } else { -1 }, false)
        } else if off >= 0 && bytes[off as usize..] == r.rest[..] {
            let p = bounds.iter().position(|&b| b as i64 >= off).unwrap();
            (p as i64, bounds[p] as i64 != off)
        } else {
            (-1, false)
        };
        out[r.k] = Some(Obs {
            done: true,
            outcome: "completed".into(),
            st: r.st,
            vals: r.vals.iter().map(|v| v.as_deref().map(enc_val).unwrap_or_default()).collect(),
            set: r.vals.iter().map(|v| v.is_some()).collect(),
            used,
            mid,
            rest: r.rest,
        });
    }
    (outcome, out)
}

/// Observations of all cases.  When the batch does not complete, every case is
/// run again on its own so that the failure is attributed to the right one.
/// `sched`: seed of a random schedule of the simulated processes (None: first-in first-out).
pub fn run_cases(cases: &[Case], toks: &[String], sched: Option<u64>, runs: &mut usize) -> Vec<Obs> {
    let (outcome, obs) = run_batch(cases, toks, sched);
    *runs += 1;
    if outcome == "completed" && obs.iter().all(|o| o.is_some()) {
        return obs.into_iter().map(|o| o.unwrap()).collect();
    }
    if cases.len() == 1 {
        let o = obs.into_iter().next().unwrap();
        return vec![match o {
            Some(mut o) if outcome != "completed" => {
                o.done = false;
                o.outcome = outcome;
                o
            }
            Some(o) => o,
            None => Obs {
                done: false,
                outcome: if outcome == "completed" { "no-after-event".into() } else { outcome },
                used: -1,
                vals: vec![String::new(); NVARS],
                set: vec![false; NVARS],
                ..Default::default()
            },
        }];
    }
    cases.iter().map(|c| run_cases(std::slice::from_ref(c), toks, sched, runs).pop().unwrap()).collect()
}
