//! Conformance harness for property C19 (simulated OS vs real OS), see
//! /verif/DESIGN.md section 6 and spec/Kernel.tla.
mod calls;
mod scripts;

fn main() {
    // children first: the mirror / true-entry-point shell of yvcommon::real and
    // the batch child of the system-call level replay
    yvcommon::real::maybe_child_main();
    if std::env::var("YV_C19_CHILD").as_deref() == Ok("calls") {
        // SAFETY: single-threaded at this point
        unsafe { std::env::remove_var("YV_C19_CHILD") };
        calls::batch_child_main();
    }
    let args: Vec<String> = std::env::args().collect();
    if args.len() < 2 {
        eprintln!("usage: yv-c19 <replay|random|scripts|redo> ...");
        std::process::exit(2);
    }
    yvcommon::util::quiet_panics();
    let rest = &args[2..];
    let code = match args[1].as_str() {
        "replay" => calls::replay(rest),
        "random" => calls::random(rest),
        "redo" => calls::redo(rest),
        "scripts" => scripts::scripts(rest),
        other => {
            eprintln!("unknown subcommand {other}");
            2
        }
    };
    std::process::exit(code);
}
