//! Conformance harness for property C19, see /verif/DESIGN.md.
fn main() {
    eprintln!("yv-c19: not implemented yet");
    std::process::exit(2);
}
