//! Conformance harness for specification-growth module g11 (see /verif/DESIGN.md 12.6).
fn main() {
    eprintln!("yv-g11: not implemented yet");
    std::process::exit(2);
}
