//! Conformance harness for specification-growth module G11 (command prompts
//! and what an interactive shell writes around the lines it reads), see
//! spec/Prompt.tla.
//!
//! `yv-g11 replay --in GEN.ndjson --out MISMATCHES.ndjson [--threads T]`
//!     spec -> impl: every line of GEN is a session printed by Gen_Prompt
//!     (how to start the shell, the input chunks, the pattern of standard
//!     error, standard output, probe events) or a call-level case (family
//!     "call": a prompt string for `yash_prompt::expand_posix` / `Prompter`).
//!     The session is run by the real shell on the simulated OS.
//! `yv-g11 random --n N --out TRACE.ndjson [--threads T]`
//!     impl -> spec: N seeded random sessions are typed and run; the
//!     observations are written for Trace_Prompt to judge.
//! `yv-g11 one --in SESSION.json --out TRACE.ndjson`
//!     one session (`{"cfg": {...}, "es": [...]}`), same record as `random`.
//! `yv-g11 demo --cfg JSON`   ad-hoc run (debugging)
mod pat;
mod run;
mod scen;

use rand::SeedableRng;
use run::{SessCfg, SessOut, out_json, run_call, run_session};
use scen::{Cfg, Ev};
use serde_json::{Value, json};
use std::collections::BTreeMap;
use std::io::{BufRead, Write};
use std::sync::Mutex;
use std::sync::atomic::{AtomicUsize, Ordering};
use yvcommon::util::{self, opt, opt_usize};

fn strs(v: &Value) -> Vec<String> {
    v.as_array().map(|a| a.iter().map(|x| x.as_str().unwrap_or("").to_string()).collect()).unwrap_or_default()
}

fn clip(s: &str, n: usize) -> String {
    if s.len() <= n {
        s.to_string()
    } else {
        let mut k = n;
        while !s.is_char_boundary(k) {
            k -= 1;
        }
        if n <= 16 { s[..k].to_string() } else { format!("{}...[{} bytes]", &s[..k], s.len()) }
    }
}

/// How the shell is started for a session.
fn sess_cfg(src: &str, tin: bool, terr: bool, args: &[String], env: &[(String, String)], chunks: &[String], rc: &str) -> SessCfg {
    let mut argv = vec!["yash".to_string()];
    argv.extend(args.iter().cloned());
    let mut chunks: Vec<Vec<u8>> = chunks.iter().map(|s| s.as_bytes().to_vec()).collect();
    // end-of-file conditions after the last chunk need no chunk of their own
    while chunks.len() > 1 && chunks.last().map(|c| c.is_empty()).unwrap_or(false) {
        chunks.pop();
    }
    let mut script = None;
    match src {
        "cmd" => {
            argv.push("-c".into());
            argv.push(String::from_utf8_lossy(&chunks.concat()).into_owned());
            chunks.clear();
        }
        "file" => {
            argv.push("/tmp/script".into());
            script = Some(chunks.concat());
            chunks.clear();
        }
        _ => {}
    }
    SessCfg { argv, stdin_tty: tin, stderr_tty: terr, chunks, script, env: env.to_vec(),
              rc: if rc.is_empty() { None } else { Some(rc.as_bytes().to_vec()) } }
}

fn events_of(o: &SessOut) -> Vec<Vec<String>> {
    o.events.iter().filter(|e| e["ev"] == "probe").map(|e| strs(&e["args"])).collect()
}

#[derive(Default)]
struct Stats {
    n: usize,
    runs: usize,
    calls: usize,
    by_fam: BTreeMap<String, usize>,
    feats: BTreeMap<String, usize>,
    nontrivial: usize,
    interactive: usize,
    mismatches: usize,
    prompt_bytes: usize,
}

impl Stats {
    fn merge(&mut self, o: Stats) {
        self.n += o.n;
        self.runs += o.runs;
        self.calls += o.calls;
        self.nontrivial += o.nontrivial;
        self.interactive += o.interactive;
        self.mismatches += o.mismatches;
        self.prompt_bytes += o.prompt_bytes;
        for (k, v) in o.by_fam {
            *self.by_fam.entry(k).or_default() += v;
        }
        for (k, v) in o.feats {
            *self.feats.entry(k).or_default() += v;
        }
    }
}

/// spec -> impl: one session line.  Returns a mismatch record if the real shell deviates.
fn replay_session(e: &Value, st: &mut Stats) -> Option<Value> {
    let fam = e["fam"].as_str().unwrap_or("").to_string();
    let env: Vec<(String, String)> = e["env"]
        .as_array()
        .map(|a| a.iter().map(|p| (p[0].as_str().unwrap_or("").to_string(), p[1].as_str().unwrap_or("").to_string())).collect())
        .unwrap_or_default();
    let chunks = strs(&e["chunks"]);
    let cfg = sess_cfg(
        e["src"].as_str().unwrap_or("stdin"),
        e["tin"].as_bool().unwrap_or(true),
        e["terr"].as_bool().unwrap_or(true),
        &strs(&e["args"]),
        &env,
        &chunks,
        e["rc"].as_str().unwrap_or(""),
    );
    let o = run_session(&cfg);
    st.runs += 1;
    let feat = strs(&e["feat"]);
    for f in &feat {
        *st.feats.entry(f.clone()).or_default() += 1;
    }
    if e["inter"].as_bool().unwrap_or(false) {
        st.interactive += 1;
    }
    let exp_ev: Vec<Vec<String>> = e["ev"].as_array().map(|a| a.iter().map(strs).collect()).unwrap_or_default();
    let exp_out = e["out"].as_str().unwrap_or("");
    if !o.stderr.is_empty() {
        st.nontrivial += 1;
        st.prompt_bytes += o.stderr.len();
    }
    let symptom = if o.outcome != "completed" {
        "outcome"
    } else if !pat::matches(&e["pat"], &o.stderr) {
        "stderr"
    } else if o.stdout != exp_out {
        "stdout"
    } else if events_of(&o) != exp_ev {
        "events"
    } else if o.unfed != 0 {
        "unfed"
    } else {
        return None;
    };
    let good = pat::matched_prefix(&e["pat"], &o.stderr);
    let key = json!({"dir": "spec->impl", "fam": fam, "symptom": symptom, "feat": feat.join(" "),
                     "start": format!("{} {}{}{}", strs(&e["args"]).join(" "), e["src"].as_str().unwrap_or(""),
                                      if cfg.stdin_tty { " tty-in" } else { "" }, if cfg.stderr_tty { " tty-err" } else { "" }),
                     "ps": strs(&e["ps"]).join(" | "),
                     "near": clip(&o.stderr[good.min(o.stderr.len())..], 12),
                     "env": env.iter().map(|(n, v)| format!("{n}={v}")).collect::<Vec<_>>().join(" | ")});
    let detail = format!(
        "{symptom} differ from what Prompt.tla allows (outcome {} {}); stderr agrees up to byte {good}: expected instance {:?}, observed {:?}; stdout expected {:?} observed {:?}; events expected {:?} observed {:?}; unfed {}",
        o.outcome, o.panic, clip(&pat::render(&e["pat"]), 600), clip(&o.stderr, 600), exp_out, clip(&o.stdout, 300), exp_ev, events_of(&o), o.unfed
    );
    Some(json!({"key": key, "detail": detail, "input": chunks, "sc": e, "obs": out_json(&o)}))
}

/// spec -> impl: one call-level case.
fn replay_call(e: &Value, st: &mut Stats) -> Option<Value> {
    let text = e["text"].as_str().unwrap_or("");
    let first = e["first"].as_bool().unwrap_or(true);
    let nou = e["nou"].as_bool().unwrap_or(false);
    let x = e["x"].as_str().unwrap_or("<unset>");
    let o = run_call(text, first, nou, if x == "<unset>" { None } else { Some(x) });
    st.calls += 2;
    let post = strs(&e["post"]);
    // with an expansion error the variables afterwards are not specified
    let open = e["pat"].as_array().map(|a| a.len() == 1 && a[0][0] == "X").unwrap_or(false);
    let symptom = if o.outcome != "completed" {
        "outcome"
    } else if !pat::matches(&e["pat"], &o.direct) {
        "expand_posix"
    } else if !pat::matches(&e["pat"], &o.prompter) {
        "prompter"
    } else if o.line != "some line\n" {
        "prompter-line"
    } else if !open && (o.post_direct != post || o.post_prompter != post) {
        "variables"
    } else {
        if !o.direct.is_empty() {
            st.nontrivial += 1;
        }
        return None;
    };
    let shown = if symptom == "prompter" { &o.prompter } else { &o.direct };
    let good = pat::matched_prefix(&e["pat"], shown);
    let key = json!({"dir": "spec->impl", "fam": "call", "symptom": symptom, "ps": text, "first": first, "nounset": nou, "x": x,
                     "near": clip(&shown[good.min(shown.len())..], 12), "feat": "call"});
    let detail = format!(
        "{symptom}: expand_posix({text:?}, excl={first}) with x={x:?} nounset={nou} gave {:?} (Prompter wrote {:?}, returned {:?}); expected instance {:?}; variables x,u,n after: {:?} / {:?}, expected {:?}; outcome {} {}",
        o.direct, o.prompter, o.line, pat::render(&e["pat"]), o.post_direct, o.post_prompter, post, o.outcome, o.panic
    );
    Some(json!({"key": key, "detail": detail, "input": [text], "sc": e,
                "obs": {"direct": o.direct, "prompter": o.prompter, "line": o.line, "post": o.post_direct}}))
}

/// spec -> impl: one EofGuard case.
fn replay_guard(e: &Value, st: &mut Stats) -> Option<Value> {
    const MSG: &str = "# Type `exit` to leave the shell when the ignore-eof option is on.\n";
    let (inter, tty, ign) = (e["inter"].as_bool().unwrap_or(false), e["tty"].as_bool().unwrap_or(false), e["ign"].as_bool().unwrap_or(false));
    let k = e["k"].as_u64().unwrap_or(0) as usize;
    let (err, line, panic) = run::run_guard(inter, tty, ign, k, MSG);
    st.calls += 1;
    let symptom = if !panic.is_empty() {
        "outcome"
    } else if !pat::matches(&e["pat"], &err) {
        "guard-stderr"
    } else if line != e["ret"].as_str().unwrap_or("") {
        "guard-line"
    } else {
        if !err.is_empty() {
            st.nontrivial += 1;
        }
        return None;
    };
    let key = json!({"dir": "spec->impl", "fam": "guard", "symptom": symptom, "interactive": inter, "tty": tty, "ignoreeof": ign,
                     "eofs": k, "feat": "guard", "ps": "", "env": ""});
    let detail = format!(
        "{symptom}: EofGuard::next_line over {k} end-of-file conditions (interactive={inter}, terminal={tty}, ignoreeof={ign}) wrote {} warning(s) and returned {line:?}; expected {} warning(s) and {:?}; {panic}",
        err.matches('\n').count(), pat::render(&e["pat"]).matches('\n').count(), e["ret"].as_str().unwrap_or("")
    );
    Some(json!({"key": key, "detail": detail, "input": [], "sc": e, "obs": {"stderr": clip(&err, 300), "line": line}}))
}

fn replay(args: &[String]) {
    let threads = opt_usize(args, "--threads", 8);
    let lines: Vec<String> = util::open_in(args).lines().map(|l| l.unwrap()).filter(|l| !l.trim().is_empty()).collect();
    let next = AtomicUsize::new(0);
    let total = Mutex::new(Stats::default());
    let out: Mutex<Vec<String>> = Mutex::new(vec![]);
    std::thread::scope(|s| {
        for _ in 0..threads {
            s.spawn(|| {
                let mut st = Stats::default();
                loop {
                    let i = next.fetch_add(1, Ordering::SeqCst);
                    if i >= lines.len() {
                        break;
                    }
                    let e: Value = serde_json::from_str(&lines[i]).expect("gen line");
                    st.n += 1;
                    let fam = e["fam"].as_str().unwrap_or("").to_string();
                    *st.by_fam.entry(fam.clone()).or_default() += 1;
                    let m = match fam.as_str() {
                        "call" => replay_call(&e, &mut st),
                        "guard" => replay_guard(&e, &mut st),
                        _ => replay_session(&e, &mut st),
                    };
                    if let Some(m) = m {
                        st.mismatches += 1;
                        out.lock().unwrap().push(m.to_string());
                    }
                }
                total.lock().unwrap().merge(st);
            });
        }
    });
    let mut w = util::open_out(args);
    for m in out.lock().unwrap().iter() {
        writeln!(w, "{m}").unwrap();
    }
    w.flush().unwrap();
    let t = total.lock().unwrap();
    println!(
        "{}",
        json!({"sessions": t.n, "shell_runs": t.runs, "calls": t.calls, "by_family": t.by_fam, "features": t.feats,
               "nontrivial": t.nontrivial, "interactive": t.interactive, "mismatches": t.mismatches, "stderr_bytes": t.prompt_bytes})
    );
}

fn record(c: &Cfg, evs: &[Ev], cut: bool) -> Value {
    let chunks = scen::render(evs, cut);
    let cfg = sess_cfg(&c.src, c.tin, c.terr, &c.args(), &c.env(), &chunks, &c.rc_text());
    let o = run_session(&cfg);
    json!({"cfg": c.json(), "es": evs.iter().map(|e| e.json()).collect::<Vec<_>>(), "chunks": chunks, "cut": cut,
           "obs": {"outcome": o.outcome, "panic": o.panic, "stderr": o.stderr, "stdout": o.stdout, "unfed": o.unfed,
                   "ev": events_of(&o)}})
}

fn random(args: &[String]) {
    let n = opt_usize(args, "--n", 1000);
    let threads = opt_usize(args, "--threads", 8);
    let seed = util::seed();
    let next = AtomicUsize::new(0);
    let recs: Mutex<Vec<(usize, String)>> = Mutex::new(vec![]);
    let runs = AtomicUsize::new(0);
    std::thread::scope(|s| {
        for _ in 0..threads {
            s.spawn(|| {
                loop {
                    let i = next.fetch_add(1, Ordering::SeqCst);
                    if i >= n {
                        break;
                    }
                    let mut rng = rand::rngs::StdRng::seed_from_u64(seed.wrapping_mul(1_000_003).wrapping_add(i as u64));
                    let (c, evs, cut) = scen::random_session(&mut rng);
                    let r = record(&c, &evs, cut);
                    runs.fetch_add(1, Ordering::SeqCst);
                    recs.lock().unwrap().push((i, r.to_string()));
                }
            });
        }
    });
    let mut recs = recs.into_inner().unwrap();
    recs.sort();
    let mut out = util::open_out(args);
    for (_, r) in &recs {
        writeln!(out, "{r}").unwrap();
    }
    out.flush().unwrap();
    println!("{}", json!({"records": recs.len(), "shell_runs": runs.load(Ordering::SeqCst), "seed": seed}));
}

fn one(args: &[String]) {
    let mut text = String::new();
    util::open_in(args).read_line(&mut text).ok();
    let mut rest = String::new();
    for l in util::open_in(args).lines().skip(1) {
        rest.push_str(&l.unwrap());
    }
    text.push_str(&rest);
    let v: Value = serde_json::from_str(&text).expect("session json");
    let c = scen::cfg_of(&v["cfg"]);
    let evs = scen::evs_of(&v["es"]);
    let r = record(&c, &evs, v["cut"].as_bool().unwrap_or(false));
    let mut out = util::open_out(args);
    writeln!(out, "{r}").unwrap();
    out.flush().unwrap();
}

fn demo_cfg(v: &Value) -> SessCfg {
    SessCfg {
        argv: strs(&v["argv"]),
        stdin_tty: v["stdin_tty"].as_bool().unwrap_or(true),
        stderr_tty: v["stderr_tty"].as_bool().unwrap_or(true),
        chunks: strs(&v["chunks"]).into_iter().map(|s| s.into_bytes()).collect(),
        script: v["script"].as_str().map(|s| s.as_bytes().to_vec()),
        rc: v["rc"].as_str().map(|s| s.as_bytes().to_vec()),
        env: v["env"].as_array().map(|a| a.iter().map(|p| (p[0].as_str().unwrap().to_string(), p[1].as_str().unwrap().to_string())).collect()).unwrap_or_default(),
    }
}

fn main() {
    let args: Vec<String> = std::env::args().collect();
    util::quiet_panics();
    match args.get(1).map(|s| s.as_str()) {
        Some("replay") => replay(&args),
        Some("random") => random(&args),
        Some("one") => one(&args),
        Some("demo") => {
            let v: Value = serde_json::from_str(opt(&args, "--cfg").expect("--cfg JSON")).expect("json");
            let o = run_session(&demo_cfg(&v));
            println!("{}", serde_json::to_string_pretty(&out_json(&o)).unwrap());
        }
        _ => {
            eprintln!("usage: yv-g11 replay|random|one|demo ...");
            std::process::exit(2);
        }
    }
}
