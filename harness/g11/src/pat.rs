//! Patterns of spec/Prompt.tla (as printed by TLC) and the matcher.
//!
//! `["L", s]` literal, `["H"]` history number (digits, or a lone `!`),
//! `["N"]` digits, `["D"]` diagnostic (complete lines without `@`), `["X"]`
//! open text without newline, `["A", [p1, p2, ...]]` alternatives,
//! `["R", lo, hi, p]` repetition.  Matching computes the set of positions
//! reachable after each item (the definition `After` of the specification).
use serde_json::Value;
use std::collections::BTreeSet;

type Pos = BTreeSet<usize>;

fn digit_run(s: &[u8], p: usize, out: &mut Pos) {
    let mut q = p;
    while q < s.len() && s[q].is_ascii_digit() {
        q += 1;
        out.insert(q);
    }
}

fn after_item(s: &[u8], it: &Value, ps: &Pos) -> Pos {
    let mut out = Pos::new();
    match it[0].as_str().unwrap_or("") {
        "L" => {
            let lit = it[1].as_str().unwrap_or("").as_bytes();
            for &p in ps {
                if s[p..].starts_with(lit) {
                    out.insert(p + lit.len());
                }
            }
        }
        "N" => {
            for &p in ps {
                digit_run(s, p, &mut out);
            }
        }
        "H" => {
            for &p in ps {
                digit_run(s, p, &mut out);
                if p < s.len() && s[p] == b'!' {
                    out.insert(p + 1);
                }
            }
        }
        "D" => {
            for &p in ps {
                let mut q = p;
                while q < s.len() && s[q] != b'@' {
                    q += 1;
                    if s[q - 1] == b'\n' {
                        out.insert(q);
                    }
                }
            }
        }
        "X" => {
            for &p in ps {
                let mut q = p;
                out.insert(q);
                while q < s.len() && s[q] != b'\n' {
                    q += 1;
                    out.insert(q);
                }
            }
        }
        "A" => {
            if let Some(alts) = it[1].as_array() {
                for a in alts {
                    out.extend(after(s, a, ps.clone()));
                }
            }
        }
        "R" => {
            let lo = it[1].as_u64().unwrap_or(0);
            let hi = it[2].as_u64().unwrap_or(0);
            let mut cur = ps.clone();
            for k in 0..=hi {
                if k >= lo {
                    out.extend(cur.iter().copied());
                }
                if k < hi {
                    cur = after(s, &it[3], cur);
                    if cur.is_empty() {
                        break;
                    }
                }
            }
        }
        _ => {}
    }
    out
}

pub fn after(s: &[u8], pat: &Value, mut ps: Pos) -> Pos {
    if let Some(items) = pat.as_array() {
        for it in items {
            if ps.is_empty() {
                break;
            }
            ps = after_item(s, it, &ps);
        }
    }
    ps
}

pub fn matches(pat: &Value, text: &str) -> bool {
    let s = text.as_bytes();
    after(s, pat, Pos::from([0])).contains(&s.len())
}

/// Longest prefix of the text that some prefix of the pattern accepts (for reports).
pub fn matched_prefix(pat: &Value, text: &str) -> usize {
    let s = text.as_bytes();
    let mut ps = Pos::from([0]);
    let mut best = 0;
    if let Some(items) = pat.as_array() {
        for it in items {
            ps = after_item(s, it, &ps);
            match ps.iter().next_back() {
                Some(&m) => best = best.max(m),
                None => break,
            }
        }
    }
    best
}

/// One instance of the pattern (first alternatives, "0" for numbers).
pub fn render(pat: &Value) -> String {
    let mut out = String::new();
    if let Some(items) = pat.as_array() {
        for it in items {
            match it[0].as_str().unwrap_or("") {
                "L" => out.push_str(it[1].as_str().unwrap_or("")),
                "N" | "H" => out.push('0'),
                "D" => out.push_str("error\n"),
                "A" => out.push_str(&render(&it[1][0])),
                "R" => {
                    for _ in 0..it[1].as_u64().unwrap_or(0) {
                        out.push_str(&render(&it[3]));
                    }
                }
                _ => {}
            }
        }
    }
    out
}
