//! Running one interactive session of the real shell on the simulated OS.
//!
//! The runner mirrors `yash_cli::run_as_shell_process` with the public pieces
//! `startup::args::parse`, `startup::configure_environment`,
//! `startup::input::prepare_input`, `interactive_read_eval_loop` /
//! `read_eval_loop`, `Env::apply_result` and `trap::run_exit_trap` (the shared
//! runner `yvcommon::shell::run_shell` always uses the non-interactive loop and
//! regular files for the standard descriptors).
//!
//! * Standard input / standard error can be terminals (`FileBody::Terminal`).
//! * The input is a list of *chunks*; after a chunk has been consumed the
//!   reader meets an end-of-file condition.  When more chunks follow (a user
//!   typing Ctrl-D and then more lines), the next chunk is appended to the
//!   terminal when the shell expands its next prompt (the `ExpandText`
//!   dependency injected by `configure_environment` is wrapped by a notifier
//!   that then calls the same `yash_semantics::expansion::expand_text`).  With
//!   a single chunk nothing is replaced.
//! * `tick` (foreground) advances the virtual clock by one unit, `nap D [S]`
//!   sleeps D units minus a half and exits with status S: a job `nap D&`
//!   terminates during the D-th following `tick`.
use serde_json::{Value, json};
use std::cell::RefCell;
use std::collections::VecDeque;
use std::ops::ControlFlow::{Break, Continue};
use std::pin::Pin;
use std::rc::Rc;
use std::time::Duration;
use yash_cli::startup::args::Parse;
use yash_env::Env;
use yash_env::builtin::{Builtin, Result as BResult, Type};
use yash_env::io::Fd;
use yash_env::option::Option::Interactive;
use yash_env::option::State::On;
use yash_env::semantics::{Divert, ExitStatus, Field};
use yash_env::system::r#virtual::{FileBody, Inode, SystemState, VirtualSystem};
use yash_env::system::{Concurrent, Mode};
use yash_prompt::ExpandText;
use yvcommon::sched::{Outcome, Schedule, Scheduler};
use yvcommon::shell::{Sys, VEnv, register_probes};

pub const STEP_LIMIT: usize = 200_000;

#[derive(Clone, Debug)]
pub struct SessCfg {
    /// command line, e.g. `["yash", "-i"]`
    pub argv: Vec<String>,
    pub stdin_tty: bool,
    pub stderr_tty: bool,
    /// chunks of standard input; an end-of-file condition follows each chunk
    pub chunks: Vec<Vec<u8>>,
    /// content of `/tmp/script` (for a script operand)
    pub script: Option<Vec<u8>>,
    /// content of `/tmp/rc` (for `--rcfile /tmp/rc`)
    pub rc: Option<Vec<u8>>,
    pub env: Vec<(String, String)>,
}

#[derive(Clone, Debug)]
pub struct SessOut {
    pub outcome: String,
    pub panic: String,
    pub status: i32,
    pub stdout: String,
    pub stderr: String,
    pub events: Vec<Value>,
    /// chunks never delivered (the shell ended before asking for them)
    pub unfed: usize,
}

thread_local! {
    static FEED: RefCell<VecDeque<Vec<u8>>> = const { RefCell::new(VecDeque::new()) };
    static TTY: RefCell<Option<Rc<RefCell<Inode>>>> = const { RefCell::new(None) };
    static STATE: RefCell<Option<Rc<RefCell<SystemState>>>> = const { RefCell::new(None) };
}

/// Number of bytes of the terminal not yet read through descriptor 0 of the
/// shell process (pid 2).
fn unread(state: &Rc<RefCell<SystemState>>) -> usize {
    let st = state.borrow();
    let Some(p) = st.processes.get(&yash_env::job::Pid(2)) else { return 0 };
    let Some(body) = p.fds().get(&Fd::STDIN) else { return 0 };
    let mut ofd = body.open_file_description.borrow_mut();
    let inode = Rc::clone(ofd.inode());
    // The offset is only observable through `seek`, which a terminal refuses:
    // look at it while the inode poses as a regular file.
    let saved = std::mem::take(&mut inode.borrow_mut().body);
    let content = match &saved {
        FileBody::Terminal { content } => content.clone(),
        FileBody::Regular { content, .. } => content.clone(),
        _ => vec![],
    };
    let len = content.len();
    inode.borrow_mut().body = FileBody::new(content);
    let off = ofd.seek(std::io::SeekFrom::Current(0)).unwrap_or(len);
    inode.borrow_mut().body = saved;
    len.saturating_sub(off)
}

/// The user types the next chunk when a prompt is about to appear and all
/// that was typed before has been read, including its end-of-file condition.
fn prompt_hook() {
    let Some(state) = STATE.with(|s| s.borrow().clone()) else { return };
    if unread(&state) > 0 {
        return;
    }
    let pending_eof = EOF_DUE.with(|e| e.replace(false));
    if pending_eof {
        // this prompt's read meets the end-of-file condition of the last chunk
        return;
    }
    let next = FEED.with(|f| f.borrow_mut().pop_front());
    if let Some(chunk) = next {
        // an empty chunk is just one more end-of-file condition
        if !chunk.is_empty() {
            if let Some(tty) = TTY.with(|t| t.borrow().clone()) {
                if let FileBody::Terminal { content } = &mut tty.borrow_mut().body {
                    content.extend_from_slice(&chunk);
                }
            }
            EOF_DUE.with(|e| e.set(true));
        }
    }
}

thread_local! {
    static EOF_DUE: std::cell::Cell<bool> = const { std::cell::Cell::new(false) };
}

fn hooked_expand_text<'a>(
    env: &'a mut VEnv,
    text: &'a yash_syntax::syntax::Text,
) -> Pin<Box<dyn Future<Output = Option<(String, Option<ExitStatus>)>> + 'a>> {
    Box::pin(async move {
        prompt_hook();
        yash_semantics::expansion::expand_text(env, text).await.ok()
    })
}

const UNIT: Duration = Duration::from_millis(10);

fn now(env: &VEnv) -> std::time::Instant {
    use yash_env::system::Clock as _;
    env.system.now()
}

/// `tick`: one unit of virtual time passes in the foreground.
fn tick_main(env: &mut VEnv, _args: Vec<Field>) -> Pin<Box<dyn Future<Output = BResult> + '_>> {
    Box::pin(async move {
        use yash_env::system::concurrency::Sleep as _;
        let deadline = now(env) + UNIT;
        env.system.sleep_until(deadline).await;
        BResult::new(ExitStatus(0))
    })
}

/// `nap D [S]`: sleeps D units minus a half, then exits with status S.
fn nap_main(env: &mut VEnv, args: Vec<Field>) -> Pin<Box<dyn Future<Output = BResult> + '_>> {
    Box::pin(async move {
        use yash_env::system::concurrency::Sleep as _;
        let d = args.first().and_then(|f| f.value.parse::<u32>().ok()).unwrap_or(1);
        let s = args.get(1).and_then(|f| f.value.parse::<i32>().ok()).unwrap_or(0);
        let deadline = now(env) + UNIT * d - UNIT / 2;
        env.system.sleep_until(deadline).await;
        BResult::new(ExitStatus(s))
    })
}

fn set_body(state: &Rc<RefCell<SystemState>>, path: &str, tty: bool, content: Vec<u8>) -> Rc<RefCell<Inode>> {
    let st = state.borrow();
    let inode = st.file_system.get(path).unwrap();
    inode.borrow_mut().body = if tty { FileBody::Terminal { content } } else { FileBody::new(content) };
    inode
}

async fn session_body(env: &mut VEnv, source: &yash_cli::startup::args::Source, is_interactive: bool) -> i32 {
    let ref_env = RefCell::new(env);
    let lexer = match yash_cli::startup::input::prepare_input(&ref_env, source).await {
        Ok(lexer) => lexer,
        Err(e) => {
            use yash_env::system::concurrency::WriteAll as _;
            let mut env = ref_env.borrow_mut();
            let message = format!("yash: {e}\n");
            env.system.print_error(&message).await;
            env.exit_status = ExitStatus::NOT_FOUND;
            return env.exit_status.0;
        }
    };
    let result = if is_interactive {
        yash_semantics::interactive_read_eval_loop(&ref_env, &mut { lexer }).await
    } else {
        yash_semantics::read_eval_loop(&ref_env, &mut { lexer }).await
    };
    let env = ref_env.into_inner();
    env.apply_result(result);
    match result {
        Continue(())
        | Break(Divert::Continue { .. })
        | Break(Divert::Break { .. })
        | Break(Divert::Return(_))
        | Break(Divert::Interrupt(_))
        | Break(Divert::Exit(_)) => yash_semantics::trap::run_exit_trap(env).await,
        Break(Divert::Abort(_)) => (),
    }
    env.exit_status.0
}

pub fn run_session(cfg: &SessCfg) -> SessOut {
    yvcommon::shell::EVENTS.with(|e| e.borrow_mut().clear());
    let system = VirtualSystem::new();
    let state = Rc::clone(&system.state);
    let sched = Rc::new(Scheduler::new(Schedule::Fifo, STEP_LIMIT));
    state.borrow_mut().executor = Some(Rc::clone(&sched) as Rc<dyn yash_env::system::r#virtual::Executor>);
    state.borrow_mut().now = Some(std::time::Instant::now());

    for d in ["/tmp", "/bin", "/home"] {
        let inode = Inode { body: FileBody::Directory { files: Default::default() }, permissions: Mode::from_bits_truncate(0o755) };
        state.borrow_mut().file_system.save(d, Rc::new(RefCell::new(inode))).unwrap();
    }
    for (name, b) in yash_builtin::iter::<Sys>() {
        if b.r#type == Type::Substitutive {
            let mut inode = Inode::new(Vec::<u8>::new());
            inode.permissions = Mode::from_bits_truncate(0o755);
            if let FileBody::Regular { is_native_executable, .. } = &mut inode.body {
                *is_native_executable = true;
            }
            state.borrow_mut().file_system.save(format!("/bin/{name}"), Rc::new(RefCell::new(inode))).unwrap();
        }
    }
    if let Some(s) = &cfg.script {
        let mut inode = Inode::new(s.clone());
        inode.permissions = Mode::from_bits_truncate(0o644);
        state.borrow_mut().file_system.save("/tmp/script", Rc::new(RefCell::new(inode))).unwrap();
    }
    if let Some(s) = &cfg.rc {
        let mut inode = Inode::new(s.clone());
        inode.permissions = Mode::from_bits_truncate(0o644);
        state.borrow_mut().file_system.save("/tmp/rc", Rc::new(RefCell::new(inode))).unwrap();
    }
    let mut chunks: VecDeque<Vec<u8>> = cfg.chunks.iter().cloned().collect();
    let first = chunks.pop_front().unwrap_or_default();
    let hooked = !chunks.is_empty();
    let tty = set_body(&state, "/dev/stdin", cfg.stdin_tty, first);
    set_body(&state, "/dev/stderr", cfg.stderr_tty, vec![]);
    FEED.with(|f| *f.borrow_mut() = chunks);
    EOF_DUE.with(|e| e.set(true));
    TTY.with(|t| *t.borrow_mut() = Some(tty));
    STATE.with(|s| *s.borrow_mut() = Some(Rc::clone(&state)));
    let main_pid = system.process_id;

    let run = match yash_cli::startup::args::parse(cfg.argv.iter().cloned()) {
        Ok(Parse::Run(run)) => run,
        other => {
            return SessOut { outcome: "argv".into(), panic: format!("{other:?}"), status: 2, stdout: String::new(),
                             stderr: String::new(), events: vec![], unfed: 0 };
        }
    };
    let sys: Sys = Rc::new(Concurrent::new(system));
    let mut env = Env::with_system(Rc::clone(&sys));
    env.variables.extend_env([("PATH".to_string(), "/bin".to_string())]);
    env.variables.extend_env(cfg.env.iter().cloned());
    let exit_status = Rc::new(std::cell::Cell::new(-1));
    let es2 = Rc::clone(&exit_status);
    let sys2 = Rc::clone(&sys);
    let stderr_tty = cfg.stderr_tty;
    let main_task = async move {
        let body = async move {
            let env = &mut env;
            if stderr_tty {
                // Descriptor 2 of a new simulated process is in append mode, and a simulated
                // terminal has size 0: every write would land at offset 0.  Reopen it.
                use yash_env::system::{Close as _, Dup as _, OfdAccess, Open as _};
                if let Ok(fd) = env.system.open(c"/dev/stderr", OfdAccess::WriteOnly, Default::default(), Mode::empty()).await {
                    let _ = env.system.dup2(fd, Fd::STDERR);
                    let _ = env.system.close(fd);
                }
            }
            let work = yash_cli::startup::configure_environment(env, run).await;
            register_probes(env);
            env.builtins.insert("tick", Builtin::new(Type::Mandatory, tick_main));
            env.builtins.insert("nap", Builtin::new(Type::Mandatory, nap_main));
            if hooked {
                env.any.insert(Box::new(ExpandText::<Sys>(hooked_expand_text)));
            }
            let is_interactive = env.options.get(Interactive) == On;
            yash_cli::startup::init_file::run_rcfile(env, work.rcfile.clone()).await;
            let status = session_body(env, &work.source, is_interactive).await;
            es2.set(status);
        };
        sys2.run_virtual(body).await;
    };
    let outcome = sched.run_main(Box::pin(main_task), &state);

    let mut status = exit_status.get();
    {
        let st = state.borrow();
        if let Some(p) = st.processes.get(&main_pid) {
            if let yash_env::job::ProcessState::Halted(r) = p.state() {
                status = ExitStatus::from(r).0;
            }
        }
    }
    let content = |path: &str| -> String {
        let st = state.borrow();
        let Ok(inode) = st.file_system.get(path) else { return String::new() };
        let inode = inode.borrow();
        match &inode.body {
            FileBody::Regular { content, .. } | FileBody::Terminal { content } => String::from_utf8_lossy(content).into_owned(),
            _ => String::new(),
        }
    };
    let stdout = content("/dev/stdout");
    let stderr = content("/dev/stderr");
    let events = yvcommon::shell::EVENTS.with(|e| std::mem::take(&mut *e.borrow_mut()));
    let unfed = FEED.with(|f| std::mem::take(&mut *f.borrow_mut()).len());
    TTY.with(|t| *t.borrow_mut() = None);
    STATE.with(|s| *s.borrow_mut() = None);
    let executor = state.borrow_mut().executor.take();
    drop(executor);
    let (outcome, panic) = match outcome {
        Outcome::Completed => ("completed".to_string(), String::new()),
        Outcome::Deadlock => ("deadlock".to_string(), String::new()),
        Outcome::StepLimit => ("steplimit".to_string(), String::new()),
        Outcome::Panic(m) => ("panic".to_string(), m),
    };
    SessOut { outcome, panic, status, stdout, stderr, events, unfed }
}

pub fn out_json(o: &SessOut) -> Value {
    json!({"outcome": o.outcome, "panic": o.panic, "status": o.status, "stdout": o.stdout, "stderr": o.stderr,
           "unfed": o.unfed,
           "ev": o.events.iter().filter(|e| e["ev"] == "probe").map(|e| e["args"].clone()).collect::<Vec<_>>()})
}

// ---------------------------------------------------------------------------
// call level: yash_prompt::expand_posix and Prompter
// ---------------------------------------------------------------------------

#[derive(Clone, Debug, Default)]
pub struct CallOut {
    pub outcome: String,
    pub panic: String,
    /// result of `expand_posix(env, text, first)`
    pub direct: String,
    /// values of x, u, n afterwards ("<unset>" if not set)
    pub post_direct: Vec<String>,
    /// what `Prompter` wrote to standard error before the line was read
    pub prompter: String,
    /// the line `Prompter::next_line` returned
    pub line: String,
    pub post_prompter: Vec<String>,
}

fn var_values(env: &VEnv) -> Vec<String> {
    ["x", "u", "n"]
        .iter()
        .map(|n| env.variables.get_scalar(*n).map(|s| s.to_string()).unwrap_or_else(|| "<unset>".to_string()))
        .collect()
}

/// One call of `expand_posix` and one use of `Prompter` (each in a fresh
/// environment prepared by `configure_environment`): `$?` is 5, x has the
/// given value (or is unset), nounset as given.
pub fn run_call(text: &str, first: bool, nou: bool, x: Option<&str>) -> CallOut {
    let mut out = CallOut::default();
    for which in 0..2 {
        yvcommon::shell::EVENTS.with(|e| e.borrow_mut().clear());
        let system = VirtualSystem::new();
        let state = Rc::clone(&system.state);
        let sched = Rc::new(Scheduler::new(Schedule::Fifo, STEP_LIMIT));
        state.borrow_mut().executor = Some(Rc::clone(&sched) as Rc<dyn yash_env::system::r#virtual::Executor>);
        for d in ["/tmp", "/bin"] {
            let inode = Inode { body: FileBody::Directory { files: Default::default() }, permissions: Mode::from_bits_truncate(0o755) };
            state.borrow_mut().file_system.save(d, Rc::new(RefCell::new(inode))).unwrap();
        }
        let run = match yash_cli::startup::args::parse(["yash", "-c", ":"].iter().map(|s| s.to_string())) {
            Ok(Parse::Run(run)) => run,
            _ => unreachable!(),
        };
        let sys: Sys = Rc::new(Concurrent::new(system));
        let mut env = Env::with_system(Rc::clone(&sys));
        env.variables.extend_env([("PATH".to_string(), "/bin".to_string())]);
        let sys2 = Rc::clone(&sys);
        let res: Rc<RefCell<(String, String, Vec<String>)>> = Default::default();
        let res2 = Rc::clone(&res);
        let text = text.to_string();
        let x = x.map(|s| s.to_string());
        let main_task = async move {
            let body = async move {
                use yash_env::variable::Scope::Global;
                let env = &mut env;
                let _ = yash_cli::startup::configure_environment(env, run).await;
                register_probes(env);
                if let Some(x) = &x {
                    env.variables.get_or_new("x", Global).assign(x.as_str(), None).ok();
                }
                if nou {
                    env.options.set(yash_env::option::Option::Unset, yash_env::option::State::Off);
                }
                env.exit_status = ExitStatus(5);
                if which == 0 {
                    let r = yash_prompt::expand_posix(env, &text, first).await;
                    *res2.borrow_mut() = (r, String::new(), var_values(env));
                } else {
                    use yash_env::input::{Context, Input as _, Memory};
                    env.variables.get_or_new(if first { "PS1" } else { "PS2" }, Global).assign(text.as_str(), None).ok();
                    let line = {
                        let ref_env = RefCell::new(&mut *env);
                        let mut p = yash_prompt::Prompter::new(Memory::new("some line\nnext\n"), &ref_env);
                        let mut ctx = Context::default();
                        ctx.set_is_first_line(first);
                        p.next_line(&ctx).await.unwrap_or_else(|e| format!("error: {e}"))
                    };
                    *res2.borrow_mut() = (String::new(), line, var_values(env));
                }
            };
            sys2.run_virtual(body).await;
        };
        let outcome = sched.run_main(Box::pin(main_task), &state);
        let stderr = {
            let st = state.borrow();
            match st.file_system.get("/dev/stderr") {
                Ok(inode) => match &inode.borrow().body {
                    FileBody::Regular { content, .. } => String::from_utf8_lossy(content).into_owned(),
                    _ => String::new(),
                },
                Err(_) => String::new(),
            }
        };
        let executor = state.borrow_mut().executor.take();
        drop(executor);
        match outcome {
            Outcome::Completed => {}
            Outcome::Deadlock => out.outcome = "deadlock".into(),
            Outcome::StepLimit => out.outcome = "steplimit".into(),
            Outcome::Panic(m) => {
                out.outcome = "panic".into();
                out.panic = m;
            }
        }
        let r = res.borrow().clone();
        if which == 0 {
            out.direct = r.0;
            out.post_direct = r.2;
        } else {
            out.prompter = stderr;
            out.line = r.1;
            out.post_prompter = r.2;
        }
    }
    if out.outcome.is_empty() {
        out.outcome = "completed".into();
    }
    out
}

// ---------------------------------------------------------------------------
// call level: yash_env::input::EofGuard
// ---------------------------------------------------------------------------

/// Inner input delivering `count` end-of-file conditions, then the lines of `inner`.
struct EofStub<T> {
    inner: T,
    count: usize,
}

impl<T: yash_env::input::Input> yash_env::input::Input for EofStub<T> {
    async fn next_line(&mut self, context: &yash_env::input::Context) -> yash_env::input::Result {
        if let Some(remaining) = self.count.checked_sub(1) {
            self.count = remaining;
            Ok(String::new())
        } else {
            self.inner.next_line(context).await
        }
    }
}

/// One `next_line` call of `EofGuard` over `k` end-of-file conditions followed by
/// "line\n".  Returns (what was written to standard error, the line returned, panic message).
pub fn run_guard(inter: bool, tty: bool, ign: bool, k: usize, message: &str) -> (String, String, String) {
    use futures_util::FutureExt as _;
    use yash_env::input::{Context, EofGuard, IgnoreEofConfig, Input as _, Memory};
    use yash_env::option::{IgnoreEof, Interactive, State};
    let message = message.to_string();
    let r = yvcommon::util::catch(move || {
        let system = VirtualSystem::new();
        let state = Rc::clone(&system.state);
        set_body(&state, "/dev/stdin", tty, vec![]);
        let mut env = Env::with_system(Rc::new(Concurrent::new(system)));
        env.options.set(Interactive, if inter { State::On } else { State::Off });
        env.options.set(IgnoreEof, if ign { State::On } else { State::Off });
        env.any.insert(Box::new(IgnoreEofConfig::with_message(message)));
        let line = {
            let ref_env = RefCell::new(&mut env);
            let mut guard = EofGuard::new(EofStub { inner: Memory::new("line\n"), count: k }, Fd::STDIN, &ref_env);
            match guard.next_line(&Context::default()).now_or_never() {
                Some(Ok(l)) => l,
                Some(Err(e)) => format!("error: {e}"),
                None => "pending".to_string(),
            }
        };
        let st = state.borrow();
        let err = match st.file_system.get("/dev/stderr") {
            Ok(inode) => match &inode.borrow().body {
                FileBody::Regular { content, .. } => String::from_utf8_lossy(content).into_owned(),
                _ => String::new(),
            },
            Err(_) => String::new(),
        };
        (err, line)
    });
    match r {
        Ok((e, l)) => (e, l, String::new()),
        Err(p) => (String::new(), String::new(), p),
    }
}
