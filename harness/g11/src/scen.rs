//! Sessions in the vocabulary of spec/Prompt.tla: start-up configuration,
//! events, prompt-string tokens; how they are typed (the harness' own
//! renderer, checked against the specification's by Trace_Prompt) and a
//! seeded random generator for the impl -> spec direction.
use rand::Rng;
use rand::seq::SliceRandom;
use serde_json::{Value, json};

#[derive(Clone, Debug, PartialEq)]
pub struct Tok {
    pub k: String,
    pub n: String,
    pub w: String,
}

pub fn tok(k: &str, n: &str, w: &str) -> Tok {
    Tok { k: k.into(), n: n.into(), w: w.into() }
}

impl Tok {
    pub fn raw(&self) -> String {
        let (n, w) = (&self.n, &self.w);
        match self.k.as_str() {
            "lit" => w.clone(),
            "dlr" => "$ ".into(),
            "var" => format!("${n}"),
            "brc" => format!("${{{n}}}"),
            "dfl" => format!("${{{n}:-{w}}}"),
            "asg" => format!("${{{n}:={w}}}"),
            "alt" => format!("${{{n}:+{w}}}"),
            "len" => format!("${{#{n}}}"),
            "inc" => format!("$(({n}={n}+1))"),
            "ari" => format!("$(({n}+{w}))"),
            "sta" => "$?".into(),
            "sub" => format!("$(echo {w})"),
            "err" => format!("${{{n}?{w}}}"),
            "bsl" => format!("\\{w}"),
            _ => String::new(),
        }
    }
    pub fn json(&self) -> Value {
        json!({"k": self.k, "n": self.n, "w": self.w})
    }
}

pub fn raw_ps(toks: &[Tok]) -> String {
    toks.iter().map(|t| t.raw()).collect()
}

pub fn no_ps() -> Vec<Tok> {
    vec![tok("unset", "", "")]
}

pub fn is_no_ps(t: &[Tok]) -> bool {
    t.len() == 1 && t[0].k == "unset"
}

#[derive(Clone, Debug)]
pub struct Cfg {
    pub src: String,
    pub tin: bool,
    pub terr: bool,
    pub iflag: String,
    pub ign: bool,
    pub vb: bool,
    pub mflag: String,
    pub ps1: Vec<Tok>,
    pub ps2: Vec<Tok>,
    /// "rc": PS1 / PS2 are set by the rcfile; "env": inherited from the environment
    pub via: String,
}

impl Cfg {
    pub fn rc_text(&self) -> String {
        let mut s = String::new();
        if self.via == "rc" {
            if !is_no_ps(&self.ps1) {
                s.push_str(&format!("PS1='{}'\n", raw_ps(&self.ps1)));
            }
            if !is_no_ps(&self.ps2) {
                s.push_str(&format!("PS2='{}'\n", raw_ps(&self.ps2)));
            }
        }
        s
    }
    pub fn interactive(&self) -> bool {
        self.iflag == "-i" || (self.iflag.is_empty() && self.src == "stdin" && self.tin && self.terr)
    }
    pub fn args(&self) -> Vec<String> {
        let mut a = vec![];
        if !self.rc_text().is_empty() {
            a.push("--rcfile".into());
            a.push("/tmp/rc".into());
        }
        if !self.iflag.is_empty() {
            a.push(self.iflag.clone());
        }
        if !self.mflag.is_empty() {
            a.push(self.mflag.clone());
        }
        if self.ign {
            a.push("-o".into());
            a.push("ignoreeof".into());
        }
        if self.vb {
            a.push("-v".into());
        }
        a
    }
    pub fn env(&self) -> Vec<(String, String)> {
        let mut e = vec![];
        if self.via != "env" {
            return e;
        }
        if !is_no_ps(&self.ps1) {
            e.push(("PS1".to_string(), raw_ps(&self.ps1)));
        }
        if !is_no_ps(&self.ps2) {
            e.push(("PS2".to_string(), raw_ps(&self.ps2)));
        }
        e
    }
    pub fn json(&self) -> Value {
        json!({"src": self.src, "tin": self.tin, "terr": self.terr, "iflag": self.iflag, "ign": self.ign, "vb": self.vb,
               "mflag": self.mflag, "via": self.via,
               "ps1": self.ps1.iter().map(|t| t.json()).collect::<Vec<_>>(),
               "ps2": self.ps2.iter().map(|t| t.json()).collect::<Vec<_>>()})
    }
}

#[derive(Clone, Debug)]
pub struct Ev {
    pub t: String,
    pub f: String,
    pub k: String,
    pub i: i64,
    pub toks: Vec<Tok>,
}

pub fn ev(t: &str, f: &str, k: &str, i: i64) -> Ev {
    Ev { t: t.into(), f: f.into(), k: k.into(), i, toks: vec![] }
}

impl Ev {
    pub fn json(&self) -> Value {
        json!({"t": self.t, "f": self.f, "k": self.k, "i": self.i, "toks": self.toks.iter().map(|t| t.json()).collect::<Vec<_>>()})
    }
}

fn tok_of(v: &Value) -> Tok {
    tok(v["k"].as_str().unwrap_or(""), v["n"].as_str().unwrap_or(""), v["w"].as_str().unwrap_or(""))
}

pub fn toks_of(v: &Value) -> Vec<Tok> {
    v.as_array().map(|a| a.iter().map(tok_of).collect()).unwrap_or_default()
}

pub fn cfg_of(v: &Value) -> Cfg {
    Cfg {
        src: v["src"].as_str().unwrap_or("stdin").into(),
        tin: v["tin"].as_bool().unwrap_or(true),
        terr: v["terr"].as_bool().unwrap_or(true),
        iflag: v["iflag"].as_str().unwrap_or("").into(),
        ign: v["ign"].as_bool().unwrap_or(false),
        vb: v["vb"].as_bool().unwrap_or(false),
        mflag: v["mflag"].as_str().unwrap_or("").into(),
        ps1: toks_of(&v["ps1"]),
        ps2: toks_of(&v["ps2"]),
        via: v["via"].as_str().unwrap_or("rc").into(),
    }
}

pub fn evs_of(v: &Value) -> Vec<Ev> {
    v.as_array()
        .map(|a| {
            a.iter()
                .map(|e| Ev {
                    t: e["t"].as_str().unwrap_or("").into(),
                    f: e["f"].as_str().unwrap_or("").into(),
                    k: e["k"].as_str().unwrap_or("").into(),
                    i: e["i"].as_i64().unwrap_or(0),
                    toks: toks_of(&e["toks"]),
                })
                .collect()
        })
        .unwrap_or_default()
}

pub const FORMS: [&str; 23] = [
    "if", "ifelse", "while", "until", "for", "case", "brace", "paren", "func", "sq", "dq", "bsnl", "pipe", "pipenl", "and",
    "or", "heredoc", "heredoc2", "heredash", "cmdsub", "arith", "param", "blank",
];
pub const EOF_FORMS: [&str; 12] = ["if", "while", "for", "case", "brace", "paren", "sq", "dq", "pipe", "and", "cmdsub", "blank"];
pub const ERR_FORMS: [&str; 14] = [
    "fi", "rparen", "done", "rbrace", "dsemi", "pipe0", "and0", "ifdone", "iffi", "whilefi", "bracep", "pipe2", "and2", "parenb",
];

/// The lines of a multi-line construct (how the user types it).
pub fn form_lines(f: &str, k: &str) -> Vec<String> {
    let v: Vec<String> = match f {
        "if" => vec!["if true; then".into(), format!("probe {k}"), "fi".into()],
        "ifelse" => vec!["if false".into(), "then probe no".into(), "else".into(), format!("probe {k}"), "fi".into()],
        "while" => vec!["while false; do".into(), "probe no".into(), "done".into()],
        "until" => vec![format!("until probe {k}"), "true".into(), "do probe no; done".into()],
        "for" => vec![format!("for i in {k}"), "do probe $i".into(), "done".into()],
        "case" => vec!["case a in".into(), format!("a) probe {k};;"), "esac".into()],
        "brace" => vec!["{".into(), format!("probe {k}"), "}".into()],
        "paren" => vec!["(".into(), format!("probe {k}"), ")".into()],
        "func" => vec!["f() {".into(), "probe no".into(), "}".into()],
        "sq" => vec![format!("probe '{k}"), "z'".into()],
        "dq" => vec![format!("probe \"{k}"), "z\"".into()],
        "bsnl" => vec![format!("probe {k}\\"), "z".into()],
        "pipe" => vec![format!("echo {k} |"), "cat".into()],
        "pipenl" => vec![format!("echo {k} |"), "".into(), "cat".into()],
        "and" => vec!["true &&".into(), format!("probe {k}")],
        "or" => vec!["false ||".into(), format!("probe {k}")],
        "heredoc" => vec!["cat <<E".into(), k.to_string(), "E".into()],
        "heredoc2" => vec![format!("cat <<E; probe {k}"), "a".into(), "b".into(), "E".into()],
        "heredash" => vec!["cat <<-E".into(), format!("\t{k}"), "\tE".into()],
        "cmdsub" => vec!["probe $(".into(), format!("echo {k}"), ")".into()],
        "arith" => vec!["probe $((1 +".into(), "2))".into()],
        "param" => vec![format!("probe \"${{nil:-{k}"), "z}\"".into()],
        "blank" => vec!["if true; then".into(), "".into(), "# c".into(), format!("probe {k}"), "fi".into()],
        _ => vec![],
    };
    v
}

pub fn err_lines(f: &str) -> Vec<String> {
    let v: &[&str] = match f {
        "fi" => &["fi"],
        "rparen" => &[")"],
        "done" => &["done"],
        "rbrace" => &["}"],
        "dsemi" => &[";;"],
        "pipe0" => &["| cat"],
        "and0" => &["&& probe no"],
        "ifdone" => &["if true; then", "probe no", "done"],
        "iffi" => &["if true", "fi"],
        "whilefi" => &["while true; do", "probe no", "fi"],
        "bracep" => &["{", "probe no", ")"],
        "pipe2" => &["echo no |", "| cat"],
        "and2" => &["true &&", "&& probe no"],
        "parenb" => &["(", "probe no", "}"],
        _ => &[],
    };
    v.iter().map(|s| s.to_string()).collect()
}

/// What the user types for the session: chunks of input, an end-of-file
/// condition after each (the last one for ever).  `cut`: the shell gives up
/// at the end-of-file condition inside the last event (a multi-line construct).
pub fn render(evs: &[Ev], cut: bool) -> Vec<String> {
    let mut chunks: Vec<String> = vec![];
    let mut cur = String::new();
    let line = |cur: &mut String, l: &str| {
        cur.push_str(l);
        cur.push('\n');
    };
    for (idx, e) in evs.iter().enumerate() {
        let last = idx + 1 == evs.len();
        match e.t.as_str() {
            "probe" => line(&mut cur, &format!("probe {}", e.k)),
            "echo" => line(&mut cur, &format!("echo {}", e.k)),
            "status" => line(&mut cur, &format!("status {}", e.i)),
            "empty" => line(&mut cur, ""),
            "comment" => line(&mut cur, &format!("# {}", e.k)),
            "ps" => line(&mut cur, &format!("{}='{}'", e.f, raw_ps(&e.toks))),
            "var" => line(&mut cur, &format!("{}='{}'", e.f, e.k)),
            "unset" => line(&mut cur, &format!("unset {}", e.f)),
            "opt" => line(&mut cur, &format!("set {}o {}", if e.i == 1 { "-" } else { "+" }, e.f)),
            "bg" => line(&mut cur, &format!("nap {} {}&", e.i, e.k)),
            "tick" => line(&mut cur, "tick"),
            "multi" => {
                let ls = form_lines(&e.f, &e.k);
                for (j, l) in ls.iter().enumerate() {
                    line(&mut cur, l);
                    if e.i as usize == j + 1 && j + 1 < ls.len() {
                        chunks.push(std::mem::take(&mut cur));
                        if last && cut {
                            // the session ends here: the rest of the construct is never typed
                            break;
                        }
                    }
                }
            }
            "synerr" => {
                for l in err_lines(&e.f) {
                    line(&mut cur, &l);
                }
            }
            "eof" => chunks.push(std::mem::take(&mut cur)),
            "read" => {
                line(&mut cur, "read v");
                for j in 1..=e.i {
                    line(&mut cur, &format!("{}{}\\", e.k, j));
                }
                line(&mut cur, &format!("{}z", e.k));
                line(&mut cur, "probe \"$v\"");
            }
            "exit" => line(&mut cur, "exit"),
            _ => {}
        }
    }
    if !(cur.is_empty() && !chunks.is_empty()) {
        chunks.push(cur);
    }
    chunks
}

// ---------------------------------------------------------------------------
// random sessions
// ---------------------------------------------------------------------------

fn lit(s: &str) -> Tok {
    tok("lit", "", s)
}

fn name_start(s: &str) -> bool {
    s.chars().next().map(|c| c.is_ascii_alphanumeric() || c == '_').unwrap_or(false)
}

fn atoms() -> Vec<Tok> {
    vec![
        tok("var", "x", ""), tok("brc", "x", ""), tok("var", "u", ""), tok("dfl", "u", "d"), tok("dfl", "x", "d e"),
        tok("dfl", "u", "a!b"), tok("asg", "u", "w"), tok("asg", "x", "w w"), tok("alt", "x", "y"), tok("alt", "u", "y"),
        tok("len", "x", ""), tok("inc", "n", ""), tok("ari", "n", "2"), tok("ari", "n", "40"), tok("sta", "", ""),
        tok("sub", "", "c"), tok("sub", "", "c d"), tok("err", "x", "m"), lit("!"), lit("!!"), lit("!!!"), lit("a!b"),
        lit("-"), lit(": "), lit("q"), tok("bsl", "", "\\"), tok("bsl", "", "$x"), tok("dlr", "", ""), tok("brc", "n", ""),
    ]
}

/// A prompt string "@" atoms... " " obeying the well-formedness rules of the
/// generated sessions (Gen_Prompt!GoodPS) and never failing.
pub fn random_ps<R: Rng>(rng: &mut R, mark: &str) -> Vec<Tok> {
    let all = atoms();
    let n = rng.gen_range(0..=4);
    let mut out = vec![lit(mark)];
    for _ in 0..n {
        for _try in 0..8 {
            let a = all.choose(rng).unwrap().clone();
            let prev = out.last().unwrap();
            let bad = ((prev.k == "var" || (prev.k == "bsl" && prev.w == "$x")) && a.k == "lit" && name_start(&a.w))
                || (prev.k == "bsl" && a.k == "lit" && a.w.starts_with('!'))
                || (prev.k == "lit" && a.k == "bsl")
                || (prev.k == "bsl" && a.k == "bsl");
            if !bad {
                out.push(a);
                break;
            }
        }
    }
    if out.last().unwrap().k == "bsl" {
        out.push(tok("sta", "", ""));
    }
    // what a failing expansion does to the variables before it fails is open
    if out.iter().any(|t| t.k == "err") && out.iter().any(|t| t.k == "inc" || t.k == "asg") {
        out.retain(|t| t.k != "err");
    }
    out.push(lit(" "));
    out
}

pub fn random_cfg<R: Rng>(rng: &mut R) -> Cfg {
    let src = *["stdin", "stdin", "stdin", "stdin", "cmd", "file"].choose(rng).unwrap();
    let tin = rng.gen_bool(0.7);
    let terr = if tin { rng.gen_bool(0.85) } else { rng.gen_bool(0.3) };
    let iflag = *["", "", "-i", "-i", "+i"].choose(rng).unwrap();
    let marked = rng.gen_bool(0.8);
    Cfg {
        src: src.into(),
        tin,
        terr,
        iflag: iflag.into(),
        ign: rng.gen_bool(0.35),
        vb: rng.gen_bool(0.15),
        mflag: (*["", "", "", "+m", "-m"].choose(rng).unwrap()).into(),
        ps1: if marked { random_ps(rng, "@") } else { no_ps() },
        ps2: if marked { random_ps(rng, "@~") } else { no_ps() },
        via: (if rng.gen_bool(0.3) { "env" } else { "rc" }).into(),
    }
}

/// A random session obeying Gen_Prompt!Allowed-like preconditions (the trace
/// specification checks them again and classes a record "skip" otherwise).
pub fn random_session<R: Rng>(rng: &mut R) -> (Cfg, Vec<Ev>, bool) {
    let c = random_cfg(rng);
    let n = rng.gen_range(2..=9);
    let mut evs: Vec<Ev> = vec![];
    let can_eof = c.src == "stdin" && c.tin;
    // does the shell survive an end-of-file condition / a syntax error here (approximation
    // only used to avoid generating events after the end of the session)
    let mut ign = c.ign;
    let can_ignore = c.interactive() && can_eof;
    let mut jobs = 0;
    let mut eofs = 0;
    let mut cut = false;
    for _ in 0..n {
        let r = rng.gen_range(0..100);
        let k = (*["a", "b", "k"].choose(rng).unwrap()).to_string();
        let e = if r < 14 {
            ev("probe", "", &k, 0)
        } else if r < 30 {
            let f = *FORMS.choose(rng).unwrap();
            ev("multi", f, &k, 0)
        } else if r < 38 {
            let f = *ERR_FORMS.choose(rng).unwrap();
            let e = ev("synerr", f, "", 0);
            if !c.interactive() {
                evs.push(e);
                break;
            }
            e
        } else if r < 50 {
            let mut e = ev("ps", if rng.gen_bool(0.7) { "PS1" } else { "PS2" }, "", 0);
            e.toks = random_ps(rng, if e.f == "PS1" { "@" } else { "@~" });
            e
        } else if r < 56 {
            let v = *["v", "p!!q!", "", "a b", "7"].choose(rng).unwrap();
            ev("var", "x", v, 0)
        } else if r < 59 {
            ev("unset", *["x", "u", "n"].choose(rng).unwrap(), "", 0)
        } else if r < 63 {
            ev("status", "", "", *[0, 1, 3, 42].choose(rng).unwrap())
        } else if r < 68 {
            let on = rng.gen_bool(0.6);
            ign = on;
            ev("opt", "ignoreeof", "", on as i64)
        } else if r < 70 {
            ev("opt", "verbose", "", rng.gen_bool(0.5) as i64)
        } else if r < 78 && jobs < 2 && c.src == "stdin" {
            jobs += 1;
            ev("bg", "", *["0", "3"].choose(rng).unwrap(), rng.gen_range(1..=2))
        } else if r < 88 && jobs > 0 {
            ev("tick", "", "", 0)
        } else if r < 93 && can_eof && eofs < 3 {
            eofs += 1;
            if rng.gen_bool(0.5) {
                let f = *EOF_FORMS.choose(rng).unwrap();
                let nl = form_lines(f, &k).len() as i64;
                let e = ev("multi", f, &k, rng.gen_range(1..nl));
                if !(can_ignore && ign) {
                    evs.push(e);
                    cut = true;
                    break;
                }
                e
            } else {
                let e = ev("eof", "", "", 0);
                if !(can_ignore && ign) {
                    evs.push(e);
                    break;
                }
                e
            }
        } else if r < 96 && c.src == "stdin" && !c.vb {
            ev("read", "", "r", rng.gen_range(0..=2))
        } else if r < 97 {
            evs.push(ev("exit", "", "", 0));
            break;
        } else if r < 98 {
            ev("echo", "", "o", 0)
        } else {
            ev(if rng.gen_bool(0.5) { "empty" } else { "comment" }, "", "c", 0)
        };
        evs.push(e);
    }
    (c, evs, cut)
}
