def t(s): return "<<" + ", ".join(str(ord(c)) for c in s) + ">>"
def fields(fs): return "<<" + ", ".join(t(f) for f in fs) + ">>"
BS = chr(92); SQ = chr(39); DQ = chr(34); NL = chr(10); TAB = chr(9)
cases = [
 ("quoting.md 'Single quotes': echo '\"$foo\"'", SQ+DQ+"$foo"+DQ+SQ, [DQ+"$foo"+DQ]),
 ("quoting.md 'Single quotes': newline inside single quotes", SQ+"foo"+NL+"bar"+SQ, ["foo"+NL+"bar"]),
 ("quoting.md 'Single quotes': echo \"'\"", DQ+SQ+DQ, [SQ]),
 ("quoting.md 'Single quotes': echo \\'", BS+SQ, [SQ]),
 ("quoting.md 'Backslash': cat My\\ Diary.txt", "My"+BS+" Diary.txt", ["My Diary.txt"]),
 ("quoting.md 'Backslash': \"My\\ Diary\\$.txt\" is the file My\\ Diary$.txt", DQ+"My"+BS+" Diary"+BS+"$.txt"+DQ, ["My"+BS+" Diary$.txt"]),
 ("quoting.md 'Line continuation' inside double quotes", DQ+"This is a long command that "+BS+NL+"continues on the next line"+DQ, ["This is a long command that continues on the next line"]),
 ("comments.md: echo \"Hello, world!\"# This is not a comment", DQ+"Hello, world!"+DQ+"# This is not a comment", ["Hello, world!#", "This", "is", "not", "a", "comment"]),
 ("comments.md: echo \"Hello, world!\"  # This prints a message", DQ+"Hello, world!"+DQ+"  # This prints a message", ["Hello, world!"]),
 ("quote-p.sh:8 backslash (not preceding newline), line 1", r"\ \!\$x\%\&\(\)\*\+\,\-\.\/ \# \"x\" \'x" + BS + SQ, [" !$x%&()*+,-./", "#", '"x"', "'x'"]),
 ("quote-p.sh:9 line 2", r"\0\1\2\3\4\5\6\7\8\9\:\;\<\=\>\?", ["0123456789:;<=>?"]),
 ("quote-p.sh:10 line 3 (tail)", r"\@\A\B\C\[\]\^\_ \\ \\\\", ["@ABC[]^_", BS, BS+BS]),
 ("quote-p.sh:11 line 4 (tail)", r"\x\y\z\{\|\}\~ \`\`", ["xyz{|}~", "``"]),
 ("quote-p.sh:20 line continuation in normal word", "123"+BS+NL+"456"+BS+NL+BS+NL+"789 "+BS+NL+"ABC"+BS+NL+" DEF", ["123456789", "ABC", "DEF"]),
 ("quote-p.sh:389 single quotes", "'abc' '\"a\"' 'a"+BS+BS+"b' 'a''''''b'", ["abc", '"a"', "a"+BS+BS+"b", "ab"]),
 ("quote-p.sh:390 single quotes with newlines", "'a"+NL+"b' 'a"+NL+NL+"b'", ["a"+NL+"b", "a"+NL+NL+"b"]),
 ("quote-p.sh:416 double quotes", '"abc" "' + SQ + "a" + SQ + '"', ["abc", "'a'"]),
 ("quote-p.sh:454 backslashes in double quotes", DQ+"a"+BS+BS+"b"+DQ+" "+DQ+"a"+BS*4+"b"+DQ, ["a"+BS+"b", "a"+BS+BS+"b"]),
 ("quote-p.sh:455", DQ+"a"+BS+"$b"+DQ+" "+DQ+"a"+BS+"`b"+BS+"`c"+DQ+" "+DQ+"a"+BS+DQ+"b"+BS+DQ+"c"+DQ, ["a$b", "a`b`c", 'a"b"c']),
 ("quote-p.sh:456 line continuation in double quotes", DQ+"a"+BS+NL+"b"+BS+NL+"c"+DQ, ["abc"]),
 ("quote-p.sh:459", DQ+r"\ \!\#\$x\%\&"+BS+SQ+r"\(\)\*\+\,\-\.\/"+DQ, [r"\ \!\#$x\%\&"+BS+SQ+r"\(\)\*\+\,\-\.\/"]),
 ("quote-p.sh:461 (part)", DQ+r"\@\A\[\\\]\^\_"+DQ, [r"\@\A\[\\]\^\_"]),
 ("quote-p.sh:463 tab and newline in double quotes", DQ+"a"+TAB+NL+TAB+"b"+DQ, ["a"+TAB+NL+TAB+"b"]),
]
undef = [
 ("tilde.md: echo ~/Documents", "~/Documents", "tilde"),
 ("tilde.md: echo ~'b'ob (a quoted part makes the shell under test treat it literally; the reader stays conservative)", "~'b'ob", "tilde"),
 ("quoting.md: parameter expansion in double quotes", DQ+"foo='$foo'"+DQ, "expansion"),
 ("globbing.md: echo *", "*", "pattern"),
 ("XCU 2.2: an unquoted ; is an operator", "a;b", "operator"),
 ("XCU 2.2.2: a single quote cannot occur within single quotes", "'a'b'", "unterminated single quote"),
]
out = []
out.append("----------------------------- MODULE Calib_Quote -----------------------------")
out.append("(***************************************************************************)")
out.append("(* Calibration of the reader of Quote.tla (DESIGN.md 4.4): worked examples *)")
out.append("(* transcribed from the manual (docs/src/language/words/*.md) and from the  *)")
out.append("(* POSIX conformance cases yash-cli/tests/scripted_test/quote-p.sh.  Each   *)")
out.append("(* ASSUME gives the text written after the command name and the fields the  *)")
out.append("(* command receives.  A failing ASSUME is a tool error, never a violation.  *)")
out.append("(* The comment above each ASSUME shows the source and the text.             *)")
out.append("(***************************************************************************)")
out.append("EXTENDS Quote")
out.append("")
for src, text, exp in cases:
    out.append("\\* " + src)
    out.append("\\*   text:   " + repr(text))
    out.append("\\*   fields: " + repr(exp))
    out.append('ASSUME LET r == Read("arg", %s) IN r.ok /\\ r.f = %s' % (t(text), fields(exp)))
    out.append("")
for src, text, why in undef:
    out.append("\\* " + src)
    out.append("\\*   text:   " + repr(text))
    out.append('ASSUME LET r == Read("arg", %s) IN ~r.ok /\\ r.why = "%s"' % (t(text), why))
    out.append("")
out.append("\\* tilde.md: in assignments tilde expansion happens at the start of the value and after each `:`")
out.append('ASSUME ~Read("value", %s).ok /\\ ~Read("value", %s).ok' % (t("~/bin:/usr/bin"), t("/bin:~bob/bin")))
out.append('ASSUME ~Read("decl", %s).ok /\\ ~Read("decl", %s).ok' % (t("PATH=/bin:~/bin"), t("PATH=~/bin")))
out.append("\\* ... but not in an ordinary argument, nor when the `~` is quoted")
out.append('ASSUME ReadsAs("arg", %s, %s)' % (t("PATH=/bin:~/bin"), t("PATH=/bin:~/bin")))
out.append('ASSUME ReadsAs("value", %s, %s)' % (t("/bin:"+BS+"~/bin"), t("/bin:~/bin")))
out.append("\\* comments.md: a `#` inside a word does not start a comment")
out.append('ASSUME ReadsAs("value", %s, %s) /\\ Read("arg", %s).f = <<>>' % (t("#x"), t("#x"), t("#x")))
out.append("\\* keywords.md: echo { do re mi } prints { do re mi } (braces in different words are no pair)")
out.append('ASSUME Read("arg", %s).f = %s' % (t("{ do re mi }"), fields(["{", "do", "re", "mi", "}"])))
out.append("\\* keywords.md: reserved words must be quoted to be used as a command name; {echo is a command name")
out.append('ASSUME ~CommandWordSafe(%s) /\\ CommandWordSafe(%s) /\\ ~CommandWordSafe(%s) /\\ CommandWordSafe(%s)'
           % (t("if"), t(BS+"if"), t("a=b"), t("{echo")))
out.append("\\* yash-quote rustdoc examples: foo, '', '$foo', \"'\\$foo'\"")
out.append('ASSUME QuoteRule(%s) = %s /\\ QuoteRule(<<>>) = %s' % (t("foo"), t("foo"), t(SQ+SQ)))
out.append('ASSUME QuoteRule(%s) = %s' % (t("$foo"), t(SQ+"$foo"+SQ)))
out.append('ASSUME QuoteRule(%s) = %s' % (t(SQ+"$foo"+SQ), t(DQ+SQ+BS+"$foo"+SQ+DQ)))
out.append("=============================================================================")
open("/verif/spec/Calib_Quote.tla","w").write("\n".join(out)+"\n")
open("/verif/spec/Calib_Quote.cfg","w").write("\\* no behaviour: only the ASSUMEs of Calib_Quote.tla are evaluated\n")
