//! C07 binding (i): the real `yash_quote::quote` and the real reader.
//!
//! For every string s (enumerated by TLC from spec/MC_Quote.tla, or drawn at
//! random) one record `{s, q, pn, fa, fe, fv, fd, fr}` is written:
//! q = `yash_quote::quote(s)` and what the real shell (simulated OS, real
//! lexer/parser/expansion) reads when q is written in each context where a
//! word is expanded.  Strings travel as arrays of code points.  The verdict is
//! Trace_Quote.tla's; nothing is judged here.
use rand::{Rng, SeedableRng};
use serde_json::{Value, json};
use std::collections::HashMap;
use std::io::{BufRead, Write};
use yash_env::variable::Scope;
use yvcommon::shell::{FileSpec, ShellCfg, run_shell};
use yvcommon::util;

pub fn cps(s: &str) -> Vec<u32> {
    s.chars().map(|c| c as u32).collect()
}

pub fn from_cps(v: &Value) -> String {
    v.as_array()
        .expect("code point array")
        .iter()
        .map(|c| char::from_u32(c.as_u64().expect("code point") as u32).expect("valid code point"))
        .collect()
}

/// The five contexts, by tag.
const CTX: [&str; 5] = ["A", "E", "V", "D", "R"];
const KEYS: [&str; 5] = ["fa", "fe", "fv", "fd", "fr"];

fn ctx_line(tag: &str, i: usize, q: &str) -> String {
    match tag {
        "A" => format!("probe A {i} {q}\n"),
        "E" => format!("eval \"probe E {i} $Q{i}\"\n"),
        "V" => format!("v={q}; probe V {i} \"$v\"\n"),
        "D" => format!("typeset w={q}; probe D {i} \"$w\"\n"),
        "R" => format!("r=({q}); probe R {i} \"$r\"\n"),
        _ => unreachable!(),
    }
}

/// The simulated machine every reader run starts on: a home directory (so that
/// a tilde expansion would be visible), and a working directory holding files
/// (so that a pathname expansion would be visible).
pub fn reader_cfg(script: String, vars: Vec<(String, String)>) -> ShellCfg {
    let mut cfg = ShellCfg::stdin_script(script.as_bytes());
    cfg.env = vec![("HOME".into(), "/home/u".into())];
    cfg.cwd = Some("/tmp/w".into());
    cfg.files.push(FileSpec::Dir { path: "/tmp/w".into() });
    for name in ["a", "aa", "=", ":", "a=a", "{a}", "[a]"] {
        cfg.files.push(FileSpec::Regular { path: format!("/tmp/w/{name}"), content: vec![], mode: 0o644 });
    }
    cfg.step_limit = 5_000_000;
    cfg.setup = Some(Box::new(move |env, _| {
        for (n, v) in vars {
            let mut var = env.variables.get_or_new(n, Scope::Global);
            let _ = var.assign(v, None);
        }
    }));
    cfg
}

/// Observations (tag, index) -> list of field lists, one per matching event.
fn collect(events: &[Value]) -> HashMap<(String, usize), Vec<Vec<String>>> {
    let mut m: HashMap<(String, usize), Vec<Vec<String>>> = HashMap::new();
    for e in events {
        if e["ev"] != "probe" {
            continue;
        }
        let args: Vec<String> = e["args"].as_array().unwrap().iter().map(|a| a.as_str().unwrap().to_string()).collect();
        if args.len() < 2 {
            continue;
        }
        let Ok(i) = args[1].parse::<usize>() else { continue };
        m.entry((args[0].clone(), i)).or_default().push(args[2..].to_vec());
    }
    m
}

fn obs_json(o: Option<&Vec<Vec<String>>>) -> Value {
    match o {
        Some(v) if v.len() == 1 => json!({"ok": true, "f": v[0].iter().map(|f| cps(f)).collect::<Vec<_>>()}),
        _ => json!({"ok": false, "f": []}),
    }
}

/// Reads every q back in all contexts; `items` are (s, q).
fn read_back(items: &[(String, String)]) -> Vec<[Value; 5]> {
    let mut script = String::new();
    let mut vars = vec![];
    for (i, (_, q)) in items.iter().enumerate() {
        for tag in CTX {
            script.push_str(&ctx_line(tag, i, q));
        }
        vars.push((format!("Q{i}"), q.clone()));
    }
    let r = run_shell(reader_cfg(script, vars));
    let m = collect(&r.events);
    let mut out: Vec<[Value; 5]> = vec![];
    let mut clean = matches!(r.outcome, yvcommon::sched::Outcome::Completed);
    for (i, (s, _)) in items.iter().enumerate() {
        let o: [Value; 5] = std::array::from_fn(|k| obs_json(m.get(&(CTX[k].to_string(), i))));
        let want = json!({"ok": true, "f": [cps(s)]});
        if o.iter().any(|v| *v != want) {
            clean = false;
        }
        out.push(o);
    }
    if clean || items.len() == 1 && false {
        return out;
    }
    // Something in this batch did not read back (or the run did not complete):
    // a broken word can disturb its neighbours, so observe every item and
    // every context of the batch in a run of its own.
    items
        .iter()
        .map(|(_, q)| {
            std::array::from_fn(|k| {
                let r = run_shell(reader_cfg(ctx_line(CTX[k], 0, q), vec![("Q0".to_string(), q.clone())]));
                let m = collect(&r.events);
                obs_json(m.get(&(CTX[k].to_string(), 0)))
            })
        })
        .collect()
}

fn process(strings: &[String], out: &mut dyn Write) {
    let threads = std::env::var("VERIF_THREADS").ok().and_then(|s| s.parse().ok()).unwrap_or(8usize).max(1);
    let per = strings.len().div_ceil(threads).max(1);
    let parts: Vec<Vec<u8>> = std::thread::scope(|s| {
        let handles: Vec<_> = strings
            .chunks(per)
            .map(|slice| {
                s.spawn(move || {
                    let mut buf: Vec<u8> = Vec::new();
                    process_slice(slice, &mut buf);
                    buf
                })
            })
            .collect();
        handles.into_iter().map(|h| h.join().expect("worker thread")).collect()
    });
    for p in parts {
        out.write_all(&p).unwrap();
    }
}

fn process_slice(strings: &[String], out: &mut dyn Write) {
    const BATCH: usize = 200;
    for chunk in strings.chunks(BATCH) {
        let quoted: Vec<Result<String, String>> =
            chunk.iter().map(|s| util::catch(|| yash_quote::quote(s).into_owned())).collect();
        // `quoted(s)` (the Display wrapper) must print the same text
        let items: Vec<(String, String)> = chunk
            .iter()
            .zip(&quoted)
            .filter_map(|(s, q)| q.as_ref().ok().map(|q| (s.clone(), q.clone())))
            .collect();
        let obs = read_back(&items);
        let mut k = 0;
        for (s, q) in chunk.iter().zip(&quoted) {
            let none = json!({"ok": false, "f": []});
            let mut rec = serde_json::Map::new();
            rec.insert("s".into(), json!(cps(s)));
            match q {
                Ok(q) => {
                    let disp = util::catch(|| yash_quote::quoted(s).to_string());
                    // the two public entry points must agree; a disagreement is
                    // reported through the record of the Display form as well
                    rec.insert("q".into(), json!(cps(q)));
                    rec.insert("pn".into(), json!(disp.as_deref() != Ok(q.as_str())));
                    for (j, key) in KEYS.iter().enumerate() {
                        rec.insert((*key).into(), obs[k][j].clone());
                    }
                    k += 1;
                }
                Err(_) => {
                    rec.insert("q".into(), json!([]));
                    rec.insert("pn".into(), json!(true));
                    for key in KEYS {
                        rec.insert(key.into(), none.clone());
                    }
                }
            }
            writeln!(out, "{}", Value::Object(rec)).unwrap();
        }
    }
}

/// `quote --in gen.ndjson --out trace.ndjson`: one record per TLC-enumerated s.
pub fn enumerated(args: &[String]) -> i32 {
    let input = util::open_in(args);
    let mut out = util::open_out(args);
    let mut strings = vec![];
    for line in input.lines() {
        let line = line.unwrap();
        if line.trim().is_empty() {
            continue;
        }
        let v: Value = serde_json::from_str(&line).expect("json line");
        strings.push(from_cps(&v["s"]));
    }
    process(&strings, &mut *out);
    out.flush().unwrap();
    0
}

/// Characters the random strings are drawn from: every shell-special
/// character, quotes, newline, blanks of all kinds, ordinary and non-ASCII
/// letters.
pub const BIG_ALPHABET: &[char] = &[
    'a', 'b', 'Z', '0', '7', '_', '=', '$', '"', '\'', '\\', '`', ' ', '\t', '\n', ';', '&', '|', '(', ')', '<', '>',
    '*', '?', '[', ']', '{', '}', '#', '~', ':', '!', '\u{3000}', '-', '%', '^', ',', '.', '/', '+', '@', '\r',
    '\u{b}', '\u{c}', '\u{a0}', '\u{85}', '\u{2003}', '\u{2028}', '\u{1680}', '\u{feff}', '\u{e9}', '\u{3042}',
    '\u{1f600}', '\u{7f}', '\u{1}', '\u{200b}',
];

pub fn random_string(rng: &mut impl Rng, maxlen: usize) -> String {
    let n = rng.gen_range(0..=maxlen);
    // half of the strings favour the characters that interact with quoting
    let hot = rng.gen_bool(0.5);
    (0..n)
        .map(|_| {
            if hot && rng.gen_bool(0.6) {
                *[ '\'', '"', '\\', '$', '`', '\n', '~', ':', '{', '}', '[', ']', '#', ' ' ].get(rng.gen_range(0..14)).unwrap()
            } else {
                BIG_ALPHABET[rng.gen_range(0..BIG_ALPHABET.len())]
            }
        })
        .collect()
}

/// `quote-random --n N --maxlen L --out trace.ndjson`
pub fn random(args: &[String]) -> i32 {
    let n = util::opt_usize(args, "--n", 1000);
    let maxlen = util::opt_usize(args, "--maxlen", 40);
    let mut out = util::open_out(args);
    let mut rng = rand::rngs::StdRng::seed_from_u64(util::seed().wrapping_mul(0x9E37_79B9).wrapping_add(7));
    let strings: Vec<String> = (0..n).map(|_| random_string(&mut rng, maxlen)).collect();
    process(&strings, &mut *out);
    out.flush().unwrap();
    0
}
