//! Conformance harness for property C07, see /verif/DESIGN.md.
fn main() {
    eprintln!("yv-c07: not implemented yet");
    std::process::exit(2);
}
