//! Conformance harness for property C07 (quoting round trip and state
//! listings), see /verif/DESIGN.md section 6 and spec/Quote.tla,
//! spec/ShellState.tla.
mod quote;
mod state;

fn main() {
    let args: Vec<String> = std::env::args().collect();
    if args.len() < 2 {
        eprintln!("usage: yv-c07 <quote|quote-random|quote-redo|state|state-random|state-redo> ...");
        std::process::exit(2);
    }
    yvcommon::util::quiet_panics();
    let rest = &args[2..];
    let code = match args[1].as_str() {
        "quote" => quote::enumerated(rest),
        "quote-random" => quote::random(rest),
        "state" => state::replay(rest),
        "state-random" => state::random(rest),
        other => {
            eprintln!("unknown subcommand {other}");
            2
        }
    };
    std::process::exit(code);
}
