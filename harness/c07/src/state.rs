pub fn replay(_args: &[String]) -> i32 { 2 }
pub fn random(_args: &[String]) -> i32 { 2 }
