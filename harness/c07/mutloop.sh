#!/bin/sh
# Same procedure as tools/mutcheck, with a persistent scratch worktree and
# harness copy so that cargo rebuilds only what a patch touches.
D=/tmp/vmut-C07-persist
if [ ! -d "$D/repo" ]; then
  mkdir -p "$D"
  git -C /repo worktree add --detach "$D/repo" HEAD >/dev/null 2>&1 || { echo "worktree failed"; exit 2; }
fi
mkdir -p "$D/harness"
(cd /verif/harness && tar cf - --exclude=target .) | (cd "$D/harness" && tar xf -)
sed -i "s#\"/repo/#\"$D/repo/#g" "$D/harness/Cargo.toml"
sed -i "s#VERIF_REPO = \"/repo\"#VERIF_REPO = \"$D/repo\"#" "$D/harness/.cargo/config.toml"
for m in "$@"; do
  P=/verif/seeded/selftest/C07/$m.diff
  git -C "$D/repo" checkout -q -- . 
  git -C "$D/repo" apply "$P" || { echo "$m: patch does not apply"; continue; }
  rm -rf "$D/out"
  VERIF_HARNESS_DIR="$D/harness" VERIF_SCRATCH="$D/out" VERIF_REPO="$D/repo" /verif/check C07 --tier quick > /verif/work/c07mut/$m.log 2>&1
  echo "$m rc=$?"
  git -C "$D/repo" checkout -q -- .
done
