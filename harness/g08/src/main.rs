//! Conformance harness for specification-growth module G08: resource limits,
//! the file mode creation mask and the process times - the built-ins `ulimit`,
//! `umask`, `times` and the system calls below them (spec/Limits.tla).
//!
//! `platform` prints the platform record and the initial state of a system
//!            (simulated / real) as JSON: what TLC needs to enumerate and judge.
//! `replay`   spec -> impl: reads the lines TLC printed from spec/Gen_Limits.tla
//!            (one per reachable state: witness, read-back commands, and the
//!            fan = short command sequences with the allowed alternatives).
//!            For every (state, entry) one subshell of the real shell runs the
//!            witness, the entry and the read-back; exit status, standard
//!            output and "anything on standard error" of every command are
//!            compared with the alternatives.  Anything but an exact match is
//!            written out for the judge (spec/Trace_Limits.tla).  The family
//!            "calls" is run on the system objects directly (VirtualSystem in
//!            process, RealSystem in forked children of a re-executed child).
//! `random`   impl -> spec: seeded random command sequences (shell layer and
//!            call layer), recorded for validation by spec/Trace_Limits.tla.
//! `redo`     re-executes recorded sequences (replay files, anti-vacuity tests).
//!
//! The real side always runs in re-executed children: they raise every soft
//! limit to its hard limit, set the mask to 022, give up CAP_SYS_RESOURCE if
//! they have it (so that the real process is unprivileged like the simulated
//! one) and only then start the shell / perform the calls.
use rand::rngs::StdRng;
use rand::{Rng, SeedableRng};
use serde_json::{Value, json};
use std::io::{BufRead, Read, Write};
use std::pin::Pin;
use std::rc::Rc;
use std::sync::Mutex;
use std::sync::atomic::{AtomicBool, AtomicUsize, Ordering};
use yash_cli::startup::args::Parse;
use yash_env::Env;
use yash_env::RealSystem;
use yash_env::VirtualSystem;
use yash_env::builtin::{Builtin, Result as BResult, Type};
use yash_env::io::Fd;
use yash_env::semantics::{ExitStatus, Field, exit_or_raise};
use yash_env::system::resource::{GetRlimit, INFINITY, Limit, LimitPair, Resource, SetRlimit};
use yash_env::system::{Concurrent, CpuTimes, Disposition, Errno, Mode, Sigaction as _, Signals as _, Umask};
use yvcommon::real::{RealCfg, run_real};
use yvcommon::sched::Outcome;
use yvcommon::shell::{ShellCfg, ShellSystem, Sys, register_generic_probes, run_shell, shell_body};
use yvcommon::util::{catch, open_in, open_out, opt, opt_usize};

// ---------------------------------------------------------------------------
// resources: option letter (the model's name) -> Resource / libc constant.
// Written from the manual's option list, independently of yash-builtin's table.
// ---------------------------------------------------------------------------
const LETTERS: [&str; 19] = ["b", "c", "d", "e", "f", "i", "k", "l", "m", "n", "q", "R", "r", "s", "t", "u", "v", "w", "x"];

fn resource_of(letter: &str) -> Option<Resource> {
    Some(match letter {
        "b" => Resource::SBSIZE,
        "c" => Resource::CORE,
        "d" => Resource::DATA,
        "e" => Resource::NICE,
        "f" => Resource::FSIZE,
        "i" => Resource::SIGPENDING,
        "k" => Resource::KQUEUES,
        "l" => Resource::MEMLOCK,
        "m" => Resource::RSS,
        "n" => Resource::NOFILE,
        "q" => Resource::MSGQUEUE,
        "R" => Resource::RTTIME,
        "r" => Resource::RTPRIO,
        "s" => Resource::STACK,
        "t" => Resource::CPU,
        "u" => Resource::NPROC,
        "v" => Resource::AS,
        "w" => Resource::SWAP,
        "x" => Resource::LOCKS,
        _ => return None,
    })
}

/// The kernel's own number of the resource (Linux), or None if it has none.
fn libc_resource(letter: &str) -> Option<libc::__rlimit_resource_t> {
    Some(match letter {
        "c" => libc::RLIMIT_CORE,
        "d" => libc::RLIMIT_DATA,
        "e" => libc::RLIMIT_NICE,
        "f" => libc::RLIMIT_FSIZE,
        "i" => libc::RLIMIT_SIGPENDING,
        "l" => libc::RLIMIT_MEMLOCK,
        "m" => libc::RLIMIT_RSS,
        "n" => libc::RLIMIT_NOFILE,
        "q" => libc::RLIMIT_MSGQUEUE,
        "R" => libc::RLIMIT_RTTIME,
        "r" => libc::RLIMIT_RTPRIO,
        "s" => libc::RLIMIT_STACK,
        "t" => libc::RLIMIT_CPU,
        "u" => libc::RLIMIT_NPROC,
        "v" => libc::RLIMIT_AS,
        "x" => libc::RLIMIT_LOCKS,
        _ => return None, // b (sbsize), k (kqueues), w (swap): BSD only
    })
}

fn lim_text(v: u64) -> String {
    if v == INFINITY as u64 { "inf".to_string() } else { v.to_string() }
}

fn parse_lim(s: &str) -> Option<Limit> {
    if s == "inf" { Some(INFINITY) } else { s.parse::<u64>().ok().map(|v| v as Limit) }
}

fn libc_getrlimit(letter: &str) -> Option<(u64, u64)> {
    let r = libc_resource(letter)?;
    let mut l = libc::rlimit { rlim_cur: 0, rlim_max: 0 };
    if unsafe { libc::getrlimit(r, &mut l) } != 0 {
        return None;
    }
    Some((l.rlim_cur as u64, l.rlim_max as u64))
}

fn errno_name(e: Errno) -> String {
    if e == Errno::EINVAL {
        "EINVAL".into()
    } else if e == Errno::EPERM {
        "EPERM".into()
    } else {
        format!("errno {}", e.0)
    }
}

// ---------------------------------------------------------------------------
// privileges of the real process
// ---------------------------------------------------------------------------
const CAP_SYS_RESOURCE: u32 = 24;

fn has_cap_sys_resource() -> bool {
    let Ok(s) = std::fs::read_to_string("/proc/self/status") else { return false };
    for l in s.lines() {
        if let Some(v) = l.strip_prefix("CapEff:") {
            if let Ok(bits) = u64::from_str_radix(v.trim(), 16) {
                return bits & (1 << CAP_SYS_RESOURCE) != 0;
            }
        }
    }
    false
}

/// Gives up CAP_SYS_RESOURCE (effective and permitted); true if the process
/// is without it afterwards.
fn drop_cap_sys_resource() -> bool {
    if !has_cap_sys_resource() {
        return true;
    }
    #[repr(C)]
    struct Hdr {
        version: u32,
        pid: i32,
    }
    #[repr(C)]
    #[derive(Clone, Copy)]
    struct Data {
        effective: u32,
        permitted: u32,
        inheritable: u32,
    }
    let mut hdr = Hdr { version: 0x2008_0522, pid: 0 };
    let mut data = [Data { effective: 0, permitted: 0, inheritable: 0 }; 2];
    unsafe {
        if libc::syscall(libc::SYS_capget, &mut hdr as *mut Hdr, data.as_mut_ptr()) != 0 {
            return false;
        }
        data[0].effective &= !(1 << CAP_SYS_RESOURCE);
        data[0].permitted &= !(1 << CAP_SYS_RESOURCE);
        if libc::syscall(libc::SYS_capset, &mut hdr as *mut Hdr, data.as_ptr()) != 0 {
            return false;
        }
    }
    !has_cap_sys_resource()
}

/// What every real child does first: soft limits up to the hard limits, mask
/// 022, no privilege to raise hard limits.
fn real_presetup() {
    for l in LETTERS {
        if let (Some(r), Some((_, hard))) = (libc_resource(l), libc_getrlimit(l)) {
            let lim = libc::rlimit { rlim_cur: hard as libc::rlim_t, rlim_max: hard as libc::rlim_t };
            unsafe { libc::setrlimit(r, &lim) };
        }
    }
    unsafe { libc::umask(0o022) };
    if !drop_cap_sys_resource() {
        eprintln!("yv-g08: cannot give up CAP_SYS_RESOURCE");
        std::process::exit(97);
    }
}

// ---------------------------------------------------------------------------
// the platform record
// ---------------------------------------------------------------------------
fn platform(sys: &str, seed: u64) -> Value {
    assert!(INFINITY as u64 == u64::MAX, "RLIM_INFINITY is not the largest value of rlim_t");
    let mut ceil = serde_json::Map::new();
    let mut init = serde_json::Map::new();
    let mut sup = vec![];
    for l in LETTERS {
        ceil.insert(l.to_string(), json!("inf"));
        init.insert(l.to_string(), json!(["inf", "inf"]));
    }
    let mut times = json!([]);
    if sys == "sim" {
        sup = LETTERS.iter().map(|s| s.to_string()).collect();
        let mut rng = StdRng::seed_from_u64(seed ^ 0x6708);
        let mut t = vec![];
        for i in 0..4 {
            let m: u64 = match i {
                0 => rng.gen_range(0..3),
                1 => rng.gen_range(3..2000),
                2 => 0,
                _ => rng.gen_range(60..100_000),
            };
            let s: u64 = if i == 3 { 59 } else { rng.gen_range(0..60) };
            let us: u64 = match i {
                2 => 0,
                3 => 999_999,
                0 => rng.gen_range(0..1000),
                _ => rng.gen_range(0..1_000_000),
            };
            t.push(json!([m, s, us]));
        }
        times = json!(t);
    } else {
        for l in LETTERS {
            if let Some((_, hard)) = libc_getrlimit(l) {
                sup.push(l.to_string());
                init.insert(l.to_string(), json!([lim_text(hard), lim_text(hard)]));
            }
        }
        if let Ok(s) = std::fs::read_to_string("/proc/sys/fs/nr_open") {
            ceil.insert("n".into(), json!(s.trim()));
        }
    }
    json!({"sys": sys, "sup": sup, "priv": false, "inf": (INFINITY as u64).to_string(), "ceil": ceil, "init": init,
           "umask": 0o022, "times": times, "had_cap_sys_resource": sys == "real" && has_cap_sys_resource()})
}

fn times_of(plat: &Value) -> Option<CpuTimes> {
    let t = plat["times"].as_array()?;
    if t.len() != 4 {
        return None;
    }
    let f = |v: &Value| -> f64 {
        let m = v[0].as_u64().unwrap_or(0) as f64;
        let s = v[1].as_u64().unwrap_or(0) as f64;
        let us = v[2].as_u64().unwrap_or(0) as f64;
        m * 60.0 + s + us / 1_000_000.0
    };
    Some(CpuTimes { self_user: f(&t[0]), self_system: f(&t[1]), children_user: f(&t[2]), children_system: f(&t[3]) })
}

// ---------------------------------------------------------------------------
// built-ins of the harness: marks and kernel-level observation
// ---------------------------------------------------------------------------
static REAL_CHILD: AtomicBool = AtomicBool::new(false);

/// `mark`: writes `@@<$?>@@` (with an operand: `%%`) as a line to standard
/// output and `@@` (`%%`) to standard error, so that the output of every
/// command can be cut out.
fn mark_main<S: ShellSystem>(env: &mut Env<S>, args: Vec<Field>) -> Pin<Box<dyn Future<Output = BResult> + '_>> {
    Box::pin(async move {
        let (o, e) = if args.is_empty() {
            (format!("@@{}@@\n", env.exit_status.0), "@@\n".to_string())
        } else {
            ("%%\n".to_string(), "%%\n".to_string())
        };
        let _ = env.system.write_all(Fd::STDOUT, o.as_bytes()).await;
        let _ = env.system.write_all(Fd::STDERR, e.as_bytes()).await;
        BResult::new(ExitStatus(0))
    })
}

/// `getrlimit r`: the raw limits of the process as the system has them (real:
/// getrlimit(2) through libc; simulated: the system object), `soft hard`.
fn getrlimit_main<S: ShellSystem>(env: &mut Env<S>, args: Vec<Field>) -> Pin<Box<dyn Future<Output = BResult> + '_>> {
    Box::pin(async move {
        let l = args.first().map(|f| f.value.clone()).unwrap_or_default();
        let text = if REAL_CHILD.load(Ordering::SeqCst) {
            match libc_getrlimit(&l) {
                Some((s, h)) => format!("{} {}", lim_text(s), lim_text(h)),
                None => "EINVAL".to_string(),
            }
        } else {
            match resource_of(&l).map(|r| env.system.getrlimit(r)) {
                Some(Ok(p)) => format!("{} {}", lim_text(p.soft as u64), lim_text(p.hard as u64)),
                Some(Err(e)) => errno_name(e),
                None => "EINVAL".to_string(),
            }
        };
        let _ = env.system.write_all(Fd::STDOUT, text.as_bytes()).await;
        BResult::new(ExitStatus(0))
    })
}

/// `sys_umask ooo`: umask(2) with the given value; prints the previous mask.
fn sys_umask_main<S: ShellSystem>(env: &mut Env<S>, args: Vec<Field>) -> Pin<Box<dyn Future<Output = BResult> + '_>> {
    Box::pin(async move {
        let new = args.first().and_then(|f| u32::from_str_radix(&f.value, 8).ok()).unwrap_or(0);
        let old = if REAL_CHILD.load(Ordering::SeqCst) {
            unsafe { libc::umask(new as libc::mode_t) as u32 }
        } else {
            env.system.umask(Mode::from_bits_retain(new as _)).bits() as u32
        };
        let _ = env.system.write_all(Fd::STDOUT, format!("{:03o}", old).as_bytes()).await;
        BResult::new(ExitStatus(0))
    })
}

/// `sys_getumask`: the mask as the system has it (umask(0), then umask(old)).
fn sys_getumask_main<S: ShellSystem>(env: &mut Env<S>, _args: Vec<Field>) -> Pin<Box<dyn Future<Output = BResult> + '_>> {
    Box::pin(async move {
        let old = if REAL_CHILD.load(Ordering::SeqCst) {
            unsafe {
                let old = libc::umask(0);
                libc::umask(old);
                old as u32
            }
        } else {
            let old = env.system.umask(Mode::empty());
            env.system.umask(old);
            old.bits() as u32
        };
        let _ = env.system.write_all(Fd::STDOUT, format!("{:03o}", old).as_bytes()).await;
        BResult::new(ExitStatus(0))
    })
}

fn register<S: ShellSystem>(env: &mut Env<S>) {
    env.builtins.insert("sys_getumask", Builtin::new(Type::Mandatory, sys_getumask_main::<S>));
    env.builtins.insert("mark", Builtin::new(Type::Mandatory, mark_main::<S>));
    env.builtins.insert("getrlimit", Builtin::new(Type::Mandatory, getrlimit_main::<S>));
    env.builtins.insert("sys_umask", Builtin::new(Type::Mandatory, sys_umask_main::<S>));
}

/// The shell child on the real OS: `yvcommon::real`'s mirror runner after the
/// pre-setup, plus the harness built-ins.
fn real_shell_child() -> ! {
    real_presetup();
    REAL_CHILD.store(true, Ordering::SeqCst);
    // SAFETY: single-threaded at this point
    unsafe {
        std::env::remove_var("YV_EVENTS");
        std::env::remove_var("YV_CHILD");
        std::env::remove_var("YV_G08_CHILD");
    }
    // SAFETY: the only RealSystem in this process
    let system = unsafe { RealSystem::new() };
    system.sigaction(RealSystem::SIGPIPE, Disposition::Default).ok();
    let system = Rc::new(Concurrent::new(system));
    let runner = Rc::clone(&system);
    let task = async {
        let mut env = Env::with_system(system);
        match yash_cli::startup::args::parse(std::env::args()) {
            Ok(Parse::Run(run)) => {
                env.variables.extend_env(std::env::vars());
                shell_body(&mut env, run, |env| {
                    register_generic_probes(env);
                    register(env);
                })
                .await;
            }
            _ => env.exit_status = ExitStatus(2),
        }
        exit_or_raise(&env.system, env.exit_status).await
    };
    runner.run_real(task)
}

// ---------------------------------------------------------------------------
// running a script; cutting the output
// ---------------------------------------------------------------------------
#[derive(Clone, Debug)]
struct Obs {
    st: i64,
    out: String,
    err: bool,
}

fn quote(a: &str) -> String {
    format!("'{}'", a.replace('\'', "'\\''"))
}

fn is_call(cmd: &[String]) -> bool {
    matches!(cmd[0].as_str(), "getrlimit" | "setrlimit" | "sys_umask" | "sys_getumask")
}

/// One command followed by its mark.  `times` is a special built-in: with
/// operands (an error) it runs in a subshell of its own, because what an error
/// of a special built-in does to the shell is not this module's subject.
fn render_cmd(cmd: &[String]) -> String {
    let words: Vec<String> = std::iter::once(cmd[0].clone()).chain(cmd[1..].iter().map(|a| quote(a))).collect();
    let text = words.join(" ");
    if cmd[0] == "times" && cmd.len() > 1 { format!("({text}); mark\n") } else { format!("{text}; mark\n") }
}

fn render_seq(cmds: &[Vec<String>]) -> String {
    cmds.iter().map(|c| render_cmd(c)).collect()
}

/// Cuts the two streams of one case into per-command observations.
fn cut_case(out: &str, err: &str, n: usize) -> Option<Vec<Obs>> {
    let mut res = vec![];
    let mut rest = out;
    let errs: Vec<&str> = err.split("@@\n").collect();
    for i in 0..n {
        let p = rest.find("@@")?;
        let text = &rest[..p];
        let tail = &rest[p + 2..];
        let q = tail.find("@@\n")?;
        let st: i64 = tail[..q].parse().ok()?;
        rest = &tail[q + 3..];
        let e = errs.get(i)?;
        res.push(Obs { st, out: text.to_string(), err: !e.is_empty() });
    }
    if !rest.is_empty() || errs.len() != n + 1 || !errs[n].is_empty() {
        return None;
    }
    Some(res)
}

struct Ran {
    out: String,
    err: String,
    outcome: String,
}

fn run_script(sys: &str, plat: &Value, script: &str) -> Ran {
    if sys == "sim" {
        let mut cfg = ShellCfg::stdin_script(script.as_bytes());
        cfg.step_limit = 400_000_000;
        let times = times_of(plat);
        let mask = plat["umask"].as_u64().unwrap_or(0o022) as u32;
        cfg.setup = Some(Box::new(move |env, state| {
            register::<Sys>(env);
            env.system.umask(Mode::from_bits_retain(mask as _));
            if let Some(t) = times {
                state.borrow_mut().times = t;
            }
        }));
        match catch(move || run_shell(cfg)) {
            Ok(r) => {
                let outcome = match &r.outcome {
                    Outcome::Completed => "completed".to_string(),
                    _ => r.outcome_str(),
                };
                Ran { out: r.stdout_str(), err: r.stderr_str(), outcome }
            }
            Err(msg) => Ran { out: String::new(), err: String::new(), outcome: format!("panic: {msg}") },
        }
    } else {
        let mut cfg = RealCfg::command("", true);
        cfg.args = vec![];
        cfg.stdin = script.as_bytes().to_vec();
        cfg.timeout = std::time::Duration::from_secs(600);
        cfg.env.push(("YV_CHILD".into(), "none".into()));
        cfg.env.push(("YV_G08_CHILD".into(), "shell".into()));
        let r = run_real(&cfg);
        let outcome = if r.timed_out { "timeout".to_string() } else { "completed".to_string() };
        Ran { out: String::from_utf8_lossy(&r.stdout).into_owned(), err: String::from_utf8_lossy(&r.stderr).into_owned(), outcome }
    }
}

fn strs(v: &Value) -> Vec<String> {
    v.as_array().map(|a| a.iter().map(|s| s.as_str().unwrap_or("").to_string()).collect()).unwrap_or_default()
}

fn cmds_of(v: &Value) -> Vec<Vec<String>> {
    v.as_array().map(|a| a.iter().map(strs).collect()).unwrap_or_default()
}

/// Runs straight command sequences, each in a subshell of one shell process.
fn run_sequences(sys: &str, plat: &Value, seqs: &[Vec<Vec<String>>]) -> (Vec<Option<Vec<Obs>>>, String) {
    let mut script = String::new();
    for s in seqs {
        script.push_str("(\n");
        script.push_str(&render_seq(s));
        script.push_str(")\nmark %\n");
    }
    let ran = run_script(sys, plat, &script);
    let outs: Vec<&str> = ran.out.split("%%\n").collect();
    let errs: Vec<&str> = ran.err.split("%%\n").collect();
    let mut res = vec![];
    for (i, s) in seqs.iter().enumerate() {
        let o = outs.get(i).copied().unwrap_or("");
        let e = errs.get(i).copied().unwrap_or("");
        // the call built-ins print no newline: nothing to strip
        res.push(cut_case(o, e, s.len()));
    }
    (res, ran.outcome)
}

// ---------------------------------------------------------------------------
// the call layer
// ---------------------------------------------------------------------------
trait CallSys {
    fn get(&self, l: &str) -> String;
    fn set(&self, l: &str, soft: &str, hard: &str) -> String;
    fn umask(&self, m: u32) -> String;
    /// the read-back `getrlimit`: through an independent route where there is one
    fn get_independent(&self, l: &str) -> String;
}

fn do_get<S: GetRlimit>(s: &S, l: &str) -> String {
    match resource_of(l) {
        None => "EINVAL".into(),
        Some(r) => match catch(std::panic::AssertUnwindSafe(|| s.getrlimit(r))) {
            Ok(Ok(p)) => format!("{} {}", lim_text(p.soft as u64), lim_text(p.hard as u64)),
            Ok(Err(e)) => errno_name(e),
            Err(m) => format!("panic: {m}"),
        },
    }
}

fn do_set<S: SetRlimit>(s: &S, l: &str, soft: &str, hard: &str) -> String {
    let (Some(r), Some(so), Some(ha)) = (resource_of(l), parse_lim(soft), parse_lim(hard)) else { return "EINVAL".into() };
    match catch(std::panic::AssertUnwindSafe(|| s.setrlimit(r, LimitPair { soft: so, hard: ha }))) {
        Ok(Ok(())) => "ok".into(),
        Ok(Err(e)) => errno_name(e),
        Err(m) => format!("panic: {m}"),
    }
}

struct SimCalls(VirtualSystem);
impl CallSys for SimCalls {
    fn get(&self, l: &str) -> String {
        do_get(&self.0, l)
    }
    fn set(&self, l: &str, soft: &str, hard: &str) -> String {
        do_set(&self.0, l, soft, hard)
    }
    fn umask(&self, m: u32) -> String {
        format!("{:03o}", self.0.umask(Mode::from_bits_retain(m as _)).bits())
    }
    fn get_independent(&self, l: &str) -> String {
        self.get(l)
    }
}

struct RealCalls(RealSystem);
impl CallSys for RealCalls {
    fn get(&self, l: &str) -> String {
        do_get(&self.0, l)
    }
    fn set(&self, l: &str, soft: &str, hard: &str) -> String {
        do_set(&self.0, l, soft, hard)
    }
    fn umask(&self, m: u32) -> String {
        format!("{:03o}", self.0.umask(Mode::from_bits_retain(m as _)).bits())
    }
    fn get_independent(&self, l: &str) -> String {
        match libc_getrlimit(l) {
            Some((s, h)) => format!("{} {}", lim_text(s), lim_text(h)),
            None => "EINVAL".into(),
        }
    }
}

/// Performs a call sequence; the last `nrb` calls are the read-back.
fn do_calls(sys: &dyn CallSys, calls: &[Vec<String>], nrb: usize) -> Vec<String> {
    let mut res = vec![];
    for (i, c) in calls.iter().enumerate() {
        let rb = i + nrb >= calls.len();
        let a = |k: usize| c.get(k).map(|s| s.as_str()).unwrap_or("");
        res.push(match c[0].as_str() {
            "getrlimit" if rb => sys.get_independent(a(1)),
            "getrlimit" => sys.get(a(1)),
            "setrlimit" => sys.set(a(1), a(2), a(3)),
            "sys_umask" => sys.umask(u32::from_str_radix(a(1), 8).unwrap_or(0)),
            "sys_getumask" => {
                let old = sys.umask(0);
                sys.umask(u32::from_str_radix(&old, 8).unwrap_or(0));
                old
            }
            other => format!("unknown call {other}"),
        });
    }
    res
}

fn sim_calls(plat: &Value, calls: &[Vec<String>], nrb: usize) -> Vec<String> {
    let sys = SimCalls(VirtualSystem::new());
    sys.0.umask(Mode::from_bits_retain(plat["umask"].as_u64().unwrap_or(0o022) as _));
    do_calls(&sys, calls, nrb)
}

/// The re-executed child for real calls: one line {calls, nrb} per sequence on
/// standard input, one line [texts] per sequence on standard output; every
/// sequence runs in a forked process of its own (limits cannot be raised
/// again, the mask is per process).
fn real_calls_child() -> ! {
    real_presetup();
    let stdin = std::io::stdin();
    let mut out = std::io::stdout();
    for line in stdin.lock().lines() {
        let Ok(line) = line else { break };
        let v: Value = serde_json::from_str(&line).unwrap_or(Value::Null);
        let calls = cmds_of(&v["calls"]);
        let nrb = v["nrb"].as_u64().unwrap_or(0) as usize;
        let mut fds = [0i32; 2];
        if unsafe { libc::pipe(fds.as_mut_ptr()) } != 0 {
            std::process::exit(98);
        }
        let pid = unsafe { libc::fork() };
        if pid == 0 {
            unsafe { libc::close(fds[0]) };
            // SAFETY: the only RealSystem in this (forked) process
            let sys = RealCalls(unsafe { RealSystem::new() });
            let res = do_calls(&sys, &calls, nrb);
            let text = serde_json::to_string(&res).unwrap_or_default();
            unsafe {
                libc::write(fds[1], text.as_ptr() as *const libc::c_void, text.len());
                libc::_exit(0);
            }
        }
        unsafe { libc::close(fds[1]) };
        let mut buf = vec![];
        let mut chunk = [0u8; 4096];
        loop {
            let n = unsafe { libc::read(fds[0], chunk.as_mut_ptr() as *mut libc::c_void, chunk.len()) };
            if n <= 0 {
                break;
            }
            buf.extend_from_slice(&chunk[..n as usize]);
        }
        unsafe { libc::close(fds[0]) };
        let mut status = 0;
        unsafe { libc::waitpid(pid, &mut status, 0) };
        let text = String::from_utf8_lossy(&buf).into_owned();
        let _ = writeln!(out, "{}", if text.is_empty() { format!("[\"died {status}\"]") } else { text });
    }
    let _ = out.flush();
    std::process::exit(0)
}

/// Runs call sequences on the real system (in the re-executed child).
fn real_calls(seqs: &[(Vec<Vec<String>>, usize)]) -> Vec<Vec<String>> {
    let exe = std::env::current_exe().expect("current_exe");
    let mut child = std::process::Command::new(exe)
        .env("YV_G08_CHILD", "calls")
        .stdin(std::process::Stdio::piped())
        .stdout(std::process::Stdio::piped())
        .spawn()
        .expect("spawn calls child");
    let mut stdin = child.stdin.take().unwrap();
    let input: String = seqs.iter().map(|(c, n)| format!("{}\n", json!({"calls": c, "nrb": n}))).collect();
    let writer = std::thread::spawn(move || {
        let _ = stdin.write_all(input.as_bytes());
    });
    let mut text = String::new();
    let _ = child.stdout.take().unwrap().read_to_string(&mut text);
    let _ = writer.join();
    let _ = child.wait();
    let mut res: Vec<Vec<String>> = text.lines().map(|l| serde_json::from_str::<Vec<String>>(l).unwrap_or_default()).collect();
    res.resize(seqs.len(), vec![]);
    res
}

// ---------------------------------------------------------------------------
// replay: spec -> impl
// ---------------------------------------------------------------------------
#[derive(Default)]
struct Tally {
    states: usize,
    cases: usize,
    exact: usize,
    to_judge: usize,
    open_text: usize,
    unspec: usize,
    nontrivial: usize,
    lost: usize,
    samples: Vec<Value>,
    /// how often each kind of outcome of the specification was exercised
    kinds: std::collections::BTreeMap<String, usize>,
}

fn step_json(c: &[String], o: &Obs) -> Value {
    json!({"c": c, "st": o.st, "out": o.out, "err": o.err})
}

/// Does the observation equal alternative `alt` exactly?  `open`: the
/// alternative has a text without canonical form ("?").
fn equals_alt(alt: &Value, w: &[Vec<String>], entry: &[Vec<String>], obs: &[Obs]) -> (bool, bool) {
    let nw = w.len();
    let mut open = false;
    let exp = alt["o"].as_array().cloned().unwrap_or_default();
    let rb = strs(&alt["rb"]);
    for (i, o) in obs.iter().enumerate() {
        if i < nw {
            // the witness: successful, silent (a call: "ok")
            if o.st != 0 || o.out != if is_call(&w[i]) { "ok" } else { "" } || o.err {
                return (false, false);
            }
        } else if i < nw + entry.len() {
            let e = &exp[i - nw];
            let (st, text) = (e[0].as_i64().unwrap_or(-1), e[1].as_str().unwrap_or(""));
            if is_call(&entry[i - nw]) {
                if o.st != 0 || o.err || o.out != text {
                    return (false, false);
                }
                continue;
            }
            if (st == 0) != (o.st == 0) || (o.st != 0) != o.err {
                return (false, false);
            }
            if text == "?" {
                open = true;
            } else if o.out != text {
                return (false, false);
            }
        } else {
            let text = &rb[i - nw - entry.len()];
            if o.st != 0 || o.err {
                return (false, false);
            }
            if text == "?" {
                open = true;
            } else if &o.out != text {
                return (false, false);
            }
        }
    }
    (true, open)
}

fn replay(args: &[String]) {
    let sys = opt(args, "--sys").unwrap_or("sim").to_string();
    let plat: Value = serde_json::from_str(&std::fs::read_to_string(opt(args, "--platform").expect("--platform")).expect("platform file")).unwrap();
    let lines: Vec<String> = open_in(args).lines().map(|l| l.unwrap()).filter(|l| !l.trim().is_empty()).collect();
    let judge = Mutex::new(opt(args, "--judge").map(|p| std::io::BufWriter::new(std::fs::File::create(p).unwrap())));
    let tally = Mutex::new(Tally::default());
    let next = AtomicUsize::new(0);
    let threads = opt_usize(args, "--threads", if sys == "sim" { 8 } else { 4 });
    std::thread::scope(|sc| {
        for _ in 0..threads {
            sc.spawn(|| {
                loop {
                    let i = next.fetch_add(1, Ordering::SeqCst);
                    if i >= lines.len() {
                        break;
                    }
                    let line: Value = serde_json::from_str(&lines[i]).expect("gen line");
                    replay_state(&sys, &plat, &line, &judge, &tally);
                }
            });
        }
    });
    if let Some(j) = judge.lock().unwrap().as_mut() {
        j.flush().unwrap();
    }
    let t = tally.lock().unwrap();
    let mut out = open_out(args);
    writeln!(out, "{}", json!({"sys": sys, "states": t.states, "cases": t.cases, "exact": t.exact, "to_judge": t.to_judge,
        "open_text": t.open_text, "unspec": t.unspec, "nontrivial": t.nontrivial, "lost": t.lost, "samples": t.samples, "outcome_kinds": t.kinds}))
    .unwrap();
}

fn replay_state(sys: &str, plat: &Value, line: &Value, judge: &Mutex<Option<std::io::BufWriter<std::fs::File>>>, tally: &Mutex<Tally>) {
    let fam = line["fam"].as_str().unwrap_or("");
    let w = cmds_of(&line["w"]);
    let rb = cmds_of(&line["rb"]);
    let fan = line["fan"].as_array().cloned().unwrap_or_default();
    let mut entries: Vec<(usize, Vec<Vec<String>>)> = vec![];
    let mut unspec = 0;
    for (k, e) in fan.iter().enumerate() {
        if e["u"].as_bool().unwrap_or(false) {
            unspec += 1;
            continue;
        }
        entries.push((k, cmds_of(&e["c"])));
    }
    let mut kinds: std::collections::BTreeMap<String, usize> = Default::default();
    for (k, c) in &entries {
        let alts = fan[*k]["alts"].as_array().cloned().unwrap_or_default();
        if alts.len() > 1 {
            *kinds.entry("(entries with two allowed alternatives)".into()).or_default() += 1;
        }
        if let Some(a) = alts.first() {
            for (j, cmd) in c.iter().enumerate() {
                let (st, text) = (a["o"][j][0].as_i64().unwrap_or(0), a["o"][j][1].as_str().unwrap_or(""));
                let class = if is_call(cmd) {
                    if text.starts_with('E') { text.to_string() } else { "ok".to_string() }
                } else if st != 0 {
                    "error".to_string()
                } else if text == "?" {
                    "prints (no canonical text)".to_string()
                } else if text.is_empty() {
                    "sets".to_string()
                } else {
                    "prints".to_string()
                };
                *kinds.entry(format!("{} {}", cmd[0], class)).or_default() += 1;
            }
        }
    }
    let seqs: Vec<Vec<Vec<String>>> = entries.iter().map(|(_, c)| w.iter().cloned().chain(c.iter().cloned()).chain(rb.iter().cloned()).collect()).collect();
    // observations per sequence
    let observed: Vec<Option<Vec<Obs>>> = if fam == "calls" {
        let texts: Vec<Vec<String>> = if sys == "sim" {
            seqs.iter().map(|s| sim_calls(plat, s, rb.len())).collect()
        } else {
            real_calls(&seqs.iter().map(|s| (s.clone(), rb.len())).collect::<Vec<_>>())
        };
        texts
            .into_iter()
            .zip(&seqs)
            .map(|(t, s)| if t.len() == s.len() { Some(t.into_iter().map(|x| Obs { st: 0, out: x, err: false }).collect()) } else { None })
            .collect()
    } else {
        run_sequences(sys, plat, &seqs).0
    };
    let mut t = Tally::default();
    t.states = 1;
    t.unspec = unspec;
    let mut records = vec![];
    for (((k, entry), seq), obs) in entries.iter().zip(&seqs).zip(&observed) {
        t.cases += 1;
        let alts = fan[*k]["alts"].as_array().cloned().unwrap_or_default();
        let Some(obs) = obs else {
            t.lost += 1;
            t.to_judge += 1;
            records.push(json!({"sys": sys, "layer": if fam == "calls" { "call" } else { "sh" }, "from": "fan", "miss": true,
                                "steps": seq.iter().map(|c| json!({"c": c, "st": -1, "out": "", "err": false})).collect::<Vec<_>>()}));
            continue;
        };
        let mut exact = false;
        let mut open = false;
        for a in &alts {
            let (eq, op) = equals_alt(a, &w, entry, obs);
            if eq && !op {
                exact = true;
            }
            if eq && op {
                open = true;
            }
        }
        if exact {
            t.exact += 1;
            let changed = alts.iter().any(|a| a["o"].as_array().is_some_and(|o| o.iter().all(|x| x[0] == 0)))
                && obs[w.len()..w.len() + entry.len()].iter().all(|o| o.out.is_empty())
                && !is_call(&entry[0]);
            if changed {
                t.nontrivial += 1;
            }
            if t.samples.len() < 2 && (t.cases % 37 == 5) {
                t.samples.push(json!({"sys": sys, "witness": w, "entry": entry,
                                      "observed": obs[w.len()..].iter().map(|o| json!([o.st, o.out])).collect::<Vec<_>>()}));
            }
        } else {
            if open {
                t.open_text += 1;
            }
            t.to_judge += 1;
            records.push(json!({"sys": sys, "layer": if fam == "calls" { "call" } else { "sh" }, "from": "fan", "miss": false,
                                "steps": seq.iter().zip(obs).map(|(c, o)| step_json(c, o)).collect::<Vec<_>>()}));
        }
    }
    if let Some(j) = judge.lock().unwrap().as_mut() {
        for r in &records {
            writeln!(j, "{r}").unwrap();
        }
    }
    let mut g = tally.lock().unwrap();
    g.states += t.states;
    g.cases += t.cases;
    g.exact += t.exact;
    g.to_judge += t.to_judge;
    g.open_text += t.open_text;
    g.unspec += t.unspec;
    g.nontrivial += t.nontrivial;
    g.lost += t.lost;
    for (k, n) in kinds {
        *g.kinds.entry(k).or_default() += n;
    }
    if g.samples.len() < 6 {
        g.samples.extend(t.samples);
    }
}

// ---------------------------------------------------------------------------
// random: impl -> spec
// ---------------------------------------------------------------------------
fn pick<'a>(rng: &mut StdRng, xs: &[&'a str]) -> &'a str {
    xs[rng.gen_range(0..xs.len())]
}

/// Generous values for the limits that take effect on the test process itself
/// on the real system (generator knowledge only; the oracle has none of this).
fn safe_values(sys: &str, l: &str) -> Vec<String> {
    let floor: Option<u64> = if sys != "real" {
        None
    } else {
        match l {
            "f" => Some(2_097_152),
            "n" => Some(256),
            "t" | "u" => Some(100_000),
            "d" | "v" => Some(16_777_216),
            "s" => Some(8192),
            _ => None,
        }
    };
    match floor {
        Some(f) => vec![f.to_string(), (f * 2).to_string(), (f + 1).to_string(), (f * 3).to_string()],
        None => ["0", "1", "2", "7", "8", "63", "512", "1000", "1023", "1024", "4096", "65536", "1000000"].iter().map(|s| s.to_string()).collect(),
    }
}

fn random_mode(rng: &mut StdRng) -> String {
    let mut clauses = vec![];
    for _ in 0..rng.gen_range(1..=3) {
        let mut c = String::new();
        for _ in 0..rng.gen_range(0..=2) {
            c.push_str(pick(rng, &["u", "g", "o", "a", "u", "g", "o"]));
        }
        for _ in 0..rng.gen_range(1..=3) {
            c.push_str(pick(rng, &["+", "-", "="]));
            match rng.gen_range(0..20) {
                0..=12 => {
                    for _ in 0..rng.gen_range(0..=3) {
                        c.push_str(pick(rng, &["r", "w", "x", "X", "r", "w", "x", "s"]));
                    }
                }
                13..=18 => c.push_str(pick(rng, &["u", "g", "o"])),
                _ if rng.gen_range(0..3) == 0 => c.push_str(pick(rng, &["t", "z", "ug", "ru", "7"])),
                _ => {}
            }
        }
        clauses.push(c);
    }
    let mut m = clauses.join(",");
    if rng.gen_range(0..25) == 0 {
        let p = rng.gen_range(0..=m.len());
        m.insert_str(p, pick(rng, &[",", "=", "u", "Z", "8", " ", "+"]));
    }
    m
}

fn random_sh_cmd(rng: &mut StdRng, sys: &str, sup: &[String]) -> Vec<String> {
    let v = |xs: &[&str]| xs.iter().map(|s| s.to_string()).collect::<Vec<_>>();
    match rng.gen_range(0..100) {
        0..=34 => {
            let m = if rng.gen_range(0..6) == 0 {
                let d = if rng.gen_range(0..12) == 0 { 4 } else { rng.gen_range(1..=3) };
                (0..d).map(|_| pick(rng, &["0", "1", "2", "3", "4", "5", "6", "7", "7", "0", "2", "8"])).collect::<String>()
            } else {
                random_mode(rng)
            };
            let mut c = v(&["umask"]);
            if rng.gen_range(0..8) == 0 {
                c.push(pick(rng, &["-S", "--symbolic"]).to_string());
            }
            if m.starts_with('-') || rng.gen_range(0..10) == 0 {
                c.push("--".into());
            }
            c.push(m);
            c
        }
        35..=49 => match rng.gen_range(0..6) {
            0 | 1 => v(&["umask"]),
            2 | 3 => v(&["umask", "-S"]),
            4 => v(&["umask", "--symbolic"]),
            _ => v(&["umask", "-S", "-S"]),
        },
        50..=89 => {
            let mut c = v(&["ulimit"]);
            let l = if rng.gen_range(0..6) == 0 { LETTERS[rng.gen_range(0..LETTERS.len())].to_string() } else { sup[rng.gen_range(0..sup.len())].clone() };
            let with_res = rng.gen_range(0..8) != 0;
            let res_l = if with_res { l.clone() } else { "f".to_string() };
            let mut parts: Vec<String> = vec![];
            match rng.gen_range(0..10) {
                0..=3 => {}
                4..=5 => parts.push("-S".into()),
                6..=7 => parts.push("-H".into()),
                8 => parts.extend(v(&["-H", "-S"])),
                _ => parts.push(pick(rng, &["--soft", "--hard", "-SH", "-HH"]).to_string()),
            }
            if with_res {
                let p = rng.gen_range(0..=parts.len());
                parts.insert(p, format!("-{l}"));
            }
            if rng.gen_range(0..15) == 0 {
                // grouped
                let joined: String = parts.iter().filter(|p| !p.starts_with("--")).map(|p| p[1..].to_string()).collect();
                let longs: Vec<String> = parts.iter().filter(|p| p.starts_with("--")).cloned().collect();
                parts = longs;
                if !joined.is_empty() {
                    parts.push(format!("-{joined}"));
                }
            }
            if rng.gen_range(0..25) == 0 {
                parts.push("-a".into());
            }
            c.extend(parts);
            match rng.gen_range(0..20) {
                0..=5 => {}
                6..=13 => {
                    let vals = safe_values(sys, &res_l);
                    c.push(vals[rng.gen_range(0..vals.len())].clone());
                }
                14 => c.push("unlimited".into()),
                15 => c.push("hard".into()),
                16 => c.push("soft".into()),
                17 if sys == "real" && ["f", "t", "n", "d", "v", "s", "u"].contains(&res_l.as_str()) => {
                    let f: u64 = safe_values(sys, &res_l)[0].parse().unwrap_or(1 << 20);
                    c.push((f * 4096).to_string());
                }
                17 => c.push(pick(rng, &["18014398509481983", "18014398509481984", "36028797018963967", "36028797018963968",
                                         "18446744073709551614", "18446744073709551616", "99999999999999999999999"]).to_string()),
                18 => c.push(pick(rng, &["x", "1.5", "", "0x10", "1e3", "Hard"]).to_string()),
                _ => c.extend(v(&["1", "2"])),
            }
            c
        }
        90..=93 => v(&["ulimit", pick(rng, &["-a", "-Ha", "-Sa"])]),
        94..=96 => v(&["times"]),
        97..=98 => v(&["set", "-o", "portable"]),
        _ => v(&["set", "+o", "portable"]),
    }
}

fn random_call(rng: &mut StdRng, sys: &str) -> Vec<String> {
    // In the forked children of the calls child small values of -n -c -f are
    // harmless (the result goes through a pipe that is already open); CPU and
    // data limits would still kill the child: simulated system only.
    let l = if sys == "real" {
        pick(rng, &["n", "c", "f", "c", "n", "f", "l", "q", "k", "x", "m"]).to_string()
    } else {
        pick(rng, &["n", "c", "f", "c", "n", "f", "t", "d", "k", "l"]).to_string()
    };
    let raw = |rng: &mut StdRng| -> String {
        pick(rng, &["0", "1", "5", "511", "512", "777", "1024", "4096", "100000", "inf", "inf", "18446744073709551614"]).to_string()
    };
    match rng.gen_range(0..10) {
        0..=2 => vec!["getrlimit".into(), l],
        3..=8 => {
            let (a, b) = (raw(rng), raw(rng));
            vec!["setrlimit".into(), l, a, b]
        }
        9 if rng.gen_range(0..2) == 0 => vec!["sys_getumask".into()],
        _ => vec!["sys_umask".into(), format!("{:03o}", rng.gen_range(0..512))],
    }
}

fn random(args: &[String]) {
    let sys = opt(args, "--sys").unwrap_or("sim").to_string();
    let plat: Value = serde_json::from_str(&std::fs::read_to_string(opt(args, "--platform").expect("--platform")).expect("platform file")).unwrap();
    let runs = opt_usize(args, "--runs", 200);
    let len = opt_usize(args, "--len", 12);
    let sup = strs(&plat["sup"]);
    let mut rng = StdRng::seed_from_u64(yvcommon::util::seed() ^ 0x9a08 ^ if sys == "sim" { 0 } else { 0x55 });
    let mut out = open_out(args);
    let mut steps = 0;
    let mut sh: Vec<Vec<Vec<String>>> = vec![];
    let mut calls: Vec<(Vec<Vec<String>>, usize)> = vec![];
    for i in 0..runs {
        if i % 4 == 3 {
            let n = rng.gen_range(len / 2..=len);
            calls.push(((0..n).map(|_| random_call(&mut rng, &sys)).collect(), 0));
        } else {
            let n = rng.gen_range(len / 2..=len);
            let mut seq = vec![];
            for _ in 0..n {
                let c = random_sh_cmd(&mut rng, &sys, &sup);
                // the kernel-level state right after every command that may set something
                let rb: Option<Vec<String>> = match c[0].as_str() {
                    "umask" if c.len() > 1 => Some(vec!["sys_getumask".into()]),
                    "ulimit" => {
                        let l = c.iter().skip(1).take_while(|a| a.starts_with('-') && a.as_str() != "--")
                            .filter(|a| !a.starts_with("--"))
                            .flat_map(|a| a[1..].chars().map(|ch| ch.to_string()).collect::<Vec<_>>())
                            .filter(|ch| LETTERS.contains(&ch.as_str()))
                            .last()
                            .unwrap_or_else(|| "f".to_string());
                        Some(vec!["getrlimit".into(), l])
                    }
                    _ => None,
                };
                seq.push(c);
                if let Some(rb) = rb {
                    seq.push(rb);
                }
            }
            sh.push(seq);
        }
    }
    // shell layer: 25 sequences per shell process, each in a subshell
    for chunk in sh.chunks(25) {
        let (obs, _) = run_sequences(&sys, &plat, chunk);
        for (seq, o) in chunk.iter().zip(obs) {
            steps += seq.len();
            let rec = match o {
                Some(o) => json!({"sys": sys, "layer": "sh", "from": "random", "miss": false,
                                  "steps": seq.iter().zip(&o).map(|(c, o)| step_json(c, o)).collect::<Vec<_>>()}),
                None => json!({"sys": sys, "layer": "sh", "from": "random", "miss": true,
                               "steps": seq.iter().map(|c| json!({"c": c, "st": -1, "out": "", "err": false})).collect::<Vec<_>>()}),
            };
            writeln!(out, "{rec}").unwrap();
        }
    }
    // call layer
    let texts: Vec<Vec<String>> = if sys == "sim" { calls.iter().map(|(c, _)| sim_calls(&plat, c, 0)).collect() } else { real_calls(&calls) };
    for ((seq, _), t) in calls.iter().zip(texts) {
        steps += seq.len();
        let miss = t.len() != seq.len();
        let rec = json!({"sys": sys, "layer": "call", "from": "random", "miss": miss,
                         "steps": seq.iter().enumerate().map(|(i, c)| json!({"c": c, "st": 0, "out": t.get(i).cloned().unwrap_or_default(), "err": false})).collect::<Vec<_>>()});
        writeln!(out, "{rec}").unwrap();
    }
    out.flush().unwrap();
    println!("{}", json!({"sys": sys, "runs": runs, "sh_sequences": sh.len(), "call_sequences": calls.len(), "steps": steps}));
}

// ---------------------------------------------------------------------------
// redo: run recorded sequences again
// ---------------------------------------------------------------------------
fn redo(args: &[String]) {
    let plat: Value = serde_json::from_str(&std::fs::read_to_string(opt(args, "--platform").expect("--platform")).expect("platform file")).unwrap();
    let sys = plat["sys"].as_str().unwrap_or("sim").to_string();
    let mut out = open_out(args);
    for line in open_in(args).lines() {
        let line = line.unwrap();
        if line.trim().is_empty() {
            continue;
        }
        let rec: Value = serde_json::from_str(&line).expect("record");
        let seq: Vec<Vec<String>> = rec["steps"].as_array().map(|a| a.iter().map(|s| strs(&s["c"])).collect()).unwrap_or_default();
        let layer = rec["layer"].as_str().unwrap_or("sh");
        let new = if layer == "call" {
            let t = if sys == "sim" { sim_calls(&plat, &seq, 0) } else { real_calls(&[(seq.clone(), 0)]).remove(0) };
            json!({"sys": sys, "layer": "call", "from": "redo", "miss": t.len() != seq.len(),
                   "steps": seq.iter().enumerate().map(|(i, c)| json!({"c": c, "st": 0, "out": t.get(i).cloned().unwrap_or_default(), "err": false})).collect::<Vec<_>>()})
        } else {
            match run_sequences(&sys, &plat, &[seq.clone()]).0.remove(0) {
                Some(o) => json!({"sys": sys, "layer": "sh", "from": "redo", "miss": false,
                                  "steps": seq.iter().zip(&o).map(|(c, o)| step_json(c, o)).collect::<Vec<_>>()}),
                None => json!({"sys": sys, "layer": "sh", "from": "redo", "miss": true,
                               "steps": seq.iter().map(|c| json!({"c": c, "st": -1, "out": "", "err": false})).collect::<Vec<_>>()}),
            }
        };
        writeln!(out, "{new}").unwrap();
    }
    out.flush().unwrap();
}

fn main() {
    match std::env::var("YV_G08_CHILD").as_deref() {
        Ok("shell") => real_shell_child(),
        Ok("calls") => real_calls_child(),
        _ => {}
    }
    yvcommon::real::maybe_child_main();
    if std::env::var("YV_LOUD").is_err() {
        yvcommon::util::quiet_panics();
    }
    let args: Vec<String> = std::env::args().skip(1).collect();
    match args.first().map(|s| s.as_str()) {
        Some("platform") => {
            let sys = opt(&args, "--sys").unwrap_or("sim");
            println!("{}", platform(sys, yvcommon::util::seed()));
        }
        Some("replay") => replay(&args),
        Some("random") => random(&args),
        Some("redo") => redo(&args),
        _ => {
            eprintln!("usage: yv-g08 platform|replay|random|redo ...");
            std::process::exit(2);
        }
    }
}
