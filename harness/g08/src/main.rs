//! Conformance harness for specification-growth module g08 (see /verif/DESIGN.md 12.6).
fn main() {
    eprintln!("yv-g08: not implemented yet");
    std::process::exit(2);
}
