//! End-to-end binding of C14: every scenario of the TLC-generated catalogue is
//! run in the real shell on the simulated OS under explored schedules; one
//! record per (scenario, distinct observation) is written for Trace_Pipe.
use rand::{Rng, SeedableRng};
use serde_json::{Value, json};
use std::collections::BTreeMap;
use std::io::{BufRead, Write};
use std::pin::Pin;
use std::sync::atomic::{AtomicUsize, Ordering};
use std::sync::{Arc, Mutex};
use std::time::{Duration, Instant};
use yash_env::builtin::{Builtin, Result as BResult, Type};
use yash_env::io::Fd;
use yash_env::semantics::{ExitStatus, Field};
use yash_env::system::{GetPid as _, Read as _};
use yash_env::system::concurrency::{ReadAll as _, WriteAll as _};
use yvcommon::sched::Schedule;
use yvcommon::shell::{ShellCfg, Sys, VEnv, push_event, run_shell, stream_byte};
use yvcommon::util::{opt, opt_usize};

const REST_MAX: usize = 64;

/// Summary of a byte string against the counter stream starting at `off`:
/// (len, first deviating position or -1, the bytes from there on).  Together
/// they determine the byte string.
fn summarize(ev: &str, tag: &str, off: usize, d: &[u8], pid: i32) -> Value {
    let bad = d.iter().enumerate().position(|(i, &b)| b != stream_byte(off + i));
    let (fb, rest): (i64, &[u8]) = match bad {
        Some(p) => (p as i64, &d[p..]),
        None => (-1, &[]),
    };
    let long = rest.len() > REST_MAX;
    let rest: Vec<u32> = rest.iter().take(REST_MAX).map(|&b| b as u32).collect();
    json!({"ev": ev, "pid": pid, "tag": tag, "off": off, "len": d.len(), "fb": fb, "rest": rest, "long": long})
}

fn arg_usize(args: &[Field], i: usize) -> usize {
    args.get(i).and_then(|f| f.value.parse::<usize>().ok()).unwrap_or(0)
}

/// `csink TAG OFF`: reads standard input to end-of-file and records its summary.
fn csink_main(env: &mut VEnv, args: Vec<Field>) -> Pin<Box<dyn Future<Output = BResult> + '_>> {
    Box::pin(async move {
        let tag = args.first().map(|f| f.value.clone()).unwrap_or_default();
        let off = arg_usize(&args, 1);
        let pid = env.system.getpid().0;
        match env.system.read_all(Fd::STDIN).await {
            Ok(d) => {
                push_event(summarize("csink", &tag, off, &d, pid));
                BResult::new(ExitStatus(0))
            }
            Err(e) => {
                push_event(json!({"ev": "csink_error", "pid": pid, "tag": tag, "errno": format!("{e:?}")}));
                BResult::new(ExitStatus(1))
            }
        }
    })
}

/// `val TAG VALUE OFF`: records the summary of VALUE.
fn val_main(env: &mut VEnv, args: Vec<Field>) -> Pin<Box<dyn Future<Output = BResult> + '_>> {
    Box::pin(async move {
        let tag = args.first().map(|f| f.value.clone()).unwrap_or_default();
        let value = args.get(1).map(|f| f.value.clone()).unwrap_or_default();
        let off = arg_usize(&args, 2);
        let pid = env.system.getpid().0;
        let mut ev = summarize("val", &tag, off, value.as_bytes(), pid);
        ev["argc"] = json!(args.len());
        push_event(ev);
        BResult::new(ExitStatus(0))
    })
}

/// `scat CHUNK`: copies standard input to standard output with read requests
/// of CHUNK bytes (`Concurrent::read`), each followed by `write_all`.
fn scat_main(env: &mut VEnv, args: Vec<Field>) -> Pin<Box<dyn Future<Output = BResult> + '_>> {
    Box::pin(async move {
        let chunk = arg_usize(&args, 0).max(1);
        let pid = env.system.getpid().0;
        let mut buf = vec![0u8; chunk];
        loop {
            let sys: Sys = env.system.clone();
            match sys.read(Fd::STDIN, &mut buf).await {
                Ok(0) => return BResult::new(ExitStatus(0)),
                Ok(n) => {
                    if let Err(e) = env.system.write_all(Fd::STDOUT, &buf[..n]).await {
                        push_event(json!({"ev": "scat_error", "pid": pid, "op": "write", "errno": format!("{e:?}")}));
                        return BResult::new(ExitStatus(1));
                    }
                }
                Err(e) => {
                    push_event(json!({"ev": "scat_error", "pid": pid, "op": "read", "errno": format!("{e:?}")}));
                    return BResult::new(ExitStatus(1));
                }
            }
        }
    })
}

/// `valu TAG VALUE OFF`: like `val`, after removing every U+FFFD from VALUE
/// (their number is recorded as `repl`).
fn valu_main(env: &mut VEnv, args: Vec<Field>) -> Pin<Box<dyn Future<Output = BResult> + '_>> {
    Box::pin(async move {
        let tag = args.first().map(|f| f.value.clone()).unwrap_or_default();
        let value = args.get(1).map(|f| f.value.clone()).unwrap_or_default();
        let off = arg_usize(&args, 2);
        let pid = env.system.getpid().0;
        let repl = value.chars().filter(|&c| c == '\u{FFFD}').count();
        let cleaned: String = value.chars().filter(|&c| c != '\u{FFFD}').collect();
        let mut ev = summarize("val", &tag, off, cleaned.as_bytes(), pid);
        ev["argc"] = json!(args.len());
        ev["repl"] = json!(repl);
        push_event(ev);
        BResult::new(ExitStatus(0))
    })
}

async fn write_out(env: &mut VEnv, data: &[u8], who: &str) -> BResult {
    match env.system.write_all(Fd::STDOUT, data).await {
        Ok(()) => BResult::new(ExitStatus(0)),
        Err(e) => {
            let pid = env.system.getpid().0;
            push_event(json!({"ev": format!("{who}_error"), "pid": pid, "errno": format!("{e:?}")}));
            BResult::new(ExitStatus(1))
        }
    }
}

/// `emitb HEX`: writes the bytes given in hexadecimal (any byte values).
fn emitb_main(env: &mut VEnv, args: Vec<Field>) -> Pin<Box<dyn Future<Output = BResult> + '_>> {
    Box::pin(async move {
        let hex = args.first().map(|f| f.value.clone()).unwrap_or_default();
        let data: Vec<u8> = (0..hex.len() / 2).map(|i| u8::from_str_radix(&hex[2 * i..2 * i + 2], 16).unwrap_or(b'?')).collect();
        write_out(env, &data, "emit").await
    })
}

/// `emito OFF N`: writes bytes OFF .. OFF+N-1 of the counter stream.
fn emito_main(env: &mut VEnv, args: Vec<Field>) -> Pin<Box<dyn Future<Output = BResult> + '_>> {
    Box::pin(async move {
        let (off, n) = (arg_usize(&args, 0), arg_usize(&args, 1));
        let data: Vec<u8> = (off..off + n).map(stream_byte).collect();
        write_out(env, &data, "emit").await
    })
}

fn register(env: &mut VEnv) {
    env.builtins.insert("valu", Builtin::new(Type::Mandatory, valu_main));
    env.builtins.insert("emitb", Builtin::new(Type::Mandatory, emitb_main));
    env.builtins.insert("emito", Builtin::new(Type::Mandatory, emito_main));
    env.builtins.insert("csink", Builtin::new(Type::Mandatory, csink_main));
    env.builtins.insert("val", Builtin::new(Type::Mandatory, val_main));
    env.builtins.insert("scat", Builtin::new(Type::Mandatory, scat_main));
}

/// Script text from the token list printed by Gen_Pipe.
pub fn render(tokens: &Value) -> Vec<u8> {
    let mut out = Vec::new();
    for t in tokens.as_array().expect("script tokens") {
        let codes = |t: &Value| -> Vec<u8> {
            t["c"].as_array().map(|a| a.iter().map(|x| x.as_u64().unwrap() as u8).collect()).unwrap_or_default()
        };
        match t["k"].as_str().unwrap() {
            "s" => out.extend_from_slice(t["s"].as_str().unwrap().as_bytes()),
            "q" => {
                out.push(b'\'');
                out.extend(codes(t));
                out.push(b'\'');
            }
            "r" => out.extend(codes(t)),
            "x" => out.extend(codes(t).iter().flat_map(|b| format!("{b:02x}").into_bytes())),
            "b" => out.extend((0..t["n"].as_u64().unwrap() as usize).map(stream_byte)),
            other => panic!("unknown token kind {other}"),
        }
    }
    out
}

struct RunObs {
    key: String,
    rec: Value,
    choices: Vec<(usize, usize)>,
}

fn run_once(script: &str, schedule: Schedule, step_limit: usize) -> RunObs {
    let mut cfg = ShellCfg::command(script);
    cfg.schedule = schedule;
    cfg.step_limit = step_limit;
    cfg.setup = Some(Box::new(|env, _st| register(env)));
    let r = run_shell(cfg);
    let mut obs = vec![];
    let mut errs: Vec<String> = vec![];
    for e in &r.events {
        match e["ev"].as_str().unwrap_or("") {
            "csink" | "val" => {
                let mut o = e.clone();
                o.as_object_mut().unwrap().remove("pid");
                if o.get("argc").is_none() {
                    o["argc"] = json!(3);
                }
                if o.get("repl").is_none() {
                    o["repl"] = json!(0);
                }
                obs.push(o);
            }
            k if k.ends_with("_error") => errs.push(format!("{k}:{}", e["errno"].as_str().unwrap_or("?"))),
            _ => {}
        }
    }
    let outcome = match &r.outcome {
        yvcommon::sched::Outcome::Panic(_) => "panic".to_string(),
        _ => r.outcome_str(),
    };
    let detail = match &r.outcome {
        yvcommon::sched::Outcome::Panic(m) => m.clone(),
        _ => String::new(),
    };
    let stderr: String = r.stderr_str().chars().take(300).collect();
    let rec = json!({"outcome": outcome, "detail": detail, "status": r.status, "obs": obs, "errs": errs, "stderr": stderr});
    RunObs { key: rec.to_string(), rec, choices: r.choices }
}

/// Next schedule prefix in a depth-first enumeration of the choice points
/// lo..lo+depth (positions before lo keep the choices of the last run).
fn next_prefix_window(choices: &[(usize, usize)], lo: usize, depth: usize) -> Option<Vec<usize>> {
    let hi = choices.len().min(lo + depth);
    for k in (lo..hi).rev() {
        let (c, n) = choices[k];
        if c + 1 < n {
            let mut p: Vec<usize> = choices[..k].iter().map(|x| x.0).collect();
            p.push(c + 1);
            return Some(p);
        }
    }
    None
}

pub struct Plan {
    pub dfs_depth: usize,
    pub dfs_max: usize,
    pub windows: Vec<usize>,
    pub win_depth: usize,
    pub win_max: usize,
    pub random: usize,
    pub step_limit: usize,
}

struct Acc {
    map: BTreeMap<String, (Value, usize, String)>,
    runs: usize,
}

impl Acc {
    fn add(&mut self, o: RunObs, sched: &str) {
        self.runs += 1;
        let e = self.map.entry(o.key).or_insert_with(|| (o.rec, 0, sched.to_string()));
        e.1 += 1;
    }
}

fn sched_name(kind: &str, p: &[usize]) -> String {
    let s: Vec<String> = p.iter().map(|x| x.to_string()).collect();
    format!("{kind}:{}", s.join(","))
}

/// All runs of one scenario; returns the records (one per distinct observation).
fn explore(idx: usize, line: &Value, plan: &Plan, seed: u64, current: &Mutex<(usize, String, Instant)>) -> (Vec<Value>, usize) {
    let script_bytes = render(&line["script"]);
    let script = String::from_utf8(script_bytes).expect("script is ASCII");
    let mut acc = Acc { map: BTreeMap::new(), runs: 0 };
    let go = |schedule: Schedule, name: &str, acc: &mut Acc| -> Vec<(usize, usize)> {
        *current.lock().unwrap() = (idx, name.to_string(), Instant::now());
        let o = run_once(&script, schedule, plan.step_limit);
        let ch = o.choices.clone();
        acc.add(o, name);
        ch
    };
    // depth-first over the first choice points
    let mut prefix: Vec<usize> = vec![];
    let mut n = 0;
    loop {
        let name = sched_name("dfs", &prefix);
        let ch = go(Schedule::Prefix(prefix.clone()), &name, &mut acc);
        n += 1;
        if n >= plan.dfs_max {
            break;
        }
        match yvcommon::sched::next_prefix(&ch, plan.dfs_depth) {
            Some(p) => prefix = p,
            None => break,
        }
    }
    // windows deeper in the run: random choices before the window, all
    // combinations inside it, FIFO after it
    let mut rng = rand::rngs::StdRng::seed_from_u64(seed ^ (idx as u64).wrapping_mul(0x9e37_79b9_7f4a_7c15));
    for &lo in &plan.windows {
        let base: Vec<usize> = (0..lo).map(|_| rng.gen_range(0..4)).collect();
        let mut prefix = base.clone();
        let mut n = 0;
        loop {
            let name = sched_name("win", &prefix);
            let ch = go(Schedule::Prefix(prefix.clone()), &name, &mut acc);
            n += 1;
            if n >= plan.win_max || ch.len() <= lo {
                break;
            }
            match next_prefix_window(&ch, lo, plan.win_depth) {
                Some(p) => prefix = p,
                None => break,
            }
        }
    }
    for i in 0..plan.random {
        let s = seed.wrapping_mul(1_000_003).wrapping_add((idx as u64) << 16).wrapping_add(i as u64);
        let name = format!("rnd:{s}");
        go(Schedule::Random(s), &name, &mut acc);
    }
    let runs = acc.runs;
    let recs = acc
        .map
        .into_values()
        .map(|(mut rec, count, sched)| {
            rec["t"] = json!("run");
            rec["id"] = json!(idx);
            rec["sc"] = line["sc"].clone();
            rec["lossy"] = line["lossy"].clone();
            rec["runs"] = json!(count);
            rec["sched"] = json!(sched);
            rec
        })
        .collect();
    (recs, runs)
}

fn parse_windows(s: &str) -> Vec<usize> {
    s.split(',').filter(|x| !x.is_empty()).map(|x| x.parse().expect("window offset")).collect()
}

pub fn run(args: &[String]) -> i32 {
    yvcommon::util::quiet_panics();
    let plan = Arc::new(Plan {
        dfs_depth: opt_usize(args, "--dfs", 5),
        dfs_max: opt_usize(args, "--dfs-max", 40),
        windows: parse_windows(opt(args, "--windows").unwrap_or("12,40")),
        win_depth: opt_usize(args, "--win-depth", 3),
        win_max: opt_usize(args, "--win-max", 8),
        random: opt_usize(args, "--random", 6),
        step_limit: opt_usize(args, "--step-limit", 400_000),
    });
    let hang_secs = opt_usize(args, "--hang-secs", 45) as u64;
    let threads = opt_usize(args, "--threads", 8).max(1);
    let seed = yvcommon::util::seed();
    let lines: Vec<Value> = yvcommon::util::open_in(args)
        .lines()
        .map(|l| l.expect("read catalogue"))
        .filter(|l| !l.trim().is_empty())
        .map(|l| serde_json::from_str(&l).expect("catalogue line"))
        .collect();
    let lines = Arc::new(lines);
    let next = Arc::new(AtomicUsize::new(0));
    let out_path = opt(args, "--out").expect("--out").to_string();
    let out = Arc::new(Mutex::new(std::io::BufWriter::with_capacity(1 << 20, std::fs::File::create(&out_path).expect("create --out"))));
    let total_runs = Arc::new(AtomicUsize::new(0));
    let total_recs = Arc::new(AtomicUsize::new(0));
    let currents: Vec<Arc<Mutex<(usize, String, Instant)>>> =
        (0..threads).map(|_| Arc::new(Mutex::new((usize::MAX, String::new(), Instant::now())))).collect();
    let mut handles = vec![];
    for t in 0..threads {
        let (lines, next, out, plan) = (Arc::clone(&lines), Arc::clone(&next), Arc::clone(&out), Arc::clone(&plan));
        let (total_runs, total_recs) = (Arc::clone(&total_runs), Arc::clone(&total_recs));
        let current = Arc::clone(&currents[t]);
        handles.push(
            std::thread::Builder::new()
                .stack_size(64 << 20)
                .spawn(move || {
                    loop {
                        let i = next.fetch_add(1, Ordering::SeqCst);
                        if i >= lines.len() {
                            break;
                        }
                        let (recs, runs) = explore(i, &lines[i], &plan, seed, &current);
                        total_runs.fetch_add(runs, Ordering::SeqCst);
                        total_recs.fetch_add(recs.len(), Ordering::SeqCst);
                        let mut o = out.lock().unwrap();
                        for r in recs {
                            writeln!(o, "{r}").unwrap();
                        }
                    }
                    *current.lock().unwrap() = (usize::MAX, String::new(), Instant::now());
                })
                .unwrap(),
        );
    }
    // watchdog: a run of the code under test that does not come back is data
    let done = Arc::new(std::sync::atomic::AtomicBool::new(false));
    {
        let (done, currents, out, lines) = (Arc::clone(&done), currents.clone(), Arc::clone(&out), Arc::clone(&lines));
        let (total_runs, total_recs) = (Arc::clone(&total_runs), Arc::clone(&total_recs));
        std::thread::spawn(move || {
            while !done.load(Ordering::SeqCst) {
                std::thread::sleep(Duration::from_millis(200));
                for c in &currents {
                    let (idx, name, since) = c.lock().unwrap().clone();
                    if idx != usize::MAX && since.elapsed() > Duration::from_secs(hang_secs) {
                        let rec = json!({"t": "run", "id": idx, "sc": lines[idx]["sc"], "lossy": lines[idx]["lossy"],
                            "runs": 1, "sched": name, "outcome": "hang", "detail": format!("no return within {hang_secs}s"),
                            "status": -1, "obs": [], "errs": [], "stderr": ""});
                        let mut o = out.lock().unwrap();
                        writeln!(o, "{rec}").unwrap();
                        o.flush().unwrap();
                        println!("{}", json!({"scenarios": lines.len(), "runs": total_runs.load(Ordering::SeqCst),
                            "records": total_recs.load(Ordering::SeqCst) + 1, "aborted": true}));
                        std::process::exit(0);
                    }
                }
            }
        });
    }
    for h in handles {
        if h.join().is_err() {
            eprintln!("yv-c14: worker thread panicked");
            return 2;
        }
    }
    done.store(true, Ordering::SeqCst);
    out.lock().unwrap().flush().unwrap();
    println!("{}", json!({"scenarios": lines.len(), "runs": total_runs.load(Ordering::SeqCst),
        "records": total_recs.load(Ordering::SeqCst), "aborted": false}));
    0
}

/// `one --script-file F [--sched dfs:0,1 | rnd:S]`: one run, printed in full.
pub fn one(args: &[String]) -> i32 {
    let lines: Vec<Value> = yvcommon::util::open_in(args)
        .lines()
        .map(|l| serde_json::from_str(&l.unwrap()).expect("line"))
        .collect();
    let sched = opt(args, "--sched").unwrap_or("dfs:");
    let schedule = if let Some(s) = sched.strip_prefix("rnd:") {
        Schedule::Random(s.parse().unwrap())
    } else {
        let p = sched.split(':').nth(1).unwrap_or("");
        Schedule::Prefix(p.split(',').filter(|x| !x.is_empty()).map(|x| x.parse().unwrap()).collect())
    };
    let mut out = yvcommon::util::open_out(args);
    for (i, line) in lines.iter().enumerate() {
        let script = String::from_utf8(render(&line["script"])).unwrap();
        let o = run_once(&script, schedule.clone(), 400_000);
        let mut rec = o.rec;
        rec["t"] = json!("run");
        rec["id"] = line.get("id").cloned().unwrap_or(json!(i));
        rec["sc"] = line["sc"].clone();
        rec["lossy"] = line["lossy"].clone();
        rec["runs"] = json!(1);
        rec["sched"] = json!(sched);
        writeln!(out, "{rec}").unwrap();
        if args.iter().any(|a| a == "--show") {
            eprintln!("script: {script:?}");
        }
    }
    0
}
