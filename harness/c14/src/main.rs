//! Conformance harness for property C14 (data through pipes and command
//! substitutions), see /verif/DESIGN.md and spec/Pipe.tla.
mod e2e;
mod kunit;

fn main() {
    let args: Vec<String> = std::env::args().collect();
    if args.len() < 2 {
        eprintln!("usage: yv-c14 <run|one|krep|krand|consts> ...");
        std::process::exit(2);
    }
    let rest = &args[2..];
    let code = match args[1].as_str() {
        "run" => e2e::run(rest),
        "one" => e2e::one(rest),
        "krep" => kunit::krep(rest),
        "krand" => kunit::krand(rest),
        "consts" => {
            println!(
                "{}",
                serde_json::json!({"PIPE_BUF": yash_env::system::r#virtual::PIPE_BUF,
                    "PIPE_SIZE": yash_env::system::r#virtual::PIPE_SIZE})
            );
            0
        }
        other => {
            eprintln!("unknown subcommand {other}");
            2
        }
    };
    std::process::exit(code);
}
