//! Conformance harness for property C14, see /verif/DESIGN.md.
fn main() {
    eprintln!("yv-c14: not implemented yet");
    std::process::exit(2);
}
