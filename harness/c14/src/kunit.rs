//! System-call level binding of C14: histories printed by Gen_PipeK (or drawn
//! at random) are replayed on ONE real simulated pipe, through the raw
//! `VirtualSystem` calls (level K) or through `Concurrent` (level C).  Every
//! executed step is recorded as {pre, op, res, post} for Trace_Pipe (KStep).
//!
//! Everything recorded is observed: occupancy, open ends and content come
//! from the public `SystemState` (the FIFO's `FileBody`), results from the
//! polled futures, wake-ups from the wakers handed to those futures.  The
//! bookkeeping fields `done` (bytes a blocking write has transferred so far)
//! and `acc` (bytes a read_all has consumed so far) are derived from observed
//! changes of the pipe content, not from any expectation.
use rand::{Rng, SeedableRng};
use serde_json::{Value, json};
use std::cell::RefCell;
use std::collections::HashSet;
use std::collections::hash_map::DefaultHasher;
use std::hash::{Hash, Hasher};
use std::io::{BufRead, Write};
use std::pin::Pin;
use std::rc::Rc;
use std::sync::Arc;
use std::sync::atomic::{AtomicBool, Ordering};
use std::task::{Context, Poll, Wake, Waker};
use yash_env::io::Fd;
use yash_env::system::concurrency::{ReadAll as _, Select as _, WriteAll as _};
use yash_env::system::r#virtual::fd_set::FdSet;
use yash_env::system::r#virtual::{FileBody, Inode, VirtualSystem};
use yash_env::system::{Close as _, Concurrent, Errno, Fcntl as _, FdSet as _, Pipe as _, Read as _, Select as _, Write as _};
use yvcommon::util::{opt, opt_usize};

struct Flag(AtomicBool);
impl Wake for Flag {
    fn wake(self: Arc<Self>) {
        self.0.store(true, Ordering::SeqCst);
    }
    fn wake_by_ref(self: &Arc<Self>) {
        self.0.store(true, Ordering::SeqCst);
    }
}

/// result of a finished request: (kind, count, data read)
type Done = (String, i64, Vec<u8>);
type Fut = Pin<Box<dyn Future<Output = Done>>>;

struct Req {
    k: String,
    n: usize,
    blk: bool,
    done: usize,
    tag: usize,
    acc: Vec<u8>,
    fut: Fut,
}

struct Actor {
    req: Option<Req>,
    flag: Arc<Flag>,
}

struct World {
    vs: VirtualSystem,
    sys: Rc<Concurrent<VirtualSystem>>,
    inode: Rc<RefCell<Inode>>,
    rfd: Fd,
    wfd: Fd,
    r_open: bool,
    w_open: bool,
    actors: Vec<Actor>,
    opseq: usize,
}

fn errname(e: Errno) -> String {
    if e == Errno::EAGAIN {
        "eagain".into()
    } else if e == Errno::EPIPE {
        "epipe".into()
    } else if e == Errno::EBADF {
        "ebadf".into()
    } else if e == Errno::EINTR {
        "eintr".into()
    } else {
        format!("err:{e:?}")
    }
}

fn res_count(r: Result<usize, Errno>) -> (String, i64) {
    match r {
        Ok(n) => ("ok".into(), n as i64),
        Err(e) => (errname(e), -1),
    }
}

/// Byte `i` of the data of the write request with tag `tag`.
fn data_byte(tag: usize, i: usize) -> u8 {
    ((tag % 8) * 32 + (i % 32)) as u8
}

/// Maximal runs [tag, off mod 32, len] of bytes that continue each other.
fn runs(d: &[u8]) -> Vec<[usize; 3]> {
    let mut out: Vec<[usize; 3]> = vec![];
    for (i, &b) in d.iter().enumerate() {
        let (t, o) = ((b / 32) as usize, (b % 32) as usize);
        let linked = i > 0 && {
            let p = d[i - 1];
            (p / 32) as usize == t && ((p % 32) as usize + 1) % 32 == o
        };
        if linked {
            out.last_mut().unwrap()[2] += 1;
        } else {
            out.push([t, o, 1]);
        }
    }
    out
}

impl World {
    fn new(nactors: usize) -> World {
        let vs = VirtualSystem::new();
        let sys = Rc::new(Concurrent::new(vs.clone()));
        let (rfd, wfd) = vs.pipe().expect("pipe");
        let inode = {
            let st = vs.state.borrow();
            let p = st.processes.get(&vs.process_id).unwrap();
            let ofd = p.fds().get(&rfd).unwrap().open_file_description.borrow();
            Rc::clone(ofd.inode())
        };
        let actors = (0..nactors).map(|_| Actor { req: None, flag: Arc::new(Flag(AtomicBool::new(false))) }).collect();
        World { vs, sys, inode, rfd, wfd, r_open: true, w_open: true, actors, opseq: 0 }
    }

    fn content(&self) -> Vec<u8> {
        match &self.inode.borrow().body {
            FileBody::Fifo { content, .. } => content.iter().copied().collect(),
            _ => panic!("not a fifo"),
        }
    }

    fn observe(&self) -> Value {
        let (occ, nr, nw, prw, pww, rs) = match &self.inode.borrow().body {
            FileBody::Fifo { content, readers, writers, pending_read_wakers, pending_write_wakers, .. } => {
                let c: Vec<u8> = content.iter().copied().collect();
                (c.len(), *readers, *writers, pending_read_wakers.len(), pending_write_wakers.len(), runs(&c))
            }
            _ => panic!("not a fifo"),
        };
        let act: Vec<Value> = self
            .actors
            .iter()
            .map(|a| match &a.req {
                None => json!({"k": "I", "n": 0, "blk": false, "done": 0, "tag": 0, "acc": []}),
                Some(r) => json!({"k": r.k, "n": r.n, "blk": r.blk, "done": r.done, "tag": r.tag, "acc": runs(&r.acc)}),
            })
            .collect();
        let woken: Vec<bool> = self.actors.iter().map(|a| a.flag.0.load(Ordering::SeqCst)).collect();
        let _ = (prw, pww);
        json!({"occ": occ, "nr": nr, "nw": nw, "runs": rs, "act": act, "woken": woken})
    }

    fn uses_read_end(k: &str) -> bool {
        matches!(k, "R" | "SR" | "SB" | "CR" | "CRA")
    }
    fn uses_write_end(k: &str) -> bool {
        matches!(k, "W" | "SW" | "SB" | "CW" | "CWA")
    }

    fn make_future(&self, k: &str, n: usize, tag: usize) -> Fut {
        let (vs, sys, rfd, wfd) = (self.vs.clone(), Rc::clone(&self.sys), self.rfd, self.wfd);
        let data: Vec<u8> = (0..n).map(|i| data_byte(tag, i)).collect();
        match k {
            "R" => Box::pin(async move {
                let mut buf = vec![0u8; n];
                let (r, v) = res_count(vs.read(rfd, &mut buf).await);
                buf.truncate(v.max(0) as usize);
                (r, v, buf)
            }),
            "W" => Box::pin(async move {
                let (r, v) = res_count(vs.write(wfd, &data).await);
                (r, v, vec![])
            }),
            "SR" | "SW" | "SB" => {
                let k = k.to_string();
                Box::pin(async move {
                    let mut readers = if k != "SW" { FdSet::from_fds([rfd]) } else { FdSet::new() };
                    let mut writers = if k != "SR" { FdSet::from_fds([wfd]) } else { FdSet::new() };
                    match vs.select(&mut readers, &mut writers, None, None).await {
                        Ok(c) => ("ok".to_string(), c as i64, vec![]),
                        Err(e) => (errname(e), -1, vec![]),
                    }
                })
            }
            "CR" => Box::pin(async move {
                let mut buf = vec![0u8; n];
                let (r, v) = res_count(sys.read(rfd, &mut buf).await);
                buf.truncate(v.max(0) as usize);
                (r, v, buf)
            }),
            "CW" => Box::pin(async move {
                let (r, v) = res_count(sys.write(wfd, &data).await);
                (r, v, vec![])
            }),
            "CRA" => Box::pin(async move {
                let mut buf = Vec::new();
                match sys.read_all_to(rfd, &mut buf).await {
                    Ok(()) => ("ok".to_string(), buf.len() as i64, buf),
                    Err(e) => (errname(e), -1, buf),
                }
            }),
            "CWA" => Box::pin(async move {
                match sys.write_all(wfd, &data).await {
                    Ok(()) => ("ok".to_string(), data.len() as i64, vec![]),
                    Err(e) => (errname(e), -1, vec![]),
                }
            }),
            other => panic!("unknown request kind {other}"),
        }
    }

    /// Polls the request of actor `a` once.
    fn poll(&mut self, a: usize) -> Value {
        let before = self.content();
        let (k, blk) = {
            let r = self.actors[a].req.as_ref().unwrap();
            (r.k.clone(), r.blk)
        };
        // the mode of the open file description is that of the request being
        // polled (the harness is the only thread, so this is per request)
        if k == "R" && self.r_open {
            let _ = self.vs.get_and_set_nonblocking(self.rfd, !blk);
        }
        if k == "W" && self.w_open {
            let _ = self.vs.get_and_set_nonblocking(self.wfd, !blk);
        }
        self.actors[a].flag.0.store(false, Ordering::SeqCst);
        let waker = Waker::from(Arc::clone(&self.actors[a].flag));
        let mut cx = Context::from_waker(&waker);
        let p = self.actors[a].req.as_mut().unwrap().fut.as_mut().poll(&mut cx);
        let after = self.content();
        match p {
            Poll::Ready((r, v, data)) => {
                self.actors[a].req = None;
                json!({"r": r, "v": v, "data": runs(&data)})
            }
            Poll::Pending => {
                let req = self.actors[a].req.as_mut().unwrap();
                if Self::uses_write_end(&k) && after.len() > before.len() {
                    req.done += after.len() - before.len();
                }
                if k == "CRA" && after.len() < before.len() {
                    req.acc.extend_from_slice(&before[..before.len() - after.len()]);
                }
                json!({"r": "pending", "v": -1, "data": []})
            }
        }
    }

    /// Executes one step; None if it does not apply in the current state.
    fn step(&mut self, s: &Value, nmap: &dyn Fn(usize) -> usize) -> Option<Value> {
        let op = s["op"].as_str().unwrap();
        let a = s["a"].as_u64().unwrap_or(0) as usize;
        let pre = self.observe();
        let (opj, res) = match op {
            "start" => {
                let a0 = a.checked_sub(1)?;
                if a0 >= self.actors.len() || self.actors[a0].req.is_some() {
                    return None;
                }
                let k = s["k"].as_str().unwrap().to_string();
                if (Self::uses_read_end(&k) && !self.r_open) || (Self::uses_write_end(&k) && !self.w_open) {
                    return None;
                }
                // one request at a time per descriptor through Concurrent (see Gen_PipeK)
                if k.starts_with('C')
                    && self.actors.iter().any(|x| {
                        x.req.as_ref().is_some_and(|r| {
                            (Self::uses_read_end(&r.k) && Self::uses_read_end(&k)) || (Self::uses_write_end(&r.k) && Self::uses_write_end(&k))
                        })
                    })
                {
                    return None;
                }
                let n = if matches!(k.as_str(), "SR" | "SW" | "SB" | "CRA") { 0 } else { nmap(s["n"].as_u64().unwrap() as usize) };
                let blk = s["blk"].as_bool().unwrap_or(true);
                // smallest tag not used by bytes in the pipe or by a request in
                // flight (a function of the state, so equal states give equal records)
                let mut used = [false; 8];
                for b in self.content() {
                    used[(b / 32) as usize] = true;
                }
                for x in &self.actors {
                    if let Some(r) = &x.req {
                        used[r.tag] = true;
                        for b in &r.acc {
                            used[(*b / 32) as usize] = true;
                        }
                    }
                }
                let tag = used.iter().position(|u| !u).unwrap_or(self.opseq % 8);
                self.opseq += 1;
                let fut = self.make_future(&k, n, tag);
                self.actors[a0].req = Some(Req { k: k.clone(), n, blk, done: 0, tag, acc: vec![], fut });
                let res = self.poll(a0);
                (json!({"op": "start", "a": a, "k": k, "n": n, "blk": blk, "tag": tag}), res)
            }
            "poll" => {
                let a0 = a.checked_sub(1)?;
                if a0 >= self.actors.len() || self.actors[a0].req.is_none() {
                    return None;
                }
                let res = self.poll(a0);
                (json!({"op": "poll", "a": a, "k": "", "n": 0, "blk": false, "tag": 0}), res)
            }
            "peek" => {
                self.sys.peek();
                (json!({"op": "peek", "a": 0, "k": "", "n": 0, "blk": false, "tag": 0}), json!({"r": "ok", "v": 0, "data": []}))
            }
            "closeR" | "closeW" => {
                let read_end = op == "closeR";
                if read_end && !self.r_open || !read_end && !self.w_open {
                    return None;
                }
                let busy = self.actors.iter().any(|x| {
                    x.req.as_ref().is_some_and(|r| if read_end { Self::uses_read_end(&r.k) } else { Self::uses_write_end(&r.k) })
                });
                if busy {
                    return None;
                }
                let r = self.vs.close(if read_end { self.rfd } else { self.wfd });
                if read_end {
                    self.r_open = false;
                } else {
                    self.w_open = false;
                }
                let rs = if r.is_ok() { "ok".to_string() } else { errname(r.unwrap_err()) };
                (json!({"op": op, "a": 0, "k": "", "n": 0, "blk": false, "tag": 0}), json!({"r": rs, "v": 0, "data": []}))
            }
            other => panic!("unknown step {other}"),
        };
        let post = self.observe();
        Some(json!({"t": "k", "pre": pre, "op": opj, "res": res, "post": post}))
    }
}

fn new_sink(args: &[String]) -> Sink {
    let path = opt(args, "--out").expect("--out");
    Sink {
        out: yvcommon::util::open_out(args),
        src: Box::new(std::io::BufWriter::new(std::fs::File::create(format!("{path}.src")).expect("create .src"))),
        origin: String::new(),
        seen: HashSet::new(),
        steps: 0,
        skipped: 0,
        records: 0,
        panics: 0,
    }
}

fn size_map(name: &str) -> Box<dyn Fn(usize) -> usize> {
    match name {
        "x256" => Box::new(|n| n * 256),
        // the boundaries of PIPE_BUF = 512 and PIPE_SIZE = 1024
        "edge" => Box::new(|n| match n {
            1 => 1,
            2 => 512,
            3 => 513,
            4 => 1024,
            5 => 1025,
            n => n * 256 + 1,
        }),
        "edge2" => Box::new(|n| match n {
            1 => 511,
            2 => 512,
            3 => 1023,
            4 => 1024,
            5 => 2049,
            n => n * 256 - 1,
        }),
        "id" => Box::new(|n| n),
        other => panic!("unknown size map {other}"),
    }
}

struct Sink {
    out: Box<dyn Write>,
    /// line-aligned with `out`: where the record comes from ("name:history map step")
    src: Box<dyn Write>,
    origin: String,
    seen: HashSet<u64>,
    steps: usize,
    skipped: usize,
    records: usize,
    panics: usize,
}

impl Sink {
    fn put(&mut self, rec: Value) {
        self.steps += 1;
        let s = rec.to_string();
        let mut h = DefaultHasher::new();
        s.hash(&mut h);
        if self.seen.insert(h.finish()) {
            writeln!(self.out, "{s}").unwrap();
            writeln!(self.src, "{}", self.origin).unwrap();
            self.records += 1;
        }
    }
}

fn replay_history(steps: &[Value], nactors: usize, map: &str, origin: &str, sink: &mut Sink) {
    let nmap = size_map(map);
    let mut w = World::new(nactors);
    for (i, s) in steps.iter().enumerate() {
        sink.origin = format!("{origin} {map} {i}");
        let r = yvcommon::util::catch(|| w.step(s, &*nmap));
        match r {
            Ok(Some(rec)) => sink.put(rec),
            Ok(None) => sink.skipped += 1,
            Err(msg) => {
                // a panic of the code under test is data: the spec rejects it
                sink.panics += 1;
                sink.put(json!({"t": "k", "panic": msg, "op": s}));
                std::mem::forget(w);
                return;
            }
        }
    }
}

/// `krep --in histories.ndjson --out trace.ndjson --actors A --maps x256,edge`
pub fn krep(args: &[String]) -> i32 {
    yvcommon::util::quiet_panics();
    let nactors = opt_usize(args, "--actors", 3);
    let maps: Vec<String> = opt(args, "--maps").unwrap_or("x256,edge,edge2").split(',').map(|s| s.to_string()).collect();
    let name = opt(args, "--name").unwrap_or("h").to_string();
    let mut sink = new_sink(args);
    let mut histories = 0;
    let mut lineno = 0;
    let mut seen_h: HashSet<String> = HashSet::new();
    for line in yvcommon::util::open_in(args).lines() {
        let line = line.expect("read histories");
        lineno += 1;
        if line.trim().is_empty() || !seen_h.insert(line.clone()) {
            continue;
        }
        let v: Value = serde_json::from_str(&line).expect("history line");
        let steps = v["h"].as_array().expect("h").clone();
        histories += 1;
        for m in &maps {
            replay_history(&steps, nactors, m, &format!("{name}:{}", lineno - 1), &mut sink);
        }
    }
    sink.out.flush().unwrap();
    sink.src.flush().unwrap();
    println!("{}", json!({"histories": histories, "steps": sink.steps, "skipped": sink.skipped, "records": sink.records, "panics": sink.panics}));
    0
}

/// `krand --level K|C --n N --steps S --actors A --out trace.ndjson`: seeded
/// random histories with request sizes on and around the real boundaries.
pub fn krand(args: &[String]) -> i32 {
    yvcommon::util::quiet_panics();
    let level = opt(args, "--level").unwrap_or("K").to_string();
    let n = opt_usize(args, "--n", 200);
    let steps = opt_usize(args, "--steps", 40);
    let nactors = opt_usize(args, "--actors", 3);
    let mut rng = rand::rngs::StdRng::seed_from_u64(yvcommon::util::seed().wrapping_mul(77) + if level == "K" { 1 } else { 2 });
    let sizes = [1usize, 2, 100, 511, 512, 513, 700, 1023, 1024, 1025, 1536, 2048, 2049, 3000];
    let name = opt(args, "--name").unwrap_or("rand").to_string();
    let mut sink = new_sink(args);
    let mut hist_out = std::io::BufWriter::new(std::fs::File::create(format!("{}.hist", opt(args, "--out").unwrap())).expect("create .hist"));
    for hidx in 0..n {
        let mut hist: Vec<Value> = vec![];
        let nmap = size_map("id");
        let mut w = World::new(nactors);
        for _ in 0..steps {
            let a = rng.gen_range(1..=nactors);
            let c = rng.gen_range(0..100);
            let size = sizes[rng.gen_range(0..sizes.len())];
            let busy = w.actors[a - 1].req.is_some();
            let s = if level == "C" && c < 20 {
                json!({"op": "peek", "a": 0})
            } else if c >= 96 {
                json!({"op": if c % 2 == 0 { "closeR" } else { "closeW" }, "a": 0})
            } else if busy {
                json!({"op": "poll", "a": a})
            } else {
                let kinds: &[&str] = if level == "K" { &["R", "W", "R", "W", "SR", "SW", "SB"] } else { &["CR", "CW", "CWA", "CRA", "CR", "CW"] };
                let k = kinds[rng.gen_range(0..kinds.len())];
                json!({"op": "start", "a": a, "k": k, "n": size, "blk": rng.gen_bool(0.5)})
            };
            sink.origin = format!("{name}:{hidx} id {}", hist.len());
            hist.push(s.clone());
            match yvcommon::util::catch(|| w.step(&s, &*nmap)) {
                Ok(Some(rec)) => sink.put(rec),
                Ok(None) => sink.skipped += 1,
                Err(msg) => {
                    sink.panics += 1;
                    sink.put(json!({"t": "k", "panic": msg, "op": s}));
                    std::mem::forget(w);
                    break;
                }
            }
        }
        writeln!(hist_out, "{}", json!({"h": hist})).unwrap();
    }
    sink.out.flush().unwrap();
    sink.src.flush().unwrap();
    hist_out.flush().unwrap();
    println!("{}", json!({"histories": n, "steps": sink.steps, "skipped": sink.skipped, "records": sink.records, "panics": sink.panics}));
    0
}
