//! Conformance harness for property C15 (executor wake-ups), see
//! /verif/DESIGN.md section 6 "C15" and spec/ExecutorAbs.tla.
//!
//! Instrumented futures perform scripted (replay of a behaviour of
//! spec/Executor.tla) or seeded random actions against the real
//! `yash_executor::{Executor, Spawner, forwarder::Receiver}`; the harness steps
//! the real executor and records one event per poll-begin / action / poll-end /
//! external operation, each with `Executor::wake_count()`.  The events are
//! judged by TLC (spec/Trace_Executor.tla); this program contains no oracle.
//! The only comparison made here is *equality* of an observed event sequence
//! with the sequence predicted by the TLC-checked driver model, used as a
//! filter (DESIGN.md 4.2): unequal sequences are written out for validation.
//!
//! Sub-commands:
//!   replay --in B.ndjson --mismatch M.ndjson --sample S.ndjson
//!          [--sample-every N] [--max-mismatch K]         (stats on stdout)
//!   random --runs R --tasks N --chans K --budget B --steps L --out T.ndjson
//!   redo   --in one.json --out T.ndjson     (re-run one replay object)

use rand::rngs::StdRng;
use rand::{Rng, SeedableRng};
use serde_json::{Value, json};
use std::cell::RefCell;
use std::collections::VecDeque;
use std::future::Future;
use std::io::{BufRead, Write};
use std::pin::Pin;
use std::rc::Rc;
use std::task::{Context, Poll, Waker};
use yash_executor::forwarder::{Receiver, TryReceiveError};
use yash_executor::{Executor, Spawner};
use yvcommon::util::{catch, open_in, opt, opt_usize, quiet_panics, seed};

/// One trace event; the field set is the same for every kind so that the TLA+
/// side sees mono-typed records.
#[derive(Clone, Debug, PartialEq)]
struct Evt {
    ev: String,
    t: i64,
    a: i64,
    r: String,
    b: bool,
    v: i64,
    wc: i64,
}

impl Evt {
    fn to_json(&self) -> Value {
        json!({"ev": self.ev, "t": self.t, "a": self.a, "r": self.r, "b": self.b, "v": self.v, "wc": self.wc})
    }
    fn from_tuple(x: &Value) -> Option<Evt> {
        let a = x.as_array()?;
        Some(Evt {
            ev: a.first()?.as_str()?.to_string(),
            t: a.get(1)?.as_i64()?,
            a: a.get(2)?.as_i64()?,
            r: a.get(3)?.as_str()?.to_string(),
            b: a.get(4)?.as_bool()?,
            v: a.get(5)?.as_i64()?,
            wc: a.get(6)?.as_i64()?,
        })
    }
    fn from_obj(x: &Value) -> Option<Evt> {
        Some(Evt {
            ev: x.get("ev")?.as_str()?.to_string(),
            t: x.get("t")?.as_i64()?,
            a: x.get("a")?.as_i64()?,
            r: x.get("r")?.as_str()?.to_string(),
            b: x.get("b")?.as_bool()?,
            v: x.get("v")?.as_i64()?,
            wc: x.get("wc")?.as_i64()?,
        })
    }
}

#[derive(Clone, Copy, Debug, PartialEq)]
enum Act {
    Yield,
    Wait(usize),
    Signal(usize),
    Spawn(bool),
    Kick(usize),
    Await(usize),
    Complete,
}

#[derive(Clone, Copy, Debug, PartialEq)]
enum Blk {
    Free,
    Wait(usize),
    Await(usize),
}

#[derive(Default)]
struct Chan {
    sig: bool,
    waiters: Vec<(usize, Waker)>,
}

struct RandomSrc {
    /// percentage of Yield among the actions of a task
    yield_pct: u32,
    rng: StdRng,
    budget: usize,
    max_tasks: usize,
    pinned: bool,
}

enum Source {
    /// per task id: remaining scripted actions
    Scripts(Vec<VecDeque<Act>>),
    Random(RandomSrc),
}

struct World {
    exec: Option<Executor<'static>>,
    spawner: Spawner<'static>,
    events: Vec<Evt>,
    chans: Vec<Chan>,
    stash: Vec<Option<Waker>>,      // by task id (index 0 unused)
    rx: Vec<Option<Receiver<i64>>>, // by task id
    parent: Vec<usize>,
    received: Vec<bool>,
    finished: Vec<bool>,
    blk: Vec<Blk>,
    left: Vec<usize>,
    next_id: usize,
    src: Source,
    /// the scripts ran out or referred to something that does not exist in
    /// this execution (possible only after model drift): stop the run
    cut: bool,
    /// task whose poll is still open at the end of the replayed behaviour (0 = none)
    cut_task: usize,
    /// which poll of `cut_task` is the open one, and how many actions of it the behaviour contains
    cut_poll: usize,
    cut_acts: usize,
    polls: Vec<usize>,
    acts: usize,
    polled_in_step: Vec<usize>,
    /// inside a call of `Executor::run_until_stalled`
    in_run: bool,
}

type W = Rc<RefCell<World>>;

fn wc(w: &W) -> i64 {
    let e = w.borrow().exec.clone();
    match e {
        Some(e) => e.wake_count() as i64,
        None => -1,
    }
}

fn rec(w: &W, ev: &str, t: usize, a: usize, r: &str, b: bool, v: i64, with_wc: bool) {
    let c = if with_wc { wc(w) } else { -1 };
    w.borrow_mut().events.push(Evt {
        ev: ev.to_string(),
        t: t as i64,
        a: a as i64,
        r: r.to_string(),
        b,
        v,
        wc: c,
    });
}

fn grow(w: &mut World, id: usize) {
    while w.stash.len() <= id {
        w.stash.push(None);
        w.rx.push(None);
        w.parent.push(0);
        w.received.push(false);
        w.finished.push(false);
        w.blk.push(Blk::Free);
        w.left.push(0);
        w.polls.push(0);
        if let Source::Scripts(s) = &mut w.src {
            while s.len() < w.stash.len() {
                s.push(VecDeque::new());
            }
        }
    }
}

/// The instrumented task body.
struct TaskFut {
    id: usize,
    world: W,
}

/// Spawns a new task (externally if `by == 0`, else from inside `by`'s poll
/// through the `Spawner`).  Returns the new id.
fn do_spawn(w: &W, by: usize, with_rx: bool) -> usize {
    let id = {
        let mut wm = w.borrow_mut();
        let id = wm.next_id;
        wm.next_id += 1;
        grow(&mut wm, id);
        wm.parent[id] = by;
        if let Source::Random(r) = &wm.src {
            wm.left[id] = r.budget;
        }
        id
    };
    let fut = TaskFut { id, world: Rc::clone(w) };
    let exec = w.borrow().exec.clone().expect("executor alive");
    let spawner = w.borrow().spawner.clone();
    if with_rx {
        let rx = if by == 0 {
            unsafe { exec.spawn(fut) }
        } else {
            unsafe { spawner.spawn(fut) }.expect("spawner alive")
        };
        w.borrow_mut().rx[id] = Some(rx);
    } else {
        let f: Pin<Box<dyn Future<Output = ()>>> = Box::pin(async move {
            fut.await;
        });
        if by == 0 {
            unsafe { exec.spawn_pinned(f) }
        } else {
            unsafe { spawner.spawn_pinned(f) }.expect("spawner alive")
        }
    }
    rec(w, "spawn", by, id, "", with_rx, 0, true);
    id
}

/// Wakes task `u` through the stashed clone of its last waker.
fn do_kick(w: &W, by: usize, u: usize) -> bool {
    let wk = w.borrow().stash.get(u).and_then(|x| x.clone());
    match wk {
        Some(wk) => {
            if (by + u) % 2 == 0 {
                wk.wake_by_ref();
            } else {
                wk.wake();
            }
            rec(w, "kick", by, u, "", false, 0, true);
            true
        }
        None => false,
    }
}

fn do_try(w: &W, c: usize) -> bool {
    let res = {
        let wb = w.borrow();
        match wb.rx.get(c).and_then(|x| x.as_ref()) {
            Some(rx) => Some(rx.try_receive()),
            None => None,
        }
    };
    match res {
        None => false,
        Some(res) => {
            let (r, v) = match res {
                Ok(v) => ("ok", v),
                Err(TryReceiveError::NotSent) => ("notsent", 0),
                Err(TryReceiveError::AlreadyReceived) => ("already", 0),
                Err(TryReceiveError::SenderDropped) => ("dropped", 0),
            };
            if r == "ok" {
                w.borrow_mut().received[c] = true;
            }
            rec(w, "try", 0, c, r, false, v, true);
            true
        }
    }
}

impl TaskFut {
    /// The next action of this task: the retry of what it is blocked in, else
    /// the next scripted / randomly chosen one.  None = cut.
    fn next_action(&self) -> Option<(Act, bool)> {
        let id = self.id;
        let mut wm = self.world.borrow_mut();
        if wm.cut_task == id && wm.polls[id] == wm.cut_poll && wm.acts == wm.cut_acts {
            return None;
        }
        wm.acts += 1;
        match wm.blk[id] {
            Blk::Wait(k) => return Some((Act::Wait(k), true)),
            Blk::Await(c) => return Some((Act::Await(c), true)),
            Blk::Free => {}
        }
        let wm = &mut *wm;
        match &mut wm.src {
            // an exhausted script (possible only after model drift: the real
            // executor polled this task more often than the driver) completes
            // (a behaviour that ends inside a poll stops there: cut)
            Source::Scripts(s) => match s[id].pop_front() {
                Some(a) => Some((a, false)),
                None => Some((Act::Complete, false)),
            },
            Source::Random(r) => {
                if wm.left[id] == 0 {
                    return Some((Act::Complete, false));
                }
                let nchan = wm.chans.len() - 1;
                loop {
                    if r.rng.gen_range(0..100) < r.yield_pct {
                        wm.left[id] -= 1;
                        return Some((Act::Yield, false));
                    }
                    let a = match r.rng.gen_range(22..100) {
                        22..=39 => Act::Wait(r.rng.gen_range(1..=nchan)),
                        40..=57 => Act::Signal(r.rng.gen_range(1..=nchan)),
                        58..=69 => {
                            if wm.next_id > r.max_tasks {
                                continue;
                            }
                            Act::Spawn(!(r.pinned && r.rng.gen_range(0..4) == 0))
                        }
                        70..=79 => {
                            let c: Vec<usize> = (1..wm.next_id)
                                .filter(|&u| u != id && wm.stash[u].is_some())
                                .collect();
                            if c.is_empty() {
                                continue;
                            }
                            Act::Kick(c[r.rng.gen_range(0..c.len())])
                        }
                        80..=93 => {
                            let c: Vec<usize> = (1..wm.next_id)
                                .filter(|&c| wm.parent[c] == id && wm.rx[c].is_some() && !wm.received[c])
                                .collect();
                            if c.is_empty() {
                                continue;
                            }
                            Act::Await(c[r.rng.gen_range(0..c.len())])
                        }
                        _ => Act::Complete,
                    };
                    if a != Act::Complete {
                        wm.left[id] -= 1;
                    }
                    return Some((a, false));
                }
            }
        }
    }
}

impl Future for TaskFut {
    type Output = i64;

    fn poll(self: Pin<&mut Self>, cx: &mut Context<'_>) -> Poll<i64> {
        if self.world.borrow().cut {
            // the run is over (see `cut`); run_until_stalled may still poll
            return Poll::Pending;
        }
        let r = self.poll_inner(cx);
        let (in_run, cut) = {
            let wb = self.world.borrow();
            (wb.in_run, wb.cut)
        };
        if in_run && !cut {
            // inside run_until_stalled nobody else sees this poll return; a
            // Ready value is sent (and may wake the receiver's task) only
            // after we return, so no wake_count is observed then
            let ready = r.is_ready();
            rec(&self.world, "pe", self.id, 0, "", ready, 0, !ready);
        }
        r
    }
}

impl TaskFut {
    fn poll_inner(&self, cx: &mut Context<'_>) -> Poll<i64> {
        let id = self.id;
        let w = &self.world;
        rec(w, "pb", id, 0, "", false, 0, true);
        {
            let mut wm = w.borrow_mut();
            wm.polled_in_step.push(id);
            wm.polls[id] += 1;
            wm.acts = 0;
        }
        // stash a clone of the current waker (drops the previous clone)
        let old = w.borrow_mut().stash[id].replace(cx.waker().clone());
        drop(old);
        loop {
            let Some((act, re)) = self.next_action() else {
                w.borrow_mut().cut = true;
                return Poll::Pending;
            };
            match act {
                Act::Yield => {
                    cx.waker().wake_by_ref();
                    rec(w, "yield", id, 0, "", false, 0, true);
                    return Poll::Pending;
                }
                Act::Wait(k) => {
                    let pass = {
                        let mut wm = w.borrow_mut();
                        if wm.chans[k].sig {
                            wm.chans[k].sig = false;
                            wm.blk[id] = Blk::Free;
                            true
                        } else {
                            let wk = cx.waker().clone();
                            let old = match wm.chans[k].waiters.iter_mut().find(|(t, _)| *t == id) {
                                Some(slot) => Some(std::mem::replace(&mut slot.1, wk)),
                                None => {
                                    wm.chans[k].waiters.push((id, wk));
                                    None
                                }
                            };
                            wm.blk[id] = Blk::Wait(k);
                            drop(wm);
                            drop(old);
                            false
                        }
                    };
                    rec(w, "wait", id, k, if pass { "pass" } else { "block" }, re, 0, true);
                    if !pass {
                        return Poll::Pending;
                    }
                }
                Act::Signal(k) => {
                    let ws = {
                        let mut wm = w.borrow_mut();
                        wm.chans[k].sig = true;
                        std::mem::take(&mut wm.chans[k].waiters)
                    };
                    for (_, wk) in ws {
                        wk.wake();
                    }
                    rec(w, "signal", id, k, "", false, 0, true);
                }
                Act::Spawn(rl) => {
                    do_spawn(w, id, rl);
                }
                Act::Kick(u) => {
                    if !do_kick(w, id, u) {
                        w.borrow_mut().cut = true;
                        return Poll::Pending;
                    }
                }
                Act::Await(c) => {
                    // take the receiver out while polling it so that no
                    // RefCell borrow of the world is held across the call
                    let rx = {
                        let mut wm = w.borrow_mut();
                        if c < wm.rx.len() && wm.parent[c] == id && !wm.received[c] {
                            wm.rx[c].take()
                        } else {
                            None
                        }
                    };
                    let Some(mut rx) = rx else {
                        w.borrow_mut().cut = true;
                        return Poll::Pending;
                    };
                    let p = Pin::new(&mut rx).poll(cx);
                    {
                        let mut wm = w.borrow_mut();
                        wm.rx[c] = Some(rx);
                        match p {
                            Poll::Ready(_) => {
                                wm.received[c] = true;
                                wm.blk[id] = Blk::Free;
                            }
                            Poll::Pending => wm.blk[id] = Blk::Await(c),
                        }
                    }
                    match p {
                        Poll::Ready(v) => rec(w, "await", id, c, "recv", re, v, true),
                        Poll::Pending => {
                            rec(w, "await", id, c, "block", re, 0, true);
                            return Poll::Pending;
                        }
                    }
                }
                Act::Complete => {
                    w.borrow_mut().finished[id] = true;
                    // the relay is filled after we return: no wake_count here
                    rec(w, "complete", id, 0, "", false, 0, false);
                    return Poll::Ready(100 + id as i64);
                }
            }
        }
    }
}

fn new_world(nchan: usize, src: Source) -> W {
    let exec = Executor::new();
    let spawner = exec.spawner();
    let mut chans = Vec::new();
    for _ in 0..=nchan {
        chans.push(Chan::default());
    }
    let w = World {
        exec: Some(exec),
        spawner,
        events: Vec::new(),
        chans,
        stash: vec![None],
        rx: vec![None],
        parent: vec![0],
        received: vec![false],
        finished: vec![false],
        blk: vec![Blk::Free],
        left: vec![0],
        next_id: 1,
        src,
        cut: false,
        cut_task: 0,
        cut_poll: 0,
        cut_acts: 0,
        polls: vec![0],
        acts: 0,
        polled_in_step: Vec::new(),
        in_run: false,
    };
    Rc::new(RefCell::new(w))
}

/// Breaks the reference cycles (task -> future -> world -> wakers -> task).
fn teardown(w: &W) -> Vec<Evt> {
    let (exec, chans, stash, rx, events) = {
        let mut wm = w.borrow_mut();
        (
            wm.exec.take(),
            std::mem::take(&mut wm.chans),
            std::mem::take(&mut wm.stash),
            std::mem::take(&mut wm.rx),
            std::mem::take(&mut wm.events),
        )
    };
    drop(chans);
    drop(stash);
    drop(rx);
    drop(exec);
    events
}

/// One call of `Executor::step`, recorded.  Returns false if the run must end
/// (panic in the code under test, or cut).
fn do_step(w: &W) -> bool {
    let exec = w.borrow().exec.clone().expect("executor alive");
    w.borrow_mut().polled_in_step.clear();
    let r = catch(|| exec.step());
    let polled = std::mem::take(&mut w.borrow_mut().polled_in_step);
    if w.borrow().cut {
        // the run ends inside this poll; what was recorded stays (a prefix)
        return false;
    }
    match r {
        Err(msg) => {
            let t = polled.last().copied().unwrap_or(0);
            rec(w, "panic", t, 0, &msg.chars().take(60).collect::<String>(), false, 0, false);
            false
        }
        Ok(None) => {
            rec(w, "stall", 0, 0, "", false, 0, true);
            true
        }
        Ok(Some(ret)) => {
            match polled.last() {
                Some(&t) => rec(w, "pe", t, 0, "", ret, 0, true),
                None => rec(w, "noop", 0, 0, "", ret, 0, true),
            }
            true
        }
    }
}

/// One call of `Executor::run_until_stalled`, recorded: "rb" before, "re" with
/// the returned count after; the polls in between are recorded by the futures.
fn do_run(w: &W) -> bool {
    let exec = w.borrow().exec.clone().expect("executor alive");
    rec(w, "rb", 0, 0, "", false, 0, true);
    {
        let mut wm = w.borrow_mut();
        wm.polled_in_step.clear();
        wm.in_run = true;
    }
    let r = catch(|| exec.run_until_stalled());
    let polled = {
        let mut wm = w.borrow_mut();
        wm.in_run = false;
        std::mem::take(&mut wm.polled_in_step)
    };
    if w.borrow().cut {
        return false;
    }
    match r {
        Err(msg) => {
            let t = polled.last().copied().unwrap_or(0);
            rec(w, "panic", t, 0, &msg.chars().take(60).collect::<String>(), false, 0, false);
            false
        }
        Ok(n) => {
            rec(w, "re", 0, 0, "", false, n as i64, true);
            true
        }
    }
}

/// Replays one behaviour of the driver model: external operations and step()
/// calls in the model's order, task bodies performing the model's actions.
fn run_behaviour(h: &[Evt], nchan: usize) -> Vec<Evt> {
    let ntask = h.iter().map(|e| e.t.max(if e.ev == "spawn" { e.a } else { 0 })).max().unwrap_or(0) as usize;
    let mut scripts: Vec<VecDeque<Act>> = vec![VecDeque::new(); ntask + 2];
    for e in h {
        let t = e.t as usize;
        let a = e.a as usize;
        let act = match e.ev.as_str() {
            "yield" => Some(Act::Yield),
            "wait" if !e.b => Some(Act::Wait(a)),
            "signal" => Some(Act::Signal(a)),
            "spawn" if t > 0 => Some(Act::Spawn(e.b)),
            "kick" if t > 0 => Some(Act::Kick(a)),
            "await" if !e.b => Some(Act::Await(a)),
            "complete" => Some(Act::Complete),
            _ => None,
        };
        if let Some(act) = act {
            scripts[t].push_back(act);
        }
    }
    let w = new_world(nchan, Source::Scripts(scripts));
    if let Some(last) = h.last() {
        if !matches!(last.ev.as_str(), "pe" | "noop" | "stall" | "try" | "rb" | "re") && last.t > 0 {
            let t = last.t;
            let lastpb = h.iter().rposition(|e| e.ev == "pb" && e.t == t).unwrap_or(0);
            let mut wm = w.borrow_mut();
            wm.cut_task = t as usize;
            wm.cut_poll = h.iter().filter(|e| e.ev == "pb" && e.t == t).count();
            wm.cut_acts = h.len() - 1 - lastpb;
        }
    }
    let mut in_run = false;
    for e in h {
        if in_run {
            // events inside a run_until_stalled call are not commands
            in_run = e.ev != "re";
            continue;
        }
        let go = match (e.ev.as_str(), e.t) {
            ("rb", _) => {
                in_run = true;
                do_run(&w)
            }
            ("spawn", 0) => {
                do_spawn(&w, 0, e.b);
                true
            }
            ("kick", 0) => do_kick(&w, 0, e.a as usize),
            ("try", _) => do_try(&w, e.a as usize),
            ("pb", _) | ("noop", _) | ("stall", _) => do_step(&w),
            _ => true,
        };
        if !go {
            break;
        }
    }
    let cut_task = w.borrow().cut_task as i64;
    let mut obs = teardown(&w);
    // a behaviour that ends with the last action of an unfinished poll: the
    // poll-end that the real step() then reports is beyond the behaviour
    if cut_task != 0 && obs.len() == h.len() + 1 && obs.last().is_some_and(|e| e.ev == "pe" && e.t == cut_task) {
        obs.pop();
    }
    obs
}

struct RandParams {
    tasks: usize,
    chans: usize,
    budget: usize,
    steps: usize,
    pinned: bool,
}

/// One seeded random run of a larger system.
fn run_random(sd: u64, p: &RandParams) -> Vec<Evt> {
    let mut rng = StdRng::seed_from_u64(sd);
    let inner = StdRng::seed_from_u64(rng.r#gen());
    // three profiles: plain; tasks re-woken from outside much more often; and
    // few self-re-waking tasks that are also re-woken from outside all the
    // time (a woken task that is woken again must keep its turn, and others
    // that keep re-waking themselves must not starve it)
    let profile = rng.gen_range(0..3);
    let (yield_pct, kick_upto) = match profile {
        0 => (22, 16),
        1 => (22, 45),
        _ => (65, 50),
    };
    let w = new_world(
        p.chans,
        Source::Random(RandomSrc { yield_pct, rng: inner, budget: p.budget, max_tasks: p.tasks, pinned: p.pinned }),
    );
    let max_roots = if profile == 2 { rng.gen_range(2..=3.min(p.tasks)) } else { rng.gen_range(1..=p.tasks.min(4)) };
    let mut roots = 0;
    let mut stalled = 0;
    for _ in 0..p.steps {
        let (next_id, can_try, can_kick): (usize, Vec<usize>, Vec<usize>) = {
            let wb = w.borrow();
            let ct = (1..wb.next_id)
                .filter(|&c| wb.rx[c].is_some() && (wb.parent[c] == 0 || wb.finished[wb.parent[c]]))
                .collect();
            let ck = (1..wb.next_id).filter(|&u| wb.stash[u].is_some()).collect();
            (wb.next_id, ct, ck)
        };
        let x = rng.gen_range(0..100);
        let go = if roots == 0 || (x < 8 && roots < max_roots && next_id <= p.tasks) {
            roots += 1;
            let rl = !(p.pinned && rng.gen_range(0..4) == 0);
            do_spawn(&w, 0, rl);
            true
        } else if x < kick_upto && !can_kick.is_empty() {
            do_kick(&w, 0, can_kick[rng.gen_range(0..can_kick.len())])
        } else if x < kick_upto + 6 && !can_try.is_empty() {
            do_try(&w, can_try[rng.gen_range(0..can_try.len())])
        } else if x < kick_upto + 18 {
            stalled += 1;
            do_run(&w)
        } else {
            let g = do_step(&w);
            if w.borrow().events.last().map(|e| e.ev == "stall").unwrap_or(false) {
                stalled += 1;
            }
            g
        };
        if !go || stalled >= 4 {
            break;
        }
    }
    // final collection of results: every receiver nobody will await any more, twice
    let alive = w.borrow().events.last().map(|e| e.ev != "panic").unwrap_or(true) && !w.borrow().cut;
    if alive {
        let n = w.borrow().next_id;
        for _ in 0..2 {
            for c in 1..n {
                let ok = {
                    let wb = w.borrow();
                    wb.rx[c].is_some() && (wb.parent[c] == 0 || wb.finished[wb.parent[c]])
                };
                if ok {
                    do_try(&w, c);
                }
            }
        }
    }
    teardown(&w)
}

fn reset_evt(kind: &str, index: i64) -> Evt {
    Evt { ev: "reset".into(), t: 0, a: 0, r: kind.into(), b: false, v: index, wc: 0 }
}

fn write_run(out: &mut dyn Write, kind: &str, index: i64, evs: &[Evt]) {
    writeln!(out, "{}", reset_evt(kind, index).to_json()).unwrap();
    for e in evs {
        writeln!(out, "{}", e.to_json()).unwrap();
    }
}

fn create(path: &str) -> Box<dyn Write> {
    Box::new(std::io::BufWriter::with_capacity(1 << 20, std::fs::File::create(path).expect("create output")))
}

fn cmd_replay(args: &[String]) {
    let nchan = opt_usize(args, "--chans", 2);
    let every = opt_usize(args, "--sample-every", 50).max(1);
    let maxmm = opt_usize(args, "--max-mismatch", 200);
    let mut mm = create(opt(args, "--mismatch").expect("--mismatch"));
    let mut sm = create(opt(args, "--sample").expect("--sample"));
    let (mut n, mut events, mut matched, mut mismatched, mut sampled) = (0u64, 0u64, 0u64, 0u64, 0u64);
    let mut kinds: std::collections::BTreeMap<String, u64> = Default::default();
    let mut first_mismatch: Vec<Value> = Vec::new();
    for line in open_in(args).lines() {
        let line = line.expect("read");
        if line.trim().is_empty() {
            continue;
        }
        let v: Value = serde_json::from_str(&line).expect("behaviour json");
        let h: Vec<Evt> = v.as_array().expect("array").iter().map(|x| Evt::from_tuple(x).expect("event tuple")).collect();
        let obs = run_behaviour(&h, nchan);
        n += 1;
        events += obs.len() as u64;
        for e in &obs {
            *kinds.entry(e.ev.clone()).or_default() += 1;
        }
        if obs == h {
            matched += 1;
            if (n - 1) % every as u64 == 0 {
                sampled += 1;
                write_run(&mut sm, "p2", n as i64, &obs);
            }
        } else {
            mismatched += 1;
            if mismatched <= maxmm as u64 {
                write_run(&mut mm, "p2", n as i64, &obs);
                if first_mismatch.len() < 3 {
                    let i = obs.iter().zip(h.iter()).position(|(a, b)| a != b).unwrap_or(obs.len().min(h.len()));
                    first_mismatch.push(json!({"behaviour": n, "at": i,
                        "predicted": h.get(i).map(|e| e.to_json()), "observed": obs.get(i).map(|e| e.to_json())}));
                }
            }
        }
    }
    mm.flush().unwrap();
    sm.flush().unwrap();
    println!(
        "{}",
        json!({"behaviours": n, "events": events, "matched": matched, "mismatched": mismatched,
               "sampled": sampled, "event_kinds": kinds, "first_mismatch": first_mismatch})
    );
}

fn cmd_random(args: &[String]) {
    let runs = opt_usize(args, "--runs", 100);
    let p = RandParams {
        tasks: opt_usize(args, "--tasks", 8),
        chans: opt_usize(args, "--chans", 3),
        budget: opt_usize(args, "--budget", 10),
        steps: opt_usize(args, "--steps", 400),
        pinned: true,
    };
    let base = opt(args, "--seed").and_then(|s| s.parse().ok()).unwrap_or_else(seed);
    let mut out = create(opt(args, "--out").expect("--out"));
    let mut events = 0u64;
    let mut kinds: std::collections::BTreeMap<String, u64> = Default::default();
    for i in 0..runs {
        let sd = base.wrapping_mul(1_000_003).wrapping_add(i as u64);
        let evs = run_random(sd, &p);
        events += evs.len() as u64;
        for e in &evs {
            *kinds.entry(e.ev.clone()).or_default() += 1;
        }
        write_run(&mut out, "p3", sd as i64, &evs);
    }
    out.flush().unwrap();
    println!("{}", json!({"runs": runs, "events": events, "event_kinds": kinds}));
}

/// Re-executes a replay object: {"kind":"p2","h":[events as objects],"chans":K}
/// or {"kind":"p3","seed":S,"tasks":..,"chans":..,"budget":..,"steps":..}.
fn cmd_redo(args: &[String]) {
    let text = std::fs::read_to_string(opt(args, "--in").expect("--in")).expect("read --in");
    let v: Value = serde_json::from_str(&text).expect("json");
    let v = v.get("replay").cloned().unwrap_or(v);
    let mut out = create(opt(args, "--out").expect("--out"));
    let g = |k: &str, d: usize| v.get(k).and_then(|x| x.as_u64()).map(|x| x as usize).unwrap_or(d);
    if v.get("kind").and_then(|k| k.as_str()) == Some("p3") {
        let p = RandParams { tasks: g("tasks", 8), chans: g("chans", 3), budget: g("budget", 10), steps: g("steps", 400), pinned: true };
        let sd = v.get("seed").and_then(|x| x.as_i64()).unwrap_or(0) as u64;
        let evs = run_random(sd, &p);
        write_run(&mut out, "p3", sd as i64, &evs);
    } else {
        let h: Vec<Evt> = v.get("h").and_then(|x| x.as_array()).expect("h").iter()
            .map(|x| Evt::from_obj(x).or_else(|| Evt::from_tuple(x)).expect("event")).collect();
        let evs = run_behaviour(&h, g("chans", 2));
        write_run(&mut out, "p2", 0, &evs);
    }
    out.flush().unwrap();
}

fn main() {
    quiet_panics();
    let args: Vec<String> = std::env::args().skip(1).collect();
    match args.first().map(|s| s.as_str()) {
        Some("replay") => cmd_replay(&args[1..]),
        Some("random") => cmd_random(&args[1..]),
        Some("redo") => cmd_redo(&args[1..]),
        _ => {
            eprintln!("usage: yv-c15 replay|random|redo ...");
            std::process::exit(2);
        }
    }
}
