//! Conformance harness for property C15, see /verif/DESIGN.md.
fn main() {
    eprintln!("yv-c15: not implemented yet");
    std::process::exit(2);
}
