//! Call-level binding: operation sequences on the function table (printed by
//! Gen_FunctionSet from the table layer of spec/ShFunctions.tla) replayed on
//! `yash_env::function::FunctionSet`.
use serde_json::{Value, json};
use std::io::{BufRead, Write};
use std::rc::Rc;
use yash_env::Env;
use yash_env::function::{Function, FunctionBody, FunctionBodyObject, FunctionSet};
use yash_env::source::Location;
use yvcommon::util;

#[derive(Debug)]
struct Body(i64);

impl std::fmt::Display for Body {
    fn fmt(&self, f: &mut std::fmt::Formatter<'_>) -> std::fmt::Result {
        write!(f, "b{}", self.0)
    }
}

impl FunctionBody<()> for Body {
    async fn execute(&self, _: &mut Env<()>) -> yash_env::semantics::Result {
        unreachable!()
    }
}

fn body_id(f: &Function<()>) -> i64 {
    f.body.to_string().trim_start_matches('b').parse().unwrap_or(-1)
}

/// One operation on the real table: (res, old, ro of the function concerned)
fn apply(set: &mut FunctionSet<()>, op: &Value) -> (String, i64, bool) {
    let n = op["n"].as_str().unwrap_or("");
    match op["op"].as_str().unwrap_or("") {
        "define" => {
            let b = op["b"].as_i64().unwrap_or(0);
            let body: Rc<dyn FunctionBodyObject<()>> = Rc::new(Body(b));
            let mut f = Function::new(n, body, Location::dummy(format!("def {n}")));
            if op["ro"].as_bool().unwrap_or(false) {
                f = f.make_read_only(Location::dummy("readonly"));
            }
            let f = Rc::new(f);
            match set.define(Rc::clone(&f)) {
                Ok(None) => ("new".into(), 0, false),
                Ok(Some(old)) => ("replaced".into(), body_id(&old), old.is_read_only()),
                Err(e) => {
                    if !Rc::ptr_eq(&e.new, &f) {
                        return ("err-wrong-new".into(), body_id(&e.existing), e.existing.is_read_only());
                    }
                    ("err".into(), body_id(&e.existing), e.existing.is_read_only())
                }
            }
        }
        "unset" => match set.unset(n) {
            Ok(None) => ("absent".into(), 0, false),
            Ok(Some(old)) => ("removed".into(), body_id(&old), old.is_read_only()),
            Err(e) => ("err".into(), body_id(&e.existing), e.existing.is_read_only()),
        },
        "get" => match set.get(n) {
            None => ("none".into(), 0, false),
            Some(f) => {
                if f.name != n {
                    return ("some-wrong-name".into(), body_id(f), f.is_read_only());
                }
                ("some".into(), body_id(f), f.is_read_only())
            }
        },
        other => (format!("unknown op {other}"), 0, false),
    }
}

pub fn replay(args: &[String]) {
    let input = util::open_in(args);
    let mut out = util::open_out(args);
    util::quiet_panics();
    let (mut seqs, mut calls, mut mism) = (0usize, 0usize, 0usize);
    let mut by_res: std::collections::BTreeMap<String, usize> = Default::default();
    for line in input.lines() {
        let line = line.unwrap();
        if line.trim().is_empty() {
            continue;
        }
        let e: Value = serde_json::from_str(&line).expect("api line");
        let ops = e["ops"].as_array().cloned().unwrap_or_default();
        seqs += 1;
        let mut set = FunctionSet::<()>::new();
        let mut done: Vec<Value> = vec![];
        for op in &ops {
            calls += 1;
            let r = util::catch(|| apply(&mut set, op));
            let (res, old, ro) = r.unwrap_or_else(|m| (format!("panic: {m}"), 0, false));
            let mut names: Vec<String> = set.iter().map(|f| f.name.clone()).collect();
            names.sort();
            let len = set.len() as i64;
            let empty = set.is_empty();
            let got = json!({"res": res, "old": old, "oro": ro, "len": len, "names": names});
            let want = json!({"res": op["res"], "old": op["old"], "oro": op["oro"], "len": op["len"], "names": op["names"]});
            *by_res.entry(format!("{}/{}", op["op"].as_str().unwrap_or(""), op["res"].as_str().unwrap_or(""))).or_default() += 1;
            done.push(json!({"op": op["op"], "n": op["n"], "b": op["b"], "ro": op["ro"]}));
            if got != want || empty != (len == 0) {
                mism += 1;
                let m = json!({
                    "key": {"dir": "spec->impl", "fam": "api", "symptom": format!("{}-result", op["op"].as_str().unwrap_or("")),
                            "script": serde_json::to_string(&done).unwrap(), "args": ""},
                    "detail": format!("FunctionSet after {}: expected {}, got {}", serde_json::to_string(&done).unwrap(), want, got),
                    "exp": e, "obs": got});
                writeln!(out, "{}", m).unwrap();
                break;
            }
        }
    }
    out.flush().unwrap();
    println!("{}", json!({"sequences": seqs, "calls": calls, "mismatches": mism, "by_result": by_res}));
}
