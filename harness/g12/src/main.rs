//! Conformance harness for specification-growth module g12 (see /verif/DESIGN.md 12.6).
fn main() {
    eprintln!("yv-g12: not implemented yet");
    std::process::exit(2);
}
