//! Conformance harness for specification-growth module G12 (shell functions),
//! see spec/ShFunctions.tla.
//!
//! `yv-g12 replay --in GEN.ndjson --out MISMATCHES.ndjson [--threads T]`
//!     spec -> impl: every line of GEN is a scenario printed by Gen_Functions
//!     (script text and what the specification expects).  The script is run by
//!     the real shell on the simulated OS; standard output, files, exit status,
//!     the final function table (state inspection through `snap`) and the
//!     final `typeset -fp` listing are compared; the listing is re-read by a
//!     fresh shell and must recreate the table.
//! `yv-g12 api --in API.ndjson --out MISMATCHES.ndjson`
//!     spec -> impl, call level: operation sequences on the table printed by
//!     Gen_FunctionSet are replayed on `yash_env::function::FunctionSet`.
//! `yv-g12 random --n N --out TRACE.ndjson [--threads T]`
//!     impl -> spec: N seeded random scenarios are rendered, run and recorded
//!     for Trace_Functions to judge.
//! `yv-g12 one --in SCEN.json --out TRACE.ndjson`
//!     one scenario (`{"sc": {...}}`), same record as `random`.
mod api;
mod rnd;
mod run;

use run::{Line, Obs, TabEntry};
use serde_json::{Value, json};
use std::collections::BTreeMap;
use std::io::{BufRead, Write};
use std::sync::Mutex;
use std::sync::atomic::{AtomicUsize, Ordering};
use yvcommon::util::{self, opt, opt_usize};

fn lines(v: &Value) -> Vec<Line> {
    v.as_array().map(|a| a.iter().map(Line::from_json).collect()).unwrap_or_default()
}

fn lines_json(ls: &[Line]) -> Value {
    Value::Array(ls.iter().map(|l| l.json()).collect())
}

pub fn obs_json(o: &Obs) -> Value {
    json!({"outcome": o.outcome, "st": o.status, "out": lines_json(&o.out), "fo": lines_json(&o.fo),
           "fp": lines_json(&o.fp), "listing": o.listing,
           "tab": o.tab.as_ref().map(|t| t.iter().map(|e| json!({"n": e.n, "ro": e.ro, "disp": e.disp})).collect::<Vec<_>>())})
}

/// The normal form of the listing the table `tab` must produce.
fn listing_of(tab: &[(String, bool)]) -> Vec<String> {
    let mut v = vec![];
    for (n, ro) in tab {
        v.push(format!("F {}", n));
        if *ro {
            v.push(format!("R {}", n));
        }
    }
    v
}

/// Checks that hold for every run, whatever the specification says about the
/// scenario: the final listing is the one the final table must produce
/// (typeset.md: every function, alphabetical order, `typeset -fr` iff
/// read-only) and evaluating it recreates the table.
pub fn self_checks(o: &Obs) -> Option<(String, String)> {
    let tab = o.tab.as_ref()?;
    let mut sorted: Vec<(String, bool)> = tab.iter().map(|e| (e.n.clone(), e.ro)).collect();
    sorted.sort();
    let want = listing_of(&sorted);
    let got: Vec<String> = o.listing.iter().map(|l| run::list_line(l)).collect();
    if want != got {
        return Some(("listing".into(), format!("final listing {:?}, table demands {:?}", got, want)));
    }
    if !tab.is_empty() {
        let r = run::reread(&o.listing);
        let mut a = tab.clone();
        a.sort_by(|x, y| x.n.cmp(&y.n));
        let mut b = r.tab.clone().unwrap_or_default();
        b.sort_by(|x, y| x.n.cmp(&y.n));
        if r.outcome != "completed" || r.tab.is_none() || a != b {
            return Some(("roundtrip".into(), format!("re-reading the listing {:?} gives {:?} ({}), table was {:?}",
                o.listing, b, r.outcome, a)));
        }
    }
    None
}

/// spec -> impl comparison of one scenario; None = conforms.
fn compare(e: &Value, o: &Obs) -> Option<(String, String)> {
    if o.outcome != "completed" {
        return Some(("outcome".into(), o.outcome.clone()));
    }
    if e["cls"] != "ok" {
        return None;
    }
    let eo = lines(&e["out"]);
    if !run::lines_match(&eo, &o.out) {
        let i = (0..eo.len().max(o.out.len())).find(|&i| match (eo.get(i), o.out.get(i)) {
            (Some(x), Some(y)) => !run::line_matches(x, y),
            _ => true,
        });
        return Some(("stdout".into(), format!("line {}: expected {:?}, got {:?}", i.unwrap_or(0) + 1,
            i.and_then(|i| eo.get(i)), i.and_then(|i| o.out.get(i)))));
    }
    let est = e["st"].as_i64().unwrap_or(0);
    if !run::status_matches(est, o.status) {
        return Some(("status".into(), format!("expected exit status {}, got {}", est, o.status)));
    }
    for (name, exp, got) in [("file-o", lines(&e["fo"]), &o.fo), ("file-p", lines(&e["fp"]), &o.fp)] {
        if !run::lines_match(&exp, got) {
            return Some((name.into(), format!("expected {:?}, got {:?}", exp, got)));
        }
    }
    let Some(tab) = &o.tab else {
        return Some(("table".into(), "the EXIT trap did not record the final table".into()));
    };
    let etab: Vec<TabEntry> = e["tab"]
        .as_array()
        .map(|a| {
            a.iter()
                .map(|x| {
                    let txt = x["txt"].as_str().unwrap_or("");
                    TabEntry {
                        n: x["n"].as_str().unwrap_or("").to_string(),
                        ro: x["ro"].as_bool().unwrap_or(false),
                        disp: run::display_of(txt).unwrap_or_else(|| format!("<unparsable {}>", txt)),
                    }
                })
                .collect()
        })
        .unwrap_or_default();
    let mut got = tab.clone();
    got.sort_by(|x, y| x.n.cmp(&y.n));
    if etab != got {
        return Some(("table".into(), format!("expected final table {:?}, got {:?}", etab, got)));
    }
    // the listing in the order the specification gives (alphabetical)
    let want = listing_of(&etab.iter().map(|t| (t.n.clone(), t.ro)).collect::<Vec<_>>());
    let gotl: Vec<String> = o.listing.iter().map(|l| run::list_line(l)).collect();
    if want != gotl {
        return Some(("listing".into(), format!("expected final listing {:?}, got {:?}", want, gotl)));
    }
    None
}

#[derive(Default)]
struct Stats {
    n: usize,
    runs: usize,
    by_class: BTreeMap<String, usize>,
    by_fam: BTreeMap<String, usize>,
    nontrivial: usize,
    mismatches: usize,
    features: BTreeMap<String, usize>,
}

impl Stats {
    fn merge(&mut self, o: Stats) {
        self.n += o.n;
        self.runs += o.runs;
        self.nontrivial += o.nontrivial;
        self.mismatches += o.mismatches;
        for (k, v) in o.by_class {
            *self.by_class.entry(k).or_default() += v;
        }
        for (k, v) in o.by_fam {
            *self.by_fam.entry(k).or_default() += v;
        }
        for (k, v) in o.features {
            *self.features.entry(k).or_default() += v;
        }
    }
    fn json(&self) -> Value {
        json!({"scenarios": self.n, "shell_runs": self.runs, "by_class": self.by_class, "by_family": self.by_fam,
               "nontrivial": self.nontrivial, "mismatches": self.mismatches, "features": self.features})
    }
}

/// Rules of the specification a scenario of class ok exercises (read off the script text).
fn features(script: &str, e: &Value) -> Vec<&'static str> {
    let mut f = vec![];
    let has = |s: &str| script.contains(s);
    if has("return") { f.push("return"); }
    if has("; return") && has("for i in") { f.push("return+loop"); }
    if has("typeset v=") { f.push("local"); }
    if has("t=") { f.push("temp-assign"); }
    if has("unset -f") { f.push("unset-f"); }
    if has("command unset") { f.push("command-unset"); }
    if has("typeset -fr") { f.push("readonly"); }
    if has("| lsf") { f.push("list"); }
    if has("} >") || has("} <") || has(") >") { f.push("redir-on-def"); }
    if has("shift;") { f.push("recursion-shift"); }
    if has("${n-") { f.push("name-expansion"); }
    if has("| cat") { f.push("pipeline-stage"); }
    if has("$( ") { f.push("cmdsubst"); }
    if has("; ( ") || has("{ ( ") || has("() ( ") { f.push("subshell"); }
    if has("set -- ") { f.push("set-in-function"); }
    if has("unset v") || has("v() ") { f.push("namespace"); }
    if e["st"].as_i64() == Some(-1) { f.push("final-status-nz"); }
    if e["tab"].as_array().map(|t| t.iter().any(|x| x["ro"] == true)).unwrap_or(false) { f.push("final-ro"); }
    f
}

fn strs(v: &Value) -> Vec<String> {
    v.as_array().map(|a| a.iter().map(|x| x.as_str().unwrap_or("").to_string()).collect()).unwrap_or_default()
}

fn replay(args: &[String]) {
    let input = util::open_in(args);
    let recs: Vec<String> = input.lines().map(|l| l.unwrap()).filter(|l| !l.trim().is_empty()).collect();
    let threads = opt_usize(args, "--threads", 8);
    let out = open_out_send(args);
    let next = AtomicUsize::new(0);
    let total = Mutex::new(Stats::default());
    std::thread::scope(|s| {
        for _ in 0..threads {
            s.spawn(|| {
                util::quiet_panics();
                let mut st = Stats::default();
                loop {
                    let i = next.fetch_add(1, Ordering::Relaxed);
                    if i >= recs.len() {
                        break;
                    }
                    let e: Value = serde_json::from_str(&recs[i]).expect("scenario line");
                    let script = e["script"].as_str().unwrap_or("").to_string();
                    let a = strs(&e["args"]);
                    st.n += 1;
                    *st.by_class.entry(e["cls"].as_str().unwrap_or("?").to_string()).or_default() += 1;
                    *st.by_fam.entry(e["fam"].as_str().unwrap_or("?").to_string()).or_default() += 1;
                    if e["cls"] != "ok" {
                        // left open by POSIX and the manual, or deeper than the model's call
                        // bound (possibly unbounded recursion): skipped and counted
                        continue;
                    }
                    let o = run::run_script(&script, &a);
                    st.runs += 1;
                    let mut bad = compare(&e, &o);
                    if bad.is_none() {
                        if o.tab.as_ref().map(|t| !t.is_empty()).unwrap_or(false) {
                            st.runs += 1;
                        }
                        bad = self_checks(&o);
                    }
                    if e["cls"] == "ok" {
                        if e["out"].as_array().map(|x| x.len() > 1).unwrap_or(false) {
                            st.nontrivial += 1;
                        }
                        for f in features(&script, &e) {
                            *st.features.entry(f.to_string()).or_default() += 1;
                        }
                    }
                    if let Some((symptom, detail)) = bad {
                        st.mismatches += 1;
                        let m = json!({
                            "key": {"dir": "spec->impl", "fam": e["fam"], "symptom": symptom, "script": script,
                                    "args": a.join(" ")},
                            "detail": detail, "exp": e, "obs": obs_json(&o)});
                        let mut w = out.lock().unwrap();
                        writeln!(w, "{}", m).unwrap();
                    }
                }
                total.lock().unwrap().merge(st);
            });
        }
    });
    out.lock().unwrap().flush().unwrap();
    println!("{}", total.lock().unwrap().json());
}

pub fn open_out_send(args: &[String]) -> Mutex<Box<dyn Write + Send>> {
    let p = opt(args, "--out").expect("--out");
    Mutex::new(Box::new(std::io::BufWriter::with_capacity(1 << 20, std::fs::File::create(p).expect("create --out"))))
}

fn main() {
    let args: Vec<String> = std::env::args().collect();
    match args.get(1).map(|s| s.as_str()) {
        Some("replay") => replay(&args[2..]),
        Some("api") => api::replay(&args[2..]),
        Some("random") => rnd::random(&args[2..]),
        Some("one") => rnd::one(&args[2..]),
        Some("sh") => {
            // debugging aid: yv-g12 sh SCRIPT [args...]
            let o = run::run_script(&args[2], &args[3..]);
            println!("{}", obs_json(&o));
        }
        _ => {
            eprintln!("usage: yv-g12 replay|api|random|one ...");
            std::process::exit(2);
        }
    }
    let _ = opt(&args, "--unused");
}
