//! Random scenarios (impl -> spec): the command alphabet of
//! spec/ShFunctions.tla as a Rust type, its rendering as script text (checked
//! by Trace_Functions against ShFunctions!Script) and a seeded generator.
//!
//! The generator only produces scripts that terminate in any shell: the body
//! of a function may call only functions that come later in the order f, g, h
//! (whatever body they have when called), except for the guarded
//! self-recursion `rec` (shift first), which is only generated in bodies
//! that never `set` the positional parameters.
use crate::run::{self, Obs};
use rand::rngs::StdRng;
use rand::{Rng, SeedableRng};
use serde::{Deserialize, Serialize};
use serde_json::{Value, json};
use std::collections::BTreeMap;
use std::io::Write;
use std::sync::atomic::{AtomicUsize, Ordering};
use yvcommon::util::{self, opt_usize};

#[derive(Clone, Debug, Serialize, Deserialize)]
pub struct Cmd {
    pub k: String,
    pub n: String,
    pub a: Vec<String>,
    pub x: String,
    pub i: i64,
    pub r: String,
    pub b: Vec<Cmd>,
}

#[derive(Clone, Debug, Serialize, Deserialize)]
pub struct Scen {
    pub args: Vec<String>,
    pub main: Vec<Cmd>,
}

fn cmd(k: &str) -> Cmd {
    Cmd { k: k.into(), n: String::new(), a: vec![], x: String::new(), i: 0, r: String::new(), b: vec![] }
}

pub const OBS: &str = "obs \"$0\" $# \"$@\" . \"${v-U}\" \"${t-U}\"";
pub const PROLOGUE: &str = "trap 'snap end; echo ===; typeset -fp' EXIT; ";

fn redir_text(r: &str) -> &'static str {
    match r {
        "" => "",
        ">o" => " >/tmp/o",
        ">>p" => " >>/tmp/p",
        _ => " </tmp/x",
    }
}

fn words(a: &[String]) -> String {
    a.iter().map(|w| if w == "@" { " \"$@\"".to_string() } else { format!(" {w}") }).collect()
}

fn name_text(n: &str, style: &str) -> String {
    match style {
        "var" => format!("${{n-{n}}}"),
        "quo" => format!("\"{n}\""),
        _ => n.to_string(),
    }
}

pub fn body_text(b: &[Cmd]) -> String {
    b.iter().map(cmd_text).collect::<Vec<_>>().join("; ")
}

fn compound_text(b: &[Cmd], paren: bool, r: &str) -> String {
    if paren {
        format!("( {} ){}", body_text(b), redir_text(r))
    } else {
        format!("{{ {}; }}{}", body_text(b), redir_text(r))
    }
}

pub fn cmd_text(c: &Cmd) -> String {
    match c.k.as_str() {
        "obs" => OBS.to_string(),
        "asg" => format!("{}={}", c.n, c.x),
        "loc" => format!("typeset {}={}", c.n, c.x),
        "set" => format!("set --{}", words(&c.a)),
        "st" => format!("status {}", c.i),
        "ret" => if c.i < 0 { "return".to_string() } else { format!("return {}", c.i) },
        "call" => format!("{}{}{}{}", if c.x.is_empty() { String::new() } else { format!("t={} ", c.x) }, c.n,
                          words(&c.a), redir_text(&c.r)),
        "rec" => format!("case $# in 0) ;; *) shift; {} \"$@\";; esac", c.n),
        "def" => format!("{}() {}", name_text(&c.n, &c.x), compound_text(&c.b, c.i == 1, &c.r)),
        "unsetf" => format!("{}unset -f{}", if c.i == 1 { "command " } else { "" }, words(&c.a)),
        "mkro" => format!("typeset -fr{}", words(&c.a)),
        "list" => format!("{} | lsf", match c.x.as_str() { "r" => "typeset -frp", "nr" => "typeset -fp +r", "np" => "typeset -f", _ => "typeset -fp" }),
        "unsetv" => format!("unset {}", c.n),
        "for" => format!("for i in{}; do {}; done", (1..=c.i).map(|j| format!(" {j}")).collect::<String>(), body_text(&c.b)),
        "brk" => "break".to_string(),
        "sub" => format!("( {} )", body_text(&c.b)),
        "pipe" => format!("{{ {}; }} | cat", body_text(&c.b)),
        "cs" => format!("echo \"[$( {} )]\"", body_text(&c.b)),
        other => format!("<unknown {other}>"),
    }
}

pub fn script_of(sc: &Scen) -> String {
    let mut m = sc.main.clone();
    m.push(cmd("obs"));
    format!("{}{}", PROLOGUE, body_text(&m))
}

/// display form (as the shell prints it) -> text, for every definition command of the scenario
fn collect_defs(b: &[Cmd], map: &mut BTreeMap<String, String>) {
    for c in b {
        if c.k == "def" {
            let t = compound_text(&c.b, c.i == 1, &c.r);
            if let Some(d) = run::display_of(&t) {
                map.insert(d, t);
            }
        }
        collect_defs(&c.b, map);
    }
}

// ---------------------------------------------------------------------------
// generator
// ---------------------------------------------------------------------------
const NAMES: [&str; 4] = ["f", "g", "h", "v"];

#[derive(Clone, Copy)]
struct Ctx {
    /// index of the function whose body is being generated (None: main part)
    func: Option<usize>,
    /// directly inside a for loop of the same execution environment
    in_loop: bool,
    /// `return` would not end a function call of this environment
    no_ret: bool,
    /// the body may `set` (then it has no `rec`) or may `rec`
    may_set: bool,
    depth: usize,
}

fn pick<'a>(rng: &mut StdRng, xs: &[&'a str]) -> &'a str {
    xs[rng.gen_range(0..xs.len())]
}

fn gen_args(rng: &mut StdRng) -> Vec<String> {
    let n = rng.gen_range(0..3);
    (0..n).map(|_| pick(rng, &["a", "b", "c", "@"]).to_string()).collect()
}

fn gen_names(rng: &mut StdRng) -> Vec<String> {
    let n = if rng.gen_range(0..5) == 0 { 2 } else { 1 };
    let mut v: Vec<String> = vec![];
    while v.len() < n {
        let x = pick(rng, &NAMES).to_string();
        if !v.contains(&x) {
            v.push(x);
        }
    }
    v
}

fn gen_body(rng: &mut StdRng, ctx: Ctx, max: usize) -> Vec<Cmd> {
    let n = rng.gen_range(1..=max);
    (0..n).map(|_| gen_cmd(rng, ctx)).collect()
}

fn gen_def(rng: &mut StdRng, ctx: Ctx) -> Cmd {
    let idx = rng.gen_range(0..NAMES.len());
    gen_def_of(rng, ctx, idx)
}

fn gen_def_of(rng: &mut StdRng, ctx: Ctx, idx: usize) -> Cmd {
    let mut c = cmd("def");
    c.n = NAMES[idx].to_string();
    c.x = pick(rng, &["lit", "lit", "lit", "var", "quo"]).to_string();
    c.i = if rng.gen_range(0..6) == 0 { 1 } else { 0 };
    c.r = pick(rng, &["", "", "", "", ">o", ">>p", "<x"]).to_string();
    let inner = Ctx { func: Some(idx), in_loop: false, no_ret: c.i == 1, may_set: rng.gen_range(0..2) == 0, depth: ctx.depth + 1 };
    c.b = gen_body(rng, inner, if ctx.depth >= 2 { 2 } else { 4 });
    c
}

fn gen_cmd(rng: &mut StdRng, ctx: Ctx) -> Cmd {
    loop {
        let w = rng.gen_range(0..100);
        let deep = ctx.depth >= 3;
        match w {
            0..=17 => return cmd("obs"),
            18..=23 => {
                let mut c = cmd(if rng.gen_range(0..2) == 0 { "asg" } else { "loc" });
                c.n = "v".into();
                c.x = pick(rng, &["1", "2", "3"]).into();
                return c;
            }
            24..=27 if ctx.may_set => {
                let mut c = cmd("set");
                let n = rng.gen_range(0..3);
                c.a = (0..n).map(|_| pick(rng, &["p", "q"]).to_string()).collect();
                return c;
            }
            28..=33 => {
                let mut c = cmd("st");
                c.i = rng.gen_range(0..6);
                return c;
            }
            34..=39 if ctx.func.is_some() && !ctx.no_ret => {
                let mut c = cmd("ret");
                c.i = if rng.gen_range(0..3) == 0 { -1 } else { rng.gen_range(0..8) };
                return c;
            }
            40..=59 => {
                // a call: from a function body only to a later name
                let lo = ctx.func.map(|i| i + 1).unwrap_or(0);
                if lo >= NAMES.len() {
                    continue;
                }
                let mut c = cmd("call");
                c.n = NAMES[rng.gen_range(lo..NAMES.len())].to_string();
                c.a = gen_args(rng);
                if rng.gen_range(0..4) == 0 {
                    c.x = pick(rng, &["T", "S"]).into();
                }
                if rng.gen_range(0..8) == 0 {
                    c.r = pick(rng, &[">o", ">>p", ">>p", "<x"]).into();
                }
                return c;
            }
            60..=63 if ctx.func.is_some() && !ctx.may_set => {
                let mut c = cmd("rec");
                c.n = NAMES[ctx.func.unwrap()].to_string();
                return c;
            }
            64..=73 if !deep => return gen_def(rng, ctx),
            74..=79 => {
                let mut c = cmd("unsetf");
                c.a = gen_names(rng);
                c.i = if rng.gen_range(0..3) == 0 { 0 } else { 1 };
                return c;
            }
            80..=83 => {
                let mut c = cmd("mkro");
                c.a = gen_names(rng);
                return c;
            }
            84..=87 => {
                let mut c = cmd("list");
                c.x = pick(rng, &["", "", "r", "nr", "np"]).into();
                return c;
            }
            88..=91 if !deep => {
                let mut c = cmd("for");
                c.i = rng.gen_range(1..3);
                c.b = gen_body(rng, Ctx { in_loop: true, depth: ctx.depth + 1, ..ctx }, 3);
                return c;
            }
            92..=93 if ctx.in_loop => return cmd("brk"),
            92..=93 => {
                let mut c = cmd("unsetv");
                c.n = "v".into();
                return c;
            }
            94..=99 if !deep => {
                let mut c = cmd(pick(rng, &["sub", "sub", "pipe", "cs"]));
                c.b = gen_body(rng, Ctx { in_loop: false, no_ret: true, depth: ctx.depth + 1, ..ctx }, 3);
                return c;
            }
            _ => continue,
        }
    }
}

pub fn gen_scen(rng: &mut StdRng) -> Scen {
    let na = rng.gen_range(0..3);
    let args = (0..na).map(|_| pick(rng, &["x", "y"]).to_string()).collect();
    let ctx = Ctx { func: None, in_loop: false, no_ret: true, may_set: false, depth: 0 };
    let mut main = vec![];
    // most scripts start by defining the three functions, in some order
    let first = rng.gen_range(0..3);
    for j in 0..3 {
        if rng.gen_range(0..10) < 8 {
            main.push(gen_def_of(rng, ctx, (first + j) % 3));
        }
    }
    if rng.gen_range(0..4) == 0 {
        main.push(gen_def_of(rng, ctx, 3));
    }
    let n = rng.gen_range(2..7);
    for _ in 0..n {
        main.push(gen_cmd(rng, ctx));
    }
    Scen { args, main }
}

fn tab_json(o: &Obs, defs: &BTreeMap<String, String>) -> Value {
    match &o.tab {
        None => json!([{"n": "<no table recorded>", "ro": false, "txt": ""}]),
        Some(t) => {
            let mut t = t.clone();
            t.sort_by(|x, y| x.n.cmp(&y.n));
            Value::Array(
                t.iter()
                    .map(|e| json!({"n": e.n, "ro": e.ro,
                                    "txt": defs.get(&e.disp).cloned().unwrap_or_else(|| format!("<display> {}", e.disp))}))
                    .collect(),
            )
        }
    }
}

/// Runs the scenario and records what the shell did, in the vocabulary of the specification.
pub fn record(sc: &Scen) -> Value {
    let script = script_of(sc);
    let o = run::run_script(&script, &sc.args);
    let mut defs = BTreeMap::new();
    collect_defs(&sc.main, &mut defs);
    let lst: Vec<String> = o.listing.iter().map(|l| run::list_line(l)).collect();
    // evaluating the listing in a fresh shell
    let (rt_outcome, rt) = if o.tab.as_ref().map(|t| !t.is_empty()).unwrap_or(false) {
        let r = run::reread(&o.listing);
        (r.outcome.clone(), tab_json(&r, &defs))
    } else {
        ("completed".to_string(), json!([]))
    };
    let ls = |v: &Vec<run::Line>| Value::Array(v.iter().map(|l| l.json()).collect());
    json!({"sc": sc, "script": script, "outcome": o.outcome, "st": o.status, "out": ls(&o.out), "fo": ls(&o.fo),
           "fp": ls(&o.fp), "tab": tab_json(&o, &defs), "lst": lst, "rto": rt_outcome, "rt": rt})
}

pub fn random(args: &[String]) {
    let n = opt_usize(args, "--n", 1000);
    let threads = opt_usize(args, "--threads", 8);
    let out = crate::open_out_send(args);
    let seed = util::seed();
    let next = AtomicUsize::new(0);
    let runs = AtomicUsize::new(0);
    std::thread::scope(|s| {
        for _ in 0..threads {
            s.spawn(|| {
                util::quiet_panics();
                loop {
                    let i = next.fetch_add(1, Ordering::Relaxed);
                    if i >= n {
                        break;
                    }
                    let mut rng = StdRng::seed_from_u64(seed.wrapping_mul(1_000_003).wrapping_add(i as u64));
                    let sc = gen_scen(&mut rng);
                    let rec = record(&sc);
                    runs.fetch_add(if rec["rt"].as_array().map(|a| a.is_empty()).unwrap_or(true) { 1 } else { 2 }, Ordering::Relaxed);
                    let mut w = out.lock().unwrap();
                    writeln!(w, "{}", rec).unwrap();
                }
            });
        }
    });
    out.lock().unwrap().flush().unwrap();
    println!("{}", json!({"records": n, "shell_runs": runs.load(Ordering::Relaxed)}));
}

pub fn one(args: &[String]) {
    let mut input = util::open_in(args);
    let mut s = String::new();
    std::io::Read::read_to_string(&mut input, &mut s).unwrap();
    let v: Value = serde_json::from_str(&s).expect("scenario json");
    let sc: Scen = serde_json::from_value(v["sc"].clone()).expect("sc");
    util::quiet_panics();
    let mut out = util::open_out(args);
    writeln!(out, "{}", record(&sc)).unwrap();
    out.flush().unwrap();
}
