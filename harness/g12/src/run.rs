//! Running one script of G12 on the real shell (simulated OS) and turning
//! what it did into the observation vocabulary of spec/ShFunctions.tla.
use serde_json::{Value, json};
use std::pin::Pin;
use yash_env::builtin::{Builtin, Result as BResult, Type};
use yash_env::io::Fd;
use yash_env::semantics::{ExitStatus, Field};
use yash_env::system::concurrency::{ReadAll as _, WriteAll as _};
use yvcommon::shell::{ShellCfg, VEnv, run_shell};

/// A line of output: `s` = the `$?` an observation printed (-2: not an
/// observation line), `t` = the text with the status replaced by `?`.
#[derive(Clone, Debug, PartialEq, Eq)]
pub struct Line {
    pub s: i64,
    pub t: String,
}

impl Line {
    pub fn json(&self) -> Value {
        json!({"s": self.s, "t": self.t})
    }
    pub fn from_json(v: &Value) -> Line {
        Line { s: v["s"].as_i64().unwrap_or(-2), t: v["t"].as_str().unwrap_or("").to_string() }
    }
}

pub fn parse_line(l: &str) -> Line {
    // an observation line, possibly after the opening brackets of (nested) echo "[$( ... )]"
    let nb = l.chars().take_while(|&c| c == '[').count();
    if let Some(rest) = l[nb..].strip_prefix("o ") {
        if let Some((st, tail)) = rest.split_once(' ') {
            if let Ok(s) = st.parse::<i64>() {
                return Line { s, t: format!("{}o ? {}", &l[..nb], tail) };
            }
        }
    }
    Line { s: -2, t: l.to_string() }
}

fn lines_of(bytes: &[u8]) -> Vec<String> {
    let s = String::from_utf8_lossy(bytes);
    let mut v: Vec<String> = s.split('\n').map(|x| x.to_string()).collect();
    if v.last().map(|x| x.is_empty()).unwrap_or(false) {
        v.pop();
    }
    v
}

/// `obs args...`: writes `o <$?> args...` to standard output, leaves `$?` unchanged.
fn obs_main(env: &mut VEnv, args: Vec<Field>) -> Pin<Box<dyn Future<Output = BResult> + '_>> {
    Box::pin(async move {
        let mut line = format!("o {}", env.exit_status.0);
        for a in &args {
            line.push(' ');
            line.push_str(&a.value);
        }
        line.push('\n');
        let _ = env.system.write_all(Fd::STDOUT, line.as_bytes()).await;
        BResult::new(env.exit_status)
    })
}

/// Normal form of one line of a `typeset -fp` listing: `F name` for a
/// definition command, `R name` for `typeset -fr name`.
pub fn list_line(l: &str) -> String {
    if let Some(n) = l.strip_prefix("typeset -fr ") {
        return format!("R {}", n);
    }
    if let Some(i) = l.find("() ") {
        return format!("F {}", &l[..i]);
    }
    format!("? {}", l)
}

/// `lsf`: filter turning a listing on standard input into its normal form.
fn lsf_main(env: &mut VEnv, _args: Vec<Field>) -> Pin<Box<dyn Future<Output = BResult> + '_>> {
    Box::pin(async move {
        let data = match env.system.read_all(Fd::STDIN).await {
            Ok(d) => d,
            Err(_) => return BResult::new(ExitStatus(1)),
        };
        let mut out = String::new();
        for l in lines_of(&data) {
            out.push_str(&list_line(&l));
            out.push('\n');
        }
        match env.system.write_all(Fd::STDOUT, out.as_bytes()).await {
            Ok(()) => BResult::new(ExitStatus(0)),
            Err(_) => BResult::new(ExitStatus(1)),
        }
    })
}

#[derive(Clone, Debug, PartialEq, Eq)]
pub struct TabEntry {
    pub n: String,
    pub ro: bool,
    /// the body as the shell prints it
    pub disp: String,
}

#[derive(Clone, Debug)]
pub struct Obs {
    pub outcome: String,
    pub status: i64,
    /// standard output before the marker line
    pub out: Vec<Line>,
    /// the raw listing printed by the EXIT trap (after the marker)
    pub listing: Vec<String>,
    pub fo: Vec<Line>,
    pub fp: Vec<Line>,
    /// function table recorded by `snap end` (None: the trap did not run)
    pub tab: Option<Vec<TabEntry>>,
}

pub fn run_script(script: &str, args: &[String]) -> Obs {
    let a: Vec<&str> = args.iter().map(|s| s.as_str()).collect();
    // `yash -c script yash args...` ($0 = yash also without arguments)
    let mut argv: Vec<String> = vec!["yash".into(), "-c".into(), script.into(), "yash".into()];
    argv.extend(a.iter().map(|s| s.to_string()));
    let mut cfg = ShellCfg::with_argv(argv);
    cfg.step_limit = 200_000;
    cfg.setup = Some(Box::new(|env, _| {
        env.builtins.insert("obs", Builtin::new(Type::Mandatory, obs_main));
        env.builtins.insert("lsf", Builtin::new(Type::Mandatory, lsf_main));
    }));
    let r = run_shell(cfg);
    let all = lines_of(&r.stdout);
    let cut = all.iter().position(|l| l == "===");
    let (before, after) = match cut {
        Some(i) => (all[..i].to_vec(), all[i + 1..].to_vec()),
        None => (all.clone(), vec![]),
    };
    let file = |p: &str| -> Vec<Line> {
        r.file_content(p).map(|b| lines_of(&b).iter().map(|l| parse_line(l)).collect()).unwrap_or_default()
    };
    let tab = r
        .events
        .iter()
        .rev()
        .find(|e| e["ev"] == "snap" && e["tag"] == "end")
        .map(|e| {
            e["snap"]["funcs"]
                .as_array()
                .map(|fs| {
                    fs.iter()
                        .map(|f| TabEntry {
                            n: f[0].as_str().unwrap_or("").to_string(),
                            disp: f[1].as_str().unwrap_or("").to_string(),
                            ro: f[2].as_bool().unwrap_or(false),
                        })
                        .collect()
                })
                .unwrap_or_default()
        });
    Obs {
        outcome: r.outcome_str(),
        status: r.status as i64,
        out: before.iter().map(|l| parse_line(l)).collect(),
        listing: after,
        fo: file("/tmp/o"),
        fp: file("/tmp/p"),
        tab,
    }
}

/// How the shell prints the compound command `text` (None: it does not parse).
pub fn display_of(text: &str) -> Option<String> {
    text.parse::<yash_syntax::syntax::FullCompoundCommand>().ok().map(|c| c.to_string())
}

/// Evaluating a listing in a shell without functions: the table it creates.
pub fn reread(listing: &[String]) -> Obs {
    let script = format!("trap 'snap end' EXIT\n{}\n", listing.join("\n"));
    run_script(&script, &[])
}

/// expected line (s may be the symbolic NZ = -1) against an observed one
pub fn line_matches(e: &Line, a: &Line) -> bool {
    e.t == a.t && (if e.s == -1 { a.s >= 1 && a.s <= 255 } else { e.s == a.s })
}

pub fn lines_match(e: &[Line], a: &[Line]) -> bool {
    e.len() == a.len() && e.iter().zip(a).all(|(x, y)| line_matches(x, y))
}

pub fn status_matches(e: i64, a: i64) -> bool {
    if e == -1 { (1..=255).contains(&a) } else { e == a }
}
