//! C08: scenarios of spec/Subshell.tla rendered as shell scripts, run on the
//! simulated OS under explored schedules, observed through the `xsnap` probe.
//!
//! A snapshot is a flat map `key -> string` (absent key = "-"):
//!   val:N  "U" (declared, no value) | "S<scalar>" | "A<elements joined by \x1f>"
//!   exp:N  "1" if exported          ro:N  "1" if read-only
//!   pos:#  number of positional parameters, pos:i their values
//!   func:N body text (+ "|ro")      alias:N replacement (+ "|g")
//!   opt:N  "on" for every option that is on
//!   trap:C "ignore" | "cmd:<text>"  (conditions with a non-default action)
//!   disp:S "ignore" | "catch"       (kernel-level disposition, a fixed signal list)
//!   pend:S "1" the signal was caught and its trap action has not run yet (same list)
//!   kpend:S "1" the signal is in the pending set of the simulated process (same list)
//!   xctx:cond "1" the runtime stack holds a `Frame::Condition` (errexit is ignored)
//!   cwd, umask (3 octal digits)
//!   fd:N   "o<k>" identity of the open file description (k numbered in order of
//!          first appearance within the run), fdx:N "1" if close-on-exec
//! The harness knows nothing about what a mutator does: the command texts come
//! from the specification and the verdict is TLC's (Trace_Subshell.tla).
use serde_json::{Map, Value, json};
use std::cell::RefCell;
use std::collections::{BTreeMap, HashMap};
use std::io::{BufRead, Write};
use std::pin::Pin;
use std::rc::{Rc, Weak};
use yash_env::builtin::{Builtin, Result as BResult, Type};
use yash_env::semantics::Field;
use yash_env::system::r#virtual::{OpenFileDescription, SystemState};
use yash_env::system::{Disposition, FdFlag};
use yvcommon::sched::{self, Outcome, Schedule};
use yvcommon::shell::{self, FileSpec, ShellCfg, VEnv};
use yvcommon::util;

type Flat = BTreeMap<String, String>;

thread_local! {
    static ST: RefCell<Option<Rc<RefCell<SystemState>>>> = const { RefCell::new(None) };
    /// Keeps the allocation (not the value) of every open file description seen
    /// so far alive, so that an address identifies one description per run.
    static PINS: RefCell<Vec<Weak<RefCell<OpenFileDescription>>>> = const { RefCell::new(Vec::new()) };
    static OFD_IDS: RefCell<Vec<usize>> = const { RefCell::new(Vec::new()) };
}

thread_local! {
    /// Turn plan of the run in progress: the order in which the `pause` points
    /// of the processes ("P", "C1", "C2") are released.
    static PLAN: RefCell<Vec<String>> = const { RefCell::new(Vec::new()) };
    static TURNS: RefCell<HashMap<String, usize>> = RefCell::new(HashMap::new());
    static BASE: RefCell<Option<std::time::Instant>> = const { RefCell::new(None) };
}

/// `pause ROLE`: a preemption point.  The i-th pause of a role is released at
/// the virtual time of the i-th slot of that role in the turn plan (after all
/// planned slots if the plan has none): simulated time only advances when
/// every process is blocked, so the plan fixes the interleaving of the
/// commands that follow the pauses.
fn pause_main(env: &mut VEnv, args: Vec<Field>) -> Pin<Box<dyn Future<Output = BResult> + '_>> {
    Box::pin(async move {
        use yash_env::system::concurrency::Sleep as _;
        let role = args.first().map(|f| f.value.clone()).unwrap_or_default();
        let i = TURNS.with(|t| {
            let mut t = t.borrow_mut();
            let e = t.entry(role.clone()).or_insert(0);
            *e += 1;
            *e - 1
        });
        let slot = PLAN.with(|p| {
            let p = p.borrow();
            p.iter().enumerate().filter(|(_, r)| **r == role).nth(i).map(|(k, _)| k).unwrap_or(p.len() + i)
        });
        if let Some(base) = BASE.with(|b| *b.borrow()) {
            let deadline = base + std::time::Duration::from_millis(10 * (slot as u64 + 1));
            env.system.sleep_until(deadline).await;
        }
        BResult::new(env.exit_status)
    })
}

/// Number of subshells of a kind.
fn n_children(kind: &str) -> usize {
    if kind == "CmdSubst2" { 2 } else { pipe_width(kind).unwrap_or(1) }
}

const COND_CTXS: [&str; 5] = ["if", "while", "until", "not", "and"];

/// Number of commands of the pipeline kinds ("Pipe", "Pipe3", "Pipe4", "NotPipe", "NotPipe3").
fn pipe_width(kind: &str) -> Option<usize> {
    match kind {
        "Pipe" | "NotPipe" => Some(2),
        "Pipe3" | "NotPipe3" => Some(3),
        "Pipe4" => Some(4),
        _ => None,
    }
}

/// `selfkill SIG`: the calling shell process sends SIG (INT, TERM, KILL) to
/// itself (`$$` is the main shell's pid in every subshell, and there is no
/// other way for a subshell to learn its own pid).
fn selfkill_main(env: &mut VEnv, args: Vec<Field>) -> Pin<Box<dyn Future<Output = BResult> + '_>> {
    Box::pin(async move {
        use yash_env::system::{GetPid as _, SendSignal as _};
        let sig = match args.first().map(|f| f.value.as_str()) {
            Some("INT") => yash_env::system::r#virtual::SIGINT,
            Some("TERM") => yash_env::system::r#virtual::SIGTERM,
            Some("KILL") => yash_env::system::r#virtual::SIGKILL,
            _ => return BResult::new(yash_env::semantics::ExitStatus(2)),
        };
        let pid = env.system.getpid();
        let _ = env.system.kill(pid, Some(sig)).await;
        BResult::new(env.exit_status)
    })
}

fn ofd_id(rc: &Rc<RefCell<OpenFileDescription>>) -> usize {
    let ptr = Rc::as_ptr(rc) as usize;
    OFD_IDS.with(|ids| {
        let mut ids = ids.borrow_mut();
        if let Some(i) = ids.iter().position(|&p| p == ptr) {
            return i;
        }
        PINS.with(|p| p.borrow_mut().push(Rc::downgrade(rc)));
        ids.push(ptr);
        ids.len() - 1
    })
}

fn sig_name(raw: i64) -> String {
    let all = [
        ("KILL", yash_env::system::r#virtual::SIGKILL),
        ("CHLD", yash_env::system::r#virtual::SIGCHLD),
        ("PIPE", yash_env::system::r#virtual::SIGPIPE),
    ];
    for (n, s) in SIGS.iter().chain(all.iter()) {
        if s.as_raw() as i64 == raw {
            return n.to_string();
        }
    }
    format!("SIG{raw}")
}

const SIGS: [(&str, yash_env::signal::Number); 6] = [
    ("HUP", yash_env::system::r#virtual::SIGHUP),
    ("INT", yash_env::system::r#virtual::SIGINT),
    ("QUIT", yash_env::system::r#virtual::SIGQUIT),
    ("TERM", yash_env::system::r#virtual::SIGTERM),
    ("USR1", yash_env::system::r#virtual::SIGUSR1),
    ("USR2", yash_env::system::r#virtual::SIGUSR2),
];

/// The simulator stores the working directory as the string passed to `chdir`
/// appended to the previous one ("/tmp/."): "." components and repeated
/// slashes are dropped (always meaning-preserving); nothing else is touched.
fn normal_path(p: &str) -> String {
    if !p.starts_with('/') {
        return p.to_string();
    }
    let parts: Vec<&str> = p.split('/').filter(|c| !c.is_empty() && *c != ".").collect();
    format!("/{}", parts.join("/"))
}

/// Flattens `shell::snapshot` and adds descriptor table and dispositions.
fn flat_snapshot(env: &mut VEnv) -> Flat {
    use yash_env::system::GetPid as _;
    let s = shell::snapshot(env);
    let mut m = Flat::new();
    if let Some(vars) = s["vars"].as_object() {
        for (n, v) in vars {
            let val = match v["val"]["k"].as_str().unwrap_or("") {
                "scalar" => format!("S{}", v["val"]["v"].as_str().unwrap_or("")),
                "array" => {
                    let items: Vec<&str> =
                        v["val"]["v"].as_array().map(|a| a.iter().map(|x| x.as_str().unwrap_or("")).collect()).unwrap_or_default();
                    format!("A{}", items.join("\u{1f}"))
                }
                _ => "U".to_string(),
            };
            m.insert(format!("val:{n}"), val);
            if v["exp"].as_bool() == Some(true) {
                m.insert(format!("exp:{n}"), "1".into());
            }
            if v["ro"].as_bool() == Some(true) {
                m.insert(format!("ro:{n}"), "1".into());
            }
        }
    }
    let pos = s["pos"].as_array().cloned().unwrap_or_default();
    m.insert("pos:#".into(), pos.len().to_string());
    for (i, p) in pos.iter().enumerate() {
        m.insert(format!("pos:{}", i + 1), p.as_str().unwrap_or("").to_string());
    }
    for f in s["funcs"].as_array().cloned().unwrap_or_default() {
        let ro = if f[2].as_bool() == Some(true) { "|ro" } else { "" };
        m.insert(format!("func:{}", f[0].as_str().unwrap_or("")), format!("{}{}", f[1].as_str().unwrap_or(""), ro));
    }
    for a in s["aliases"].as_array().cloned().unwrap_or_default() {
        let g = if a[2].as_bool() == Some(true) { "|g" } else { "" };
        m.insert(format!("alias:{}", a[0].as_str().unwrap_or("")), format!("{}{}", a[1].as_str().unwrap_or(""), g));
    }
    for o in s["opts"].as_array().cloned().unwrap_or_default() {
        m.insert(format!("opt:{}", o.as_str().unwrap_or("")), "on".into());
    }
    for t in s["traps"].as_array().cloned().unwrap_or_default() {
        m.insert(format!("trap:{}", t[0].as_str().unwrap_or("")), t[1].as_str().unwrap_or("").to_string());
    }
    {
        let pend: Vec<String> = env
            .traps
            .iter()
            .filter(|(_, cur, _)| cur.pending)
            .map(|(cond, _, _)| cond.to_string(&env.system).into_owned())
            .collect();
        for name in pend {
            if SIGS.iter().any(|(n, _)| *n == name) {
                m.insert(format!("pend:{name}"), "1".into());
            }
        }
    }
    if env.stack.contains(&yash_env::stack::Frame::Condition) {
        m.insert("xctx:cond".into(), "1".into());
    }
    {
        // (read from the process table: `shell::snapshot` knows the cwd only under its own runner)
        use yash_env::system::GetPid as _;
        let pid = env.system.getpid();
        let cwd = ST.with(|st| {
            st.borrow().as_ref().and_then(|st| {
                st.borrow().processes.get(&pid).map(|p| p.getcwd().to_string_lossy().into_owned())
            })
        });
        m.insert("cwd".into(), normal_path(&cwd.unwrap_or_default()));
    }
    m.insert("umask".into(), format!("{:03o}", s["umask"].as_u64().unwrap_or(0)));
    let pid = env.system.getpid();
    let state = ST.with(|s| s.borrow().clone());
    if let Some(state) = state {
        let st = state.borrow();
        if let Some(p) = st.processes.get(&pid) {
            for (fd, body) in p.fds() {
                m.insert(format!("fd:{}", fd.0), format!("o{}", ofd_id(&body.open_file_description)));
                if body.flags.contains(FdFlag::CloseOnExec) {
                    m.insert(format!("fdx:{}", fd.0), "1".into());
                }
            }
            for (name, sig) in SIGS {
                match p.disposition(sig) {
                    Disposition::Default => {}
                    Disposition::Ignore => {
                        m.insert(format!("disp:{name}"), "ignore".into());
                    }
                    Disposition::Catch => {
                        m.insert(format!("disp:{name}"), "catch".into());
                    }
                }
                use yash_env::system::Sigset as _;
                if p.pending_signals().contains(sig) == Ok(true) {
                    m.insert(format!("kpend:{name}"), "1".into());
                }
            }
        }
    }
    m
}

/// `xsnap tag`: records the flat snapshot of the calling shell environment;
/// leaves `$?` unchanged.
fn xsnap_main(env: &mut VEnv, args: Vec<Field>) -> Pin<Box<dyn Future<Output = BResult> + '_>> {
    Box::pin(async move {
        use yash_env::system::GetPid as _;
        let tag = args.first().map(|f| f.value.clone()).unwrap_or_default();
        let st = env.exit_status.0;
        let m = flat_snapshot(env);
        shell::push_event(json!({"ev": "xsnap", "pid": env.system.getpid().0, "tag": tag, "st": st, "m": m}));
        BResult::new(env.exit_status)
    })
}

// ---------------------------------------------------------------------------

#[derive(Clone, Debug)]
pub struct Scenario {
    pub kind: String,
    /// "main": the construct is a command of the script; "trap": it is executed from
    /// inside a trap action while another caught signal is pending
    pub ctx: String,
    /// "script" (`yash -c`) or "interactive" (`yash -i -c`)
    pub mode: String,
    /// how every subshell of the scenario ends, after its last snapshot: "normal"
    /// (falls off the end) or a command text (`exit 3`, `selfkill INT`, ...)
    pub fin: String,
    pub pre: Vec<String>,
    pub ch: Vec<Vec<String>>,
    pub post: Vec<String>,
}

fn strs(v: &Value) -> Vec<String> {
    v.as_array().map(|a| a.iter().map(|x| x.as_str().unwrap_or("").to_string()).collect()).unwrap_or_default()
}

impl Scenario {
    pub fn from_json(v: &Value) -> Option<Scenario> {
        let kind = v["kind"].as_str()?.to_string();
        let ch: Vec<Vec<String>> = v["ch"].as_array()?.iter().map(strs).collect();
        if !["Paren", "CmdSubst", "CmdSubst2", "Async"].contains(&kind.as_str()) && pipe_width(&kind).is_none() {
            return None;
        }
        if ch.len() != n_children(&kind) {
            return None;
        }
        let ctx = v["ctx"].as_str().unwrap_or("main").to_string();
        if ctx != "main" && ctx != "trap" && ctx != "sig" && !COND_CTXS.contains(&ctx.as_str()) {
            return None;
        }
        let mode = v["mode"].as_str().unwrap_or("script").to_string();
        if mode != "script" && mode != "interactive" {
            return None;
        }
        let fin = v["fin"].as_str().unwrap_or("normal").to_string();
        Some(Scenario { kind, ctx, mode, fin, pre: strs(&v["pre"]), ch, post: strs(&v["post"]) })
    }
    pub fn to_json(&self) -> Value {
        json!({"kind": self.kind, "ctx": self.ctx, "mode": self.mode, "fin": self.fin, "pre": self.pre, "ch": self.ch, "post": self.post})
    }

    /// The script.  One command per line; the probes are the observation points
    /// named in the property ("before"/"after" in the parent, "entry"/"end" in
    /// each subshell).
    pub fn render(&self) -> String {
        let (main, act) = self.render_parts();
        match act {
            Some(a) => format!("{main}--- /tmp/act\n{a}"),
            None => main,
        }
    }

    /// (script, content of /tmp/act).  In the "trap" context the part from
    /// "before" to "after" is the action of a SIGUSR2 trap (a dot script), run
    /// after SIGUSR1 -- trapped with a command, too -- has been caught.
    pub fn render_parts(&self) -> (String, Option<String>) {
        let mut head = String::new();
        head.push_str("xsnap init\n");
        for c in &self.pre {
            head.push_str(c);
            head.push('\n');
        }
        let inner = self.render_construct();
        let body = format!("xsnap before\n{inner}xsnap after\n");
        match self.ctx.as_str() {
            "trap" => {
                head.push_str("trap 'probe s' USR1\ntrap '. /tmp/act' USR2\nkill -s USR2 $$\n");
                (head, Some(format!("kill -s USR1 $$\n{body}")))
            }
            // A sibling signals the parent (SIGUSR1, trapped).  The construct is the
            // clause of a `case` whose subject makes the parent wait (for the `pause W`
            // substitution) inside the very command that forks: a signal arriving
            // then is still pending, or caught and not yet handled, at the fork.
            "sig" => {
                head.push_str("trap 'probe s' USR1\n{\npause S\nkill -s USR1 $$\nprobe k\n} &\n");
                (
                    format!(
                        "{head}xsnap before\ncase $(pause W) in\n*)\n{inner};;\nesac\nuntil wait; do :; done\nxsnap after\n"
                    ),
                    None,
                )
            }
            // errexit-exempt contexts (XCU 2.8.1 / set -e)
            "if" => (format!("{head}if\n{body}then :; fi\n"), None),
            "while" => (format!("{head}while\n{body}status 1\ndo :; done\n"), None),
            "until" => (format!("{head}until\n{body}status 0\ndo :; done\n"), None),
            "not" => (format!("{head}! {{\n{body}}}\n"), None),
            "and" => (format!("{head}{{\n{body}}} && :\n"), None),
            _ => (format!("{head}{body}"), None),
        }
    }

    /// Do the processes of the scenario have preemption points (`pause`)?
    fn concurrent(&self) -> bool {
        pipe_width(&self.kind).is_some() || self.kind == "Async" || self.ctx == "sig"
    }

    fn render_construct(&self) -> String {
        let mut s = String::new();
        let line = |s: &mut String, l: &str| {
            s.push_str(l);
            s.push('\n');
        };
        // In the concurrent kinds every process has a preemption point before
        // each of its steps (first look included), see `pause`.
        let conc = self.concurrent();
        let body = |s: &mut String, j: usize, tail: Option<&str>| {
            if conc {
                s.push_str(&format!("pause C{}\n", j + 1));
            }
            s.push_str(&format!("xsnap entry{}\n", j + 1));
            for c in &self.ch[j] {
                if conc {
                    s.push_str(&format!("pause C{}\n", j + 1));
                }
                s.push_str(c);
                s.push('\n');
            }
            s.push_str(&format!("xsnap end{}\n", j + 1));
            if let Some(t) = tail {
                s.push_str(t);
                s.push('\n');
            }
            if self.fin != "normal" {
                s.push_str(&self.fin);
                s.push('\n');
            }
        };
        match self.kind.as_str() {
            "Paren" => {
                line(&mut s, "(");
                body(&mut s, 0, None);
                line(&mut s, ")");
            }
            "CmdSubst" => {
                line(&mut s, "probe cs \"$(");
                body(&mut s, 0, Some("echo out"));
                line(&mut s, ")\"");
            }
            "CmdSubst2" => {
                line(&mut s, "probe cs \"$(");
                body(&mut s, 0, Some("echo out"));
                line(&mut s, ")$(");
                body(&mut s, 1, Some("echo out"));
                line(&mut s, ")\"");
            }
            k if pipe_width(k).is_some() => {
                let n = pipe_width(k).unwrap();
                line(&mut s, if k.starts_with("Not") { "! {" } else { "{" });
                body(&mut s, 0, Some("echo data"));
                for j in 1..n {
                    line(&mut s, "} | {");
                    body(&mut s, j, Some("cat"));
                }
                line(&mut s, "}");
            }
            "Async" => {
                line(&mut s, "{");
                body(&mut s, 0, None);
                line(&mut s, "} &");
                for c in &self.post {
                    line(&mut s, "pause P");
                    line(&mut s, c);
                }
                // `wait` returns > 128 when a trapped signal (SIGCHLD) interrupts it
                line(&mut s, "until wait; do :; done");
            }
            other => panic!("unknown kind {other}"),
        }
        s
    }
}

impl Scenario {
    /// The pause points of the scenario as a multiset of roles (in program order per role).
    pub fn turns(&self) -> Vec<(String, usize)> {
        let mut v = vec![];
        if self.concurrent() {
            for (j, c) in self.ch.iter().enumerate() {
                v.push((format!("C{}", j + 1), c.len() + 1));
            }
            if !self.post.is_empty() {
                v.push(("P".to_string(), self.post.len()));
            }
        }
        v
    }
}

/// All merges of the roles' pause sequences (at most `limit`, else `None`).
fn all_plans(turns: &[(String, usize)], limit: usize) -> Option<Vec<Vec<String>>> {
    fn go(rem: &mut Vec<(String, usize)>, cur: &mut Vec<String>, out: &mut Vec<Vec<String>>, limit: usize) -> bool {
        if rem.iter().all(|r| r.1 == 0) {
            out.push(cur.clone());
            return out.len() <= limit;
        }
        for i in 0..rem.len() {
            if rem[i].1 > 0 {
                rem[i].1 -= 1;
                cur.push(rem[i].0.clone());
                let ok = go(rem, cur, out, limit);
                cur.pop();
                rem[i].1 += 1;
                if !ok {
                    return false;
                }
            }
        }
        true
    }
    let mut out = vec![];
    let mut rem = turns.to_vec();
    if go(&mut rem, &mut vec![], &mut out, limit) { Some(out) } else { None }
}

fn random_plan(turns: &[(String, usize)], rng: &mut impl rand::Rng) -> Vec<String> {
    let mut rem = turns.to_vec();
    let mut out = vec![];
    loop {
        let total: usize = rem.iter().map(|r| r.1).sum();
        if total == 0 {
            return out;
        }
        let mut x = rng.gen_range(0..total);
        for r in rem.iter_mut() {
            if x < r.1 {
                r.1 -= 1;
                out.push(r.0.clone());
                break;
            }
            x -= r.1;
        }
    }
}

pub struct Obs {
    pub outcome: String,
    pub status: i32,
    pub snaps: HashMap<String, (i32, Flat)>,
    pub out: String,
    pub stderr: String,
    pub choices: Vec<(usize, usize)>,
    pub events: Vec<Value>,
    pub plan: Vec<String>,
    /// (pid, first argument) of every `probe` event: the trap actions and
    /// function bodies of the alphabet are `probe <tag>`
    pub probes: Vec<(i32, String)>,
    /// files /tmp/r* existing after the run (created by redirection-only commands)
    pub files: Vec<String>,
    /// final state of every simulated process: pid -> "R" | "S" | "E<status>" | "K<signal>"
    pub fates: BTreeMap<i32, String>,
    /// how many times the main shell process ran `probe s` (the SIGUSR1 trap action
    /// of the "trap" and "sig" contexts)
    pub pruns: usize,
    /// "sig" context: pids forked after the sibling had sent its signal and
    /// before the parent ran the trap action (the signal was pending at that fork)
    pub forked_pending: Vec<i32>,
}

pub fn run_once(sc: &Scenario, plan: &[String], schedule: Schedule) -> Obs {
    PINS.with(|p| p.borrow_mut().clear());
    OFD_IDS.with(|p| p.borrow_mut().clear());
    PLAN.with(|p| *p.borrow_mut() = plan.to_vec());
    TURNS.with(|t| t.borrow_mut().clear());
    let (script, act) = sc.render_parts();
    // An interactive shell discards the rest of its input buffer when a command
    // line is interrupted: it reads the script from standard input line by line
    // (`yash -i -s p q`), the non-interactive one gets it as `-c` string.
    let mut cfg = if sc.mode == "interactive" {
        let mut c = ShellCfg::stdin_script(script.as_bytes());
        c.argv = ["yash", "-i", "-s", "p", "q"].iter().map(|x| x.to_string()).collect();
        c
    } else {
        ShellCfg::command_with(&[], &script, &["p", "q"])
    };
    cfg.schedule = schedule;
    cfg.step_limit = 100_000;
    cfg.trace_procs = sc.ctx == "sig";
    cfg.files = vec![
        FileSpec::Regular { path: "/dev/null".into(), content: vec![], mode: 0o666 },
        FileSpec::Regular { path: "/tmp/in".into(), content: b"input\n".to_vec(), mode: 0o644 },
    ];
    if let Some(a) = act {
        cfg.files.push(FileSpec::Regular { path: "/tmp/act".into(), content: a.into_bytes(), mode: 0o644 });
    }
    cfg.setup = Some(Box::new(|env, state| {
        ST.with(|s| *s.borrow_mut() = Some(Rc::clone(state)));
        let now = std::time::Instant::now();
        state.borrow_mut().now = Some(now);
        BASE.with(|b| *b.borrow_mut() = Some(now));
        env.builtins.insert("xsnap", Builtin::new(Type::Mandatory, xsnap_main));
        env.builtins.insert("pause", Builtin::new(Type::Mandatory, pause_main));
        env.builtins.insert("selfkill", Builtin::new(Type::Mandatory, selfkill_main));
    }));
    let r = if sc.mode == "interactive" { crate::runner::run_shell(cfg) } else { shell::run_shell(cfg) };
    ST.with(|s| *s.borrow_mut() = None);
    let mut snaps = HashMap::new();
    let mut out = String::new();
    let mut dup_tag = false;
    let mut probes: Vec<(i32, String)> = vec![];
    let main_pid = r.events.iter().find(|e| e["ev"] == "xsnap").map(|e| e["pid"].as_i64().unwrap_or(0) as i32).unwrap_or(0);
    let mut pruns = 0usize;
    // "sig" context: the sibling's `probe k` follows its `kill` in the same scheduling step
    let mut sent = false;
    let mut known: Vec<i32> = vec![];
    let mut forked_pending: Vec<i32> = vec![];
    for e in &r.events {
        if e["ev"] == "probe" && e["args"][0] == "k" && sc.ctx == "sig" {
            sent = true;
            continue;
        }
        if e["ev"] == "proc" {
            let pid = e["pid"].as_i64().unwrap_or(0) as i32;
            if !known.contains(&pid) {
                known.push(pid);
                if sent && pruns == 0 {
                    forked_pending.push(pid);
                }
            }
            continue;
        }
        if e["ev"] == "probe" && e["args"][0] == "s" && e["pid"].as_i64().unwrap_or(0) as i32 == main_pid {
            pruns += 1;
        }
        if e["ev"] == "probe" && e["args"][0] != "cs" {
            probes.push((e["pid"].as_i64().unwrap_or(0) as i32, e["args"][0].as_str().unwrap_or("").to_string()));
        }
        if e["ev"] == "xsnap" {
            let tag = e["tag"].as_str().unwrap_or("").to_string();
            let mut m = Flat::new();
            if let Some(o) = e["m"].as_object() {
                for (k, v) in o {
                    m.insert(k.clone(), v.as_str().unwrap_or("").to_string());
                }
            }
            if snaps.insert(tag, (e["pid"].as_i64().unwrap_or(0) as i32, m)).is_some() {
                dup_tag = true;
            }
        } else if e["ev"] == "probe" && e["args"][0] == "cs" {
            out = e["args"][1].as_str().unwrap_or("").to_string();
        }
    }
    if pipe_width(&sc.kind).is_some() {
        out = r.stdout_str();
    }
    let mut outcome = match &r.outcome {
        Outcome::Completed => "completed".to_string(),
        Outcome::Deadlock => "deadlock".to_string(),
        Outcome::StepLimit => "steplimit".to_string(),
        Outcome::Panic(m) => format!("panic: {m}"),
    };
    if dup_tag {
        outcome = format!("{outcome}+duplicate-snapshot");
    }
    PINS.with(|p| p.borrow_mut().clear());
    let mut files: Vec<String> =
        shell::inode_paths(&r.state).into_iter().map(|x| x.1).filter(|p| p.starts_with("/tmp/r")).collect();
    files.sort();
    let fates: BTreeMap<i32, String> = shell::proc_table(&r.state).into_iter().map(|(pid, v)| (pid, v.1)).collect();
    Obs {
        outcome,
        status: r.status,
        snaps,
        out,
        stderr: r.stderr_str(),
        choices: r.choices.clone(),
        events: r.events,
        plan: plan.to_vec(),
        probes,
        files,
        fates,
        pruns,
        forked_pending,
    }
}

fn get<'a>(m: &'a Flat, k: &str) -> &'a str {
    m.get(k).map(|s| s.as_str()).unwrap_or("-")
}

fn diff(a: &Flat, b: &Flat) -> Vec<Value> {
    let mut keys: Vec<&String> = a.keys().chain(b.keys()).collect();
    keys.sort();
    keys.dedup();
    keys.into_iter()
        .filter(|k| get(a, k) != get(b, k))
        .map(|k| json!({"k": k, "o": get(a, k), "n": get(b, k)}))
        .collect()
}

/// Renumbers the identities of open file descriptions ("o<k>") in order of
/// first appearance over the snapshots taken in canonical order, so that the
/// record does not depend on which process happened to be observed first.
fn canonical_ofds(maps: &mut [&mut Flat]) {
    let mut order: Vec<String> = vec![];
    for m in maps.iter() {
        for (k, v) in m.iter() {
            if k.starts_with("fd:") && !order.contains(v) {
                order.push(v.clone());
            }
        }
    }
    for m in maps.iter_mut() {
        for (k, v) in m.iter_mut() {
            if k.starts_with("fd:") {
                let i = order.iter().position(|o| o == v).unwrap();
                *v = format!("o{i}");
            }
        }
    }
}

/// The record validated by Trace_Subshell.tla (without schedule bookkeeping).
pub fn record(sc: &Scenario, obs: &Obs) -> Value {
    let empty = Flat::new();
    let mut miss: Vec<String> = vec![];
    let mut snap = |tag: &str| -> Flat {
        match obs.snaps.get(tag) {
            Some((_, m)) => m.clone(),
            None => {
                miss.push(tag.to_string());
                empty.clone()
            }
        }
    };
    let mut init = snap("init");
    let mut before = snap("before");
    let mut after = snap("after");
    let mut ch = vec![];
    for j in 0..sc.ch.len() {
        let entry = snap(&format!("entry{}", j + 1));
        let end = snap(&format!("end{}", j + 1));
        ch.push((entry, end));
    }
    {
        let mut all: Vec<&mut Flat> = vec![&mut init, &mut before];
        for (a, b) in ch.iter_mut() {
            all.push(a);
            all.push(b);
        }
        all.push(&mut after);
        canonical_ofds(&mut all);
    }
    let main_pid = obs.snaps.get("init").map(|x| x.0).unwrap_or(0);
    // every subshell body must have run in a process of its own
    let mut same_pid: Vec<String> = vec![];
    for j in 0..sc.ch.len() {
        for t in [format!("entry{}", j + 1), format!("end{}", j + 1)] {
            if let Some((pid, _)) = obs.snaps.get(&t) {
                if *pid == main_pid {
                    same_pid.push(t);
                }
            }
        }
    }
    // a difference is recorded when both of its snapshots exist (a missing one is in `miss`)
    let has = |t: &str| obs.snaps.contains_key(t);
    let d = |ta: &str, a: &Flat, tb: &str, b: &Flat| if has(ta) && has(tb) { diff(a, b) } else { vec![] };
    // which process ran which `probe <tag>` (sorted sets): the subshells by the
    // pid of their entry snapshot, the parent, and any other process
    let tags_of = |f: &dyn Fn(i32) -> bool| -> Vec<String> {
        let mut v: Vec<String> = obs.probes.iter().filter(|(p, _)| f(*p)).map(|(_, t)| t.clone()).collect();
        v.sort();
        v.dedup();
        v
    };
    let child_pids: Vec<i32> =
        (0..sc.ch.len()).map(|j| obs.snaps.get(&format!("entry{}", j + 1)).map(|x| x.0).unwrap_or(-1)).collect();
    let chj: Vec<Value> = ch
        .iter()
        .enumerate()
        .map(|(j, (en, end))| {
            let pid = child_pids[j];
            let (te, td) = (format!("entry{}", j + 1), format!("end{}", j + 1));
            json!({"d_entry": d("before", &before, &te, en), "d_end": d(&te, en, &td, end),
                   "probes": tags_of(&|p| p == pid && p != main_pid),
                   "fate": obs.fates.get(&pid).cloned().unwrap_or_else(|| "?".to_string()),
                   "fpend": if obs.forked_pending.contains(&pid) { "1" } else { "-" }})
        })
        .collect();
    // every process of the run that was terminated by a signal: "<who>:<SIG>",
    // who = P (the main shell), C<j> (subshell j, known by its entry snapshot), other
    let mut killed: Vec<String> = vec![];
    for (pid, f) in &obs.fates {
        if let Some(n) = f.strip_prefix('K') {
            let who = if *pid == main_pid {
                "P".to_string()
            } else if let Some(j) = child_pids.iter().position(|p| p == pid) {
                format!("C{}", j + 1)
            } else {
                "other".to_string()
            };
            killed.push(format!("{who}:{}", sig_name(n.parse().unwrap_or(-1))));
        }
    }
    killed.sort();
    let parent_probes = tags_of(&|p| p == main_pid);
    let other_probes = tags_of(&|p| p != main_pid && !child_pids.contains(&p));
    let init_obj: Map<String, Value> = init.iter().map(|(k, v)| (k.clone(), json!(v))).collect();
    let mut init_v = Value::Object(init_obj);
    if init.is_empty() {
        init_v = json!({"cwd": "?"}); // never an empty object (TLC's Json module)
    }
    json!({
        "sc": sc.to_json(),
        "outcome": obs.outcome,
        "status": obs.status,
        "miss": miss,
        "inparent": same_pid,
        "init": init_v,
        "d_before": d("init", &init, "before", &before),
        "ch": chj,
        "d_after": d("before", &before, "after", &after),
        "killed": killed,
        "pruns": obs.pruns,
        "out": obs.out,
        "probes": parent_probes,
        "oprobes": other_probes,
        "files": obs.files,
    })
}

pub struct Explore {
    /// enumerate all turn plans if there are at most this many, else sample this many
    pub plans: usize,
    pub dfs_depth: usize,
    /// scheduler-level schedules per plan (depth-first over the choice points)
    pub dfs_max: usize,
    pub random: usize,
    pub seed: u64,
}

pub struct Stats {
    pub runs: usize,
    pub max_choices: usize,
    pub plans: usize,
    pub concurrent: bool,
}

/// Runs the scenario under every turn plan (or a seeded sample), each under
/// FIFO, a bounded depth-first enumeration of the scheduler's choice points
/// and seeded random schedules; returns the distinct records with the number
/// of schedules that produced each, and one (plan, choices) witness each.
pub fn explore(sc: &Scenario, idx: usize, ex: &Explore) -> (Vec<Value>, Stats) {
    use rand::SeedableRng;
    let mut seen: Vec<(String, Value, usize, Vec<usize>, Vec<String>)> = vec![];
    let mut st = Stats { runs: 0, max_choices: 0, plans: 0, concurrent: false };
    let turns = sc.turns();
    let seed0 = ex.seed.wrapping_mul(0x9E37_79B9_7F4A_7C15).wrapping_add((idx as u64) << 12);
    // "sig" context: fewer merge orders of the subshells' commands, each with the
    // sibling's signal placed at every point (see below)
    let base_limit = if sc.ctx == "sig" { (ex.plans / 2).max(2) } else { ex.plans };
    let plans: Vec<Vec<String>> = match all_plans(&turns, base_limit.max(1)) {
        Some(p) => p,
        None => {
            let mut rng = rand::rngs::StdRng::seed_from_u64(seed0 ^ 0x51ed);
            // the two sequential extremes plus random merges
            let mut v: Vec<Vec<String>> = vec![];
            let fwd: Vec<String> = turns.iter().flat_map(|(r, n)| std::iter::repeat_n(r.clone(), *n)).collect();
            let bwd: Vec<String> = turns.iter().rev().flat_map(|(r, n)| std::iter::repeat_n(r.clone(), *n)).collect();
            v.push(fwd);
            v.push(bwd);
            while v.len() < base_limit.max(2) {
                v.push(random_plan(&turns, &mut rng));
            }
            v
        }
    };
    // The waiting substitution (W) comes first; the sibling's `kill` (S) is placed
    // at every point: before W is over (the signal reaches the parent inside the
    // command that forks: pending at the fork), right after the fork, between any
    // two commands of the subshells / the parent, after all of them.
    let plans: Vec<Vec<String>> = if sc.ctx == "sig" {
        let mut v = vec![];
        for b in &plans {
            let mut w = vec!["W".to_string()];
            w.extend(b.iter().cloned());
            for i in 0..=w.len() {
                let mut p = w.clone();
                p.insert(i, "S".to_string());
                v.push(p);
            }
        }
        v
    } else {
        plans
    };
    st.plans = plans.len();
    st.concurrent = !turns.is_empty();
    let add = |obs: &Obs, seen: &mut Vec<(String, Value, usize, Vec<usize>, Vec<String>)>| {
        let rec = record(sc, obs);
        let key = rec.to_string();
        if let Some(e) = seen.iter_mut().find(|e| e.0 == key) {
            e.2 += 1;
        } else {
            seen.push((key, rec, 1, obs.choices.iter().map(|c| c.0).collect(), obs.plan.clone()));
        }
    };
    for (pi, plan) in plans.iter().enumerate() {
        let mut schedule = Schedule::Fifo;
        let mut k = 0usize;
        let mut any_choice = false;
        loop {
            let obs = run_once(sc, plan, schedule.clone());
            st.runs += 1;
            k += 1;
            st.max_choices = st.max_choices.max(obs.choices.len());
            any_choice |= !obs.choices.is_empty();
            add(&obs, &mut seen);
            if k >= ex.dfs_max.max(1) {
                break;
            }
            match sched::next_prefix(&obs.choices, ex.dfs_depth) {
                Some(p) => schedule = Schedule::Prefix(p),
                None => break,
            }
        }
        if any_choice {
            for r in 0..ex.random {
                let seed = seed0.wrapping_add((pi as u64) << 6).wrapping_add(r as u64);
                let obs = run_once(sc, plan, Schedule::Random(seed));
                st.runs += 1;
                st.max_choices = st.max_choices.max(obs.choices.len());
                add(&obs, &mut seen);
            }
        }
    }
    let recs = seen
        .into_iter()
        .map(|(_, mut rec, n, choices, plan)| {
            rec["id"] = json!(idx);
            rec["nsched"] = json!(n);
            rec["sched"] = json!(choices);
            rec["plan"] = json!(plan);
            rec
        })
        .collect();
    (recs, st)
}

pub fn run(args: &[String]) -> i32 {
    util::quiet_panics();
    let threads = util::opt_usize(args, "--threads", 8).max(1);
    let ex = Explore {
        plans: util::opt_usize(args, "--plans", 6),
        dfs_depth: util::opt_usize(args, "--dfs-depth", 6),
        dfs_max: util::opt_usize(args, "--dfs-max", 3),
        random: util::opt_usize(args, "--random", 1),
        seed: util::seed(),
    };
    let mut scs: Vec<Scenario> = vec![];
    for (i, line) in util::open_in(args).lines().enumerate() {
        let line = line.expect("read");
        if line.trim().is_empty() {
            continue;
        }
        let v: Value = serde_json::from_str(&line).unwrap_or_else(|e| {
            eprintln!("bad scenario line {}: {e}", i + 1);
            std::process::exit(2)
        });
        match Scenario::from_json(&v) {
            Some(s) => scs.push(s),
            None => {
                eprintln!("bad scenario line {}: {line}", i + 1);
                return 2;
            }
        }
    }
    let n = scs.len();
    let next = std::sync::atomic::AtomicUsize::new(0);
    let mut outs: Vec<Vec<(usize, Vec<Value>, Stats)>> = vec![];
    std::thread::scope(|s| {
        let mut hs = vec![];
        for _ in 0..threads {
            let (ex, scs, next) = (&ex, &scs, &next);
            hs.push(s.spawn(move || {
                let mut out = vec![];
                loop {
                    let a = next.fetch_add(16, std::sync::atomic::Ordering::SeqCst);
                    if a >= scs.len() {
                        break;
                    }
                    for i in a..(a + 16).min(scs.len()) {
                        let (r, st) = explore(&scs[i], i, ex);
                        out.push((i, r, st));
                    }
                }
                out
            }));
        }
        for h in hs {
            outs.push(h.join().expect("worker thread"));
        }
    });
    let mut all: Vec<(usize, Vec<Value>, Stats)> = outs.into_iter().flatten().collect();
    all.sort_by_key(|x| x.0);
    let mut out = util::open_out(args);
    let (mut nrec, mut runs, mut maxc, mut conc, mut plans) = (0usize, 0usize, 0usize, 0usize, 0usize);
    for (_, recs, st) in all {
        for r in recs {
            writeln!(out, "{r}").unwrap();
            nrec += 1;
        }
        runs += st.runs;
        maxc = maxc.max(st.max_choices);
        if st.concurrent {
            conc += 1;
            plans += st.plans;
        }
    }
    out.flush().unwrap();
    eprintln!(
        "{}",
        json!({"scenarios": n, "records": nrec, "shell_runs": runs, "max_choice_points": maxc,
               "concurrent_scenarios": conc, "turn_plans": plans})
    );
    0
}

pub fn one(args: &[String]) -> i32 {
    util::quiet_panics();
    let v: Value = match util::opt(args, "--scenario") {
        Some(s) => serde_json::from_str(s).expect("scenario json"),
        None => {
            let line = util::opt_usize(args, "--line", 1);
            let l = util::open_in(args).lines().nth(line - 1).expect("line").expect("read");
            serde_json::from_str(&l).expect("scenario json")
        }
    };
    // accept a whole record, too: then its witness plan/schedule is the default
    let (scv, mut plan, mut prefix): (Value, Vec<String>, Option<Vec<usize>>) = if v.get("sc").is_some() {
        (
            v["sc"].clone(),
            strs(&v["plan"]),
            v["sched"].as_array().map(|a| a.iter().map(|x| x.as_u64().unwrap_or(0) as usize).collect()),
        )
    } else {
        (v, vec![], None)
    };
    let sc = Scenario::from_json(&scv).expect("scenario");
    if let Some(p) = util::opt(args, "--plan") {
        plan = p.split(',').filter(|x| !x.is_empty()).map(|x| x.to_string()).collect();
    }
    if let Some(p) = util::opt(args, "--prefix") {
        prefix = Some(p.split(',').filter(|x| !x.is_empty()).map(|x| x.parse().expect("prefix")).collect());
    }
    let schedule = if let Some(s) = util::opt(args, "--seed") {
        Schedule::Random(s.parse().expect("seed"))
    } else if let Some(p) = prefix {
        Schedule::Prefix(p)
    } else {
        Schedule::Fifo
    };
    let obs = run_once(&sc, &plan, schedule);
    let mut rec = record(&sc, &obs);
    rec["id"] = json!(0);
    rec["nsched"] = json!(1);
    rec["sched"] = json!(obs.choices.iter().map(|c| c.0).collect::<Vec<_>>());
    rec["plan"] = json!(obs.plan);
    if args.iter().any(|a| a == "--verbose") {
        eprintln!("--- script\n{}--- outcome {} status {} choices {:?}\n--- stderr\n{}", sc.render(), obs.outcome, obs.status, obs.choices, obs.stderr);
        for e in &obs.events {
            eprintln!("{e}");
        }
    }
    let mut out = util::open_out(args);
    writeln!(out, "{rec}").unwrap();
    0
}
