//! The shell runner for *interactive* scenarios.  `yvcommon::shell::run_shell`
//! always uses `read_eval_loop`; the real entry point
//! (`yash_cli::run_as_shell_process`) uses `interactive_read_eval_loop` when
//! the Interactive option is on, which is what keeps an interactive shell
//! alive after an interrupted command line.  This is `run_shell` with that one
//! difference (same scheduler, same probe built-ins, same file system set-up).
use std::cell::RefCell;
use std::ops::ControlFlow::{Break, Continue};
use std::rc::Rc;
use yash_cli::startup::args::Parse;
use yash_env::Env;
use yash_env::builtin::Type;
use yash_env::option::{Option::Interactive, State::On};
use yash_env::semantics::{Divert, ExitStatus};
use yash_env::system::r#virtual::{FileBody, Inode, SystemState, VirtualSystem};
use yash_env::system::{Concurrent, Mode};
use yvcommon::sched::{Outcome, Scheduler};
use yvcommon::shell::{self, FileSpec, ShellCfg, ShellResult, Sys, VEnv};

fn save(state: &Rc<RefCell<SystemState>>, path: &str, inode: Inode) {
    state.borrow_mut().file_system.save(path, Rc::new(RefCell::new(inode))).unwrap();
}

fn dir() -> Inode {
    Inode { body: FileBody::Directory { files: Default::default() }, permissions: Mode::from_bits_truncate(0o755) }
}

async fn body(env: &mut VEnv, run: yash_cli::startup::args::Run, setup: impl FnOnce(&mut VEnv)) {
    let work = yash_cli::startup::configure_environment(env, run).await;
    setup(env);
    let is_interactive = env.options.get(Interactive) == On;
    let ref_env = RefCell::new(env);
    let lexer = match yash_cli::startup::input::prepare_input(&ref_env, &work.source).await {
        Ok(lexer) => lexer,
        Err(_) => {
            ref_env.borrow_mut().exit_status = ExitStatus::NOT_FOUND;
            return;
        }
    };
    let result = if is_interactive {
        yash_semantics::interactive_read_eval_loop(&ref_env, &mut { lexer }).await
    } else {
        yash_semantics::read_eval_loop(&ref_env, &mut { lexer }).await
    };
    let env = ref_env.into_inner();
    env.apply_result(result);
    match result {
        Continue(())
        | Break(Divert::Continue { .. })
        | Break(Divert::Break { .. })
        | Break(Divert::Return(_))
        | Break(Divert::Interrupt(_))
        | Break(Divert::Exit(_)) => yash_semantics::trap::run_exit_trap(env).await,
        Break(Divert::Abort(_)) => (),
    }
}

pub fn run_shell(cfg: ShellCfg) -> ShellResult {
    shell::EVENTS.with(|e| e.borrow_mut().clear());
    let system = VirtualSystem::new();
    let state = Rc::clone(&system.state);
    let sched = Rc::new(Scheduler::new(cfg.schedule.clone(), cfg.step_limit));
    state.borrow_mut().executor = Some(Rc::clone(&sched) as Rc<dyn yash_env::system::r#virtual::Executor>);
    for d in ["/tmp", "/bin", "/home"] {
        save(&state, d, dir());
    }
    for (name, b) in yash_builtin::iter::<Sys>() {
        if b.r#type == Type::Substitutive {
            let mut inode = Inode::new(Vec::<u8>::new());
            inode.permissions = Mode::from_bits_truncate(0o755);
            if let FileBody::Regular { is_native_executable, .. } = &mut inode.body {
                *is_native_executable = true;
            }
            save(&state, &format!("/bin/{name}"), inode);
        }
    }
    for f in &cfg.files {
        match f {
            FileSpec::Regular { path, content, mode } => {
                let mut inode = Inode::new(content.clone());
                inode.permissions = Mode::from_bits_truncate(*mode as _);
                save(&state, path, inode);
            }
            FileSpec::Dir { path } => save(&state, path, dir()),
            _ => panic!("file kind not supported by the C08 runner"),
        }
    }
    if !cfg.stdin.is_empty() {
        let st = state.borrow();
        let inode = st.file_system.get("/dev/stdin").unwrap();
        inode.borrow_mut().body = FileBody::new(cfg.stdin.clone());
    }
    let main_pid = system.process_id;
    let run = match yash_cli::startup::args::parse(cfg.argv.iter().cloned()) {
        Ok(Parse::Run(run)) => run,
        other => {
            return ShellResult {
                outcome: Outcome::Panic(format!("argv not runnable: {other:?}")),
                status: 2,
                stdout: vec![],
                stderr: vec![],
                events: vec![],
                choices: vec![],
                polls: 0,
                state,
            };
        }
    };
    let sys: Sys = Rc::new(Concurrent::new(system));
    let mut env = Env::with_system(Rc::clone(&sys));
    env.variables.extend_env([("PATH".to_string(), "/bin".to_string())]);
    env.variables.extend_env(cfg.env.iter().cloned());
    let exit_status = Rc::new(std::cell::Cell::new(-1));
    let es2 = Rc::clone(&exit_status);
    let setup = cfg.setup;
    let state2 = Rc::clone(&state);
    let sys2 = Rc::clone(&sys);
    let main_task = async move {
        let b = async move {
            body(&mut env, run, move |env| {
                shell::register_probes(env);
                if let Some(f) = setup {
                    f(env, &state2);
                }
            })
            .await;
            es2.set(env.exit_status.0);
        };
        sys2.run_virtual(b).await;
    };
    let outcome = sched.run_main(Box::pin(main_task), &state);
    let mut status = exit_status.get();
    {
        let st = state.borrow();
        if let Some(p) = st.processes.get(&main_pid) {
            if let yash_env::job::ProcessState::Halted(r) = p.state() {
                status = ExitStatus::from(r).0;
            }
        }
    }
    let stdout = shell::file_content(&state, "/dev/stdout").unwrap_or_default();
    let stderr = shell::file_content(&state, "/dev/stderr").unwrap_or_default();
    let events = shell::EVENTS.with(|e| std::mem::take(&mut *e.borrow_mut()));
    ShellResult { outcome, status, stdout, stderr, events, choices: sched.choices(), polls: sched.polls(), state }
}
