//! Conformance harness for property C08 (subshell isolation), see
//! /verif/DESIGN.md section 6 "C08" and spec/Subshell.tla.
//!
//! `run`  : renders every scenario of the TLC-generated catalogue into a shell
//!          script, runs it on the simulated OS under explored schedules and
//!          records `{sc, init, d_before, ch[{d_entry,d_end}], d_after, ...}`
//!          (flat key/value snapshots and their differences) for validation by
//!          spec/Trace_Subshell.tla.
//! `one`  : runs a single scenario (debugging / replay), prints script + record.
mod runner;
mod scen;

fn main() {
    let args: Vec<String> = std::env::args().collect();
    if args.len() < 2 {
        eprintln!("usage: yv-c08 <run|one> ...");
        std::process::exit(2);
    }
    let rest = &args[2..];
    let code = match args[1].as_str() {
        "run" => scen::run(rest),
        "one" => scen::one(rest),
        other => {
            eprintln!("unknown subcommand {other}");
            2
        }
    };
    std::process::exit(code);
}
