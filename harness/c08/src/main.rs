//! Conformance harness for property C08, see /verif/DESIGN.md.
fn main() {
    eprintln!("yv-c08: not implemented yet");
    std::process::exit(2);
}
