//! G04 (B) command search, `command`, `type`: establishing a state of
//! spec/CmdSearch.tla (functions, aliases, built-in table, options, $PATH,
//! standard path, file tree) in the real shell on the simulated OS, putting
//! queries to it and abstracting what happened.
//!
//! Queries (one name each):
//!   v / pv       `command -v NAME` / `command -pv NAME`   -> {out, found}
//!   V / pV / type `command -V NAME` ... `type NAME`       -> {kind, path, found}
//!   plain / cmd / cmdp   `v=B NAME a1` / `v=B command NAME a1` / `v=B command -p NAME a1`
//!                -> {what, path, st, sp, persist}
//!   abortplain / abortcmd / abortcmdp   `NAME fail` ... : does the (sub)shell go on -> bool
//!
//! What ran is observed through: the registered probe built-ins `nsp nma nel
//! nex nsu` (types special, mandatory, elective, extension, substitutive),
//! which record their name, arguments and whether their stack frame says
//! "special" and which report an error the documented way when the first
//! argument is `fail`; function bodies `probe FN`; `Process::last_exec` of
//! the simulator (path and arguments handed to execve).
use crate::common::{self, par_map, sq};
use rand::rngs::StdRng;
use rand::{Rng, SeedableRng};
use serde_json::{Value, json};
use std::cell::RefCell;
use std::io::{BufRead, Write};
use std::pin::Pin;
use std::rc::Rc;
use yash_env::builtin::{Builtin, Result as BResult, Type};
use yash_env::semantics::{ExitStatus, Field};
use yash_env::str::UnixString;
use yash_env::system::r#virtual::{FileBody, SystemState};
use yvcommon::sched::Outcome;
use yvcommon::shell::{FileSpec, ShellCfg, VEnv, push_event, run_shell};
use yvcommon::util;

const CUSTOM: &[(&str, Type)] = &[
    ("nsp", Type::Special),
    ("nma", Type::Mandatory),
    ("nel", Type::Elective),
    ("nex", Type::Extension),
    ("nsu", Type::Substitutive),
];
const REAL: &[&str] = &[":", "cd", "true", "typeset"];

fn bi_main(env: &mut VEnv, args: Vec<Field>) -> Pin<Box<dyn Future<Output = BResult> + '_>> {
    Box::pin(async move {
        let (name, special) = match env.stack.current_builtin() {
            Some(b) => (b.name.value.clone(), b.is_special),
            None => ("?".to_string(), false),
        };
        let a: Vec<String> = args.iter().map(|f| f.value.clone()).collect();
        push_event(json!({"ev": "bi", "name": name, "args": a, "special": special}));
        if a.first().is_some_and(|s| s == "fail") {
            return yash_builtin::common::report::report_simple_error(env, "requested failure").await;
        }
        BResult::new(ExitStatus(0))
    })
}

/// Lexical canonical form of a pathname taken relative to `cwd`.
pub fn canon(cwd: &str, p: &str) -> String {
    let full = if p.starts_with('/') { p.to_string() } else { format!("{cwd}/{p}") };
    let comps: Vec<&str> = full.split('/').filter(|c| !c.is_empty() && *c != ".").collect();
    if comps.is_empty() { "/".to_string() } else { format!("/{}", comps.join("/")) }
}

fn strs(v: &Value) -> Vec<String> {
    v.as_array().map(|a| a.iter().map(|s| s.as_str().unwrap().to_string()).collect()).unwrap_or_default()
}

fn query_script(q: &str, name: &str, aliased: bool, i: usize) -> String {
    // an alias of that name must not be substituted where the name is run
    let run = if aliased { format!("\\{name}") } else { name.to_string() };
    let body = match q {
        "v" => format!("command -v {name}"),
        "pv" => format!("command -pv {name}"),
        "V" => format!("command -V {name}"),
        "pV" => format!("command -pV {name}"),
        "type" => format!("type {name}"),
        "plain" => format!("(v=A; v=B {run} a1; mk r \"$v\")"),
        "cmd" => format!("(v=A; v=B command {name} a1; mk r \"$v\")"),
        "cmdp" => format!("(v=A; v=B command -p {name} a1; mk r \"$v\")"),
        "abortplain" => format!("({run} fail; mk r)"),
        "abortcmd" => format!("(command {name} fail; mk r)"),
        "abortcmdp" => format!("(command -p {name} fail; mk r)"),
        other => panic!("bad query {other}"),
    };
    format!("{body}\nmk {i}\n")
}

/// Classification of what `command -V` / `type` wrote (the wording is
/// unspecified; the words below are those of the current implementation).
fn describe(name: &str, cwd: &str, out: &str, st: i64) -> Value {
    if st != 0 {
        return json!({"kind": "notfound", "path": "", "found": false, "text": out});
    }
    let line = out.strip_suffix('\n').unwrap_or(out);
    let desc = line.strip_prefix(&format!("{name}: ")).unwrap_or(line);
    let kind = if desc.starts_with("alias") {
        "alias"
    } else if desc.contains("keyword") || desc.contains("reserved word") {
        "keyword"
    } else if desc.contains("function") {
        "function"
    } else if desc.contains("special built-in") {
        "special"
    } else if desc.contains("built-in") {
        "builtin"
    } else if desc.contains("external") {
        "external"
    } else {
        "odd"
    };
    let path = if kind == "alias" {
        String::new()
    } else {
        match desc.find('/') {
            Some(p) => {
                let rest: String = desc[p..].chars().take_while(|c| !c.is_whitespace() && *c != '\'' && *c != '"').collect();
                canon(cwd, &rest)
            }
            None => String::new(),
        }
    };
    json!({"kind": kind, "path": path, "found": true, "text": out})
}

/// Abstraction of what a query did.
fn observe(q: &str, name: &str, cwd: &str, events: &[Value], mark: &Value) -> Value {
    let st = mark["st"].as_i64().unwrap_or(-1);
    let out = mark["out"].as_str().unwrap_or("");
    match q {
        "v" | "pv" => {
            let mut text = out.strip_suffix('\n').unwrap_or(out).to_string();
            if text.starts_with('/') {
                text = canon(cwd, &text);
            } else if text == format!("alias {name}='probe AL'") || text == format!("alias {}={}", sq(name), sq("probe AL")) {
                // "a command line that represents its alias definition"
                text = name.to_string();
            }
            json!({"out": text, "found": st == 0})
        }
        "V" | "pV" | "type" => describe(name, cwd, out, st),
        "plain" | "cmd" | "cmdp" => {
            let inner = events.iter().find(|e| e["ev"] == "mk" && e["id"] == "r");
            let bi = events.iter().find(|e| e["ev"] == "bi");
            let fnp = events.iter().find(|e| e["ev"] == "probe" && e["args"].get(0).is_some_and(|a| a == "FN"));
            let Some(inner) = inner else {
                return json!({"what": "aborted", "path": "", "st": st, "sp": false, "persist": "?"});
            };
            let ist = inner["st"].as_i64().unwrap_or(-1);
            let persist = match inner["args"].get(0).and_then(|a| a.as_str()) {
                Some("B") => "Y",
                Some("A") => "N",
                _ => "?",
            };
            let execs = inner["execs"].as_array().cloned().unwrap_or_default();
            if let Some(b) = bi {
                let ok = b["name"] == name && strs(&b["args"]) == ["a1"];
                return json!({"what": if ok { "builtin" } else { "builtin-badargs" }, "path": "", "st": 0,
                              "sp": b["special"], "persist": persist});
            }
            if let Some(f) = fnp {
                let ok = strs(&f["args"]) == ["FN", "a1"];
                return json!({"what": if ok { "function" } else { "function-badargs" }, "path": "", "st": 0, "sp": false, "persist": persist});
            }
            if let Some(e) = execs.first() {
                // 2.9.1.6: the command name is argv[0], the other fields follow
                let ok = execs.len() == 1 && strs(&e["args"]) == [name, "a1"];
                return json!({"what": if ok { "exec" } else { "exec-badargs" }, "path": canon(cwd, e["path"].as_str().unwrap()),
                              "st": 0, "sp": false, "persist": persist});
            }
            if ist == 126 || ist == 127 {
                return json!({"what": "fail", "path": "", "st": ist, "sp": false, "persist": persist});
            }
            if REAL.contains(&name) {
                // a real built-in leaves no event: it ran if nothing else did and
                // the search did not fail; "special" is judged by the behaviour
                return json!({"what": "builtin", "path": "", "st": 0, "sp": persist == "Y", "persist": persist});
            }
            json!({"what": "odd", "path": "", "st": ist, "sp": false, "persist": persist})
        }
        "abortplain" | "abortcmd" | "abortcmdp" => {
            let inner = events.iter().any(|e| e["ev"] == "mk" && e["id"] == "r");
            json!(!inner)
        }
        _ => unreachable!(),
    }
}

fn mkdirs(files: &mut Vec<FileSpec>, dirs: &mut Vec<String>, path: &str) {
    // all proper prefixes of path as directories
    let comps: Vec<&str> = path.split('/').filter(|c| !c.is_empty()).collect();
    let mut cur = String::new();
    for c in &comps[..comps.len().saturating_sub(1)] {
        cur.push('/');
        cur.push_str(c);
        if !dirs.contains(&cur) {
            dirs.push(cur.clone());
            files.push(FileSpec::Dir { path: cur.clone() });
        }
    }
}

/// Runs the queries `ask` about `name` in state `s`; returns one observation per query.
pub fn run_state(s: &Value, name: &str, ask: &[String]) -> Result<Vec<Value>, String> {
    let cwd = s["cwd"].as_str().unwrap().to_string();
    let fns = strs(&s["fns"]);
    let als = strs(&s["als"]);
    let mut script = String::new();
    for f in &fns {
        script.push_str(&format!("{f}() {{ probe FN \"$@\"; }}\n"));
    }
    for a in &als {
        script.push_str(&format!("alias {a}='probe AL'\n"));
    }
    // the options last: `portable` restricts which function names may be defined
    if s["posix"].as_bool().unwrap() {
        script.push_str("set -o posixlycorrect\n");
    }
    if s["portable"].as_bool().unwrap() {
        script.push_str("set -o portable\n");
    }
    script.push_str("mk setup\n");
    for (i, q) in ask.iter().enumerate() {
        script.push_str(&query_script(q, name, als.iter().any(|a| a == name), i));
    }
    let mut cfg = ShellCfg::command(&script);
    cfg.step_limit = 1_000_000;
    cfg.cwd = Some(cwd.clone());
    let mut files = vec![];
    let mut dirs: Vec<String> = vec!["/tmp".into(), "/bin".into(), "/home".into()];
    for d in ["/d1", "/d2", "/w", "/w/r", "/std", cwd.as_str()] {
        mkdirs(&mut files, &mut dirs, &format!("{d}/x"));
    }
    let mut native = vec![];
    for f in s["files"].as_array().unwrap() {
        let p = f["p"].as_str().unwrap().to_string();
        mkdirs(&mut files, &mut dirs, &p);
        match f["k"].as_str().unwrap() {
            "exec" => {
                files.push(FileSpec::Regular { path: p.clone(), content: vec![], mode: 0o755 });
                native.push(p);
            }
            "plain" => files.push(FileSpec::Regular { path: p, content: b"plain text\n".to_vec(), mode: 0o644 }),
            "dir" => {
                if !dirs.contains(&p) {
                    dirs.push(p.clone());
                    files.push(FileSpec::Dir { path: p });
                }
            }
            k => return Err(format!("bad file kind {k}")),
        }
    }
    cfg.files = files;
    cfg.env = vec![("PATH".to_string(), strs(&s["path"]).join(":"))];
    let std_path = strs(&s["std"]).join(":");
    cfg.setup = Some(Box::new(move |env: &mut VEnv, state: &Rc<RefCell<SystemState>>| {
        common::register(env, state);
        for (n, t) in CUSTOM {
            env.builtins.insert(n, Builtin::new(*t, bi_main));
        }
        let mut st = state.borrow_mut();
        st.path = UnixString::from(std_path.as_str());
        for p in &native {
            if let Ok(inode) = st.file_system.get(p.as_str()) {
                if let FileBody::Regular { is_native_executable, .. } = &mut inode.borrow_mut().body {
                    *is_native_executable = true;
                }
            }
        }
    }));
    let res = run_shell(cfg);
    match &res.outcome {
        Outcome::Completed => {}
        // a panic, a deadlock or a run-away of the shell is data: no query of this state agrees
        Outcome::Panic(m) => return Ok(ask.iter().map(|_| json!({"panic": m})).collect()),
        other => return Ok(ask.iter().map(|_| json!({"panic": format!("{other:?}")})).collect()),
    }
    // group the events by the numeric marks
    let mut groups: Vec<(Vec<Value>, Value)> = vec![];
    let mut cur = vec![];
    let mut setup_seen = false;
    for e in &res.events {
        if e["ev"] == "mk" {
            let id = e["id"].as_str().unwrap_or("");
            if id == "setup" {
                setup_seen = true;
                if e["st"] != 0 || e["err"] != "" {
                    return Err(format!("state not established: {e}\nscript:\n{script}"));
                }
                cur.clear();
                continue;
            }
            if let Ok(n) = id.parse::<usize>() {
                if n != groups.len() {
                    return Err(format!("marks out of order in\n{script}"));
                }
                groups.push((std::mem::take(&mut cur), e.clone()));
                continue;
            }
        }
        cur.push(e.clone());
    }
    if !setup_seen || groups.len() != ask.len() {
        return Err(format!(
            "only {} of {} queries marked ({}, status {}); stderr: {}\nscript:\n{script}",
            groups.len(),
            ask.len(),
            res.outcome_str(),
            res.status,
            res.stderr_str().chars().take(1500).collect::<String>()
        ));
    }
    Ok(groups.iter().zip(ask).map(|((ev, mk), q)| observe(q, name, &cwd, ev, mk)).collect())
}

// ---------------------------------------------------------------------------
// the same queries on the REAL operating system (family "X" of Gen_CmdSearch)
// ---------------------------------------------------------------------------

/// Pathname of the model (working directory /w) -> pathname relative to the scratch directory.
fn rel_of(p: &str) -> Option<String> {
    if p == "/w" { Some(".".to_string()) } else { p.strip_prefix("/w/").map(|s| s.to_string()) }
}

/// Runs the queries on the real kernel: the mirror runner of yvcommon::real
/// (RealSystem, the generic probe built-ins), executables are `#!/bin/sh`
/// scripts that print `RAN $0 $*`.
pub fn run_state_real(s: &Value, name: &str, ask: &[String]) -> Result<Vec<Value>, String> {
    use yvcommon::real::{RealCfg, run_real};
    if s["cwd"] != "/w" || s["posix"] == true || s["portable"] == true || !strs(&s["als"]).is_empty() {
        return Err("state not supported on the real OS".into());
    }
    let mut files = vec![];
    for f in s["files"].as_array().unwrap() {
        let p = rel_of(f["p"].as_str().unwrap()).ok_or("file outside the working directory")?;
        match f["k"].as_str().unwrap() {
            "exec" => files.push(FileSpec::Regular { path: p, content: b"#!/bin/sh\necho \"RAN $0 $*\"\n".to_vec(), mode: 0o755 }),
            "plain" => files.push(FileSpec::Regular { path: p, content: b"plain text\n".to_vec(), mode: 0o644 }),
            "dir" => files.push(FileSpec::Dir { path: p }),
            k => return Err(format!("bad file kind {k}")),
        }
    }
    for d in ["d1", "d2", "r"] {
        files.push(FileSpec::Dir { path: d.to_string() });
    }
    let mut comps = vec![];
    for d in strs(&s["path"]) {
        comps.push(if d.starts_with('/') {
            match rel_of(&d).ok_or("PATH directory outside the working directory")?.as_str() {
                "." => "$PWD".to_string(),
                r => format!("$PWD/{r}"),
            }
        } else {
            d
        });
    }
    let mut script = format!("probe CWD \"$PWD\"\nPATH=\"{}\"\n", comps.join(":"));
    for f in strs(&s["fns"]) {
        script.push_str(&format!("{f}() {{ probe FN \"$@\"; }}\n"));
    }
    // an absolute name of the model lies under the scratch directory
    let shown = name;
    let name = match name.strip_prefix("/w/") {
        Some(rest) => format!("$PWD/{rest}"),
        None => name.to_string(),
    };
    for (i, q) in ask.iter().enumerate() {
        let body = match q.as_str() {
            "v" => format!("command -v {name}"),
            "V" => format!("command -V {name}"),
            "type" => format!("type {name}"),
            "plain" => format!("(v=A; v=B {name} a1; probe MKR \"$v\")"),
            "cmd" => format!("(v=A; v=B command {name} a1; probe MKR \"$v\")"),
            other => return Err(format!("query {other} not supported on the real OS")),
        };
        script.push_str(&format!("{body}\nprobe MK {i}\necho @@\n"));
    }
    let mut cfg = RealCfg::command(&script, true);
    cfg.files = files;
    let mut res = run_real(&cfg);
    if res.timed_out {
        // the machine is shared: one more try with a generous limit before a hang is taken for data
        cfg.timeout = std::time::Duration::from_secs(60);
        res = run_real(&cfg);
    }
    if res.timed_out {
        return Ok(ask.iter().map(|_| json!({"panic": "timeout"})).collect());
    }
    let stdout = String::from_utf8_lossy(&res.stdout).into_owned();
    let parts: Vec<&str> = stdout.split("@@\n").collect();
    let arg0 = |e: &Value| e["args"].get(0).and_then(|a| a.as_str()).unwrap_or("").to_string();
    let root = res.events.iter().find(|e| e["ev"] == "probe" && arg0(e) == "CWD").and_then(|e| e["args"].get(1)).and_then(|a| a.as_str());
    let Some(root) = root else {
        return Err(format!("real run did not start: status {} stderr {}", res.status, String::from_utf8_lossy(&res.stderr)));
    };
    let to_model = |p: &str| -> String {
        match p.strip_prefix(root) {
            Some(rest) => canon("/w", &format!("/w{rest}")),
            None => canon("/w", p),
        }
    };
    let mut groups: Vec<(Vec<Value>, Value)> = vec![];
    let mut cur = vec![];
    for e in &res.events {
        if e["ev"] == "probe" && arg0(e) == "MK" {
            groups.push((std::mem::take(&mut cur), e.clone()));
        } else if e["ev"] == "probe" && arg0(e) == "CWD" {
        } else {
            cur.push(e.clone());
        }
    }
    if groups.len() != ask.len() || parts.len() < ask.len() {
        return Err(format!("real run: {} of {} queries marked; status {}; stderr: {}\nscript:\n{script}", groups.len(), ask.len(),
                           res.status, String::from_utf8_lossy(&res.stderr)));
    }
    let mut out = vec![];
    for (i, q) in ask.iter().enumerate() {
        let (ev, mk) = &groups[i];
        let st = mk["st"].as_i64().unwrap_or(-1);
        let text = parts[i];
        out.push(match q.as_str() {
            "v" => {
                let t = text.strip_suffix('\n').unwrap_or(text);
                json!({"out": if t.starts_with('/') { to_model(t) } else { t.to_string() }, "found": st == 0})
            }
            "V" | "type" => {
                let shown_abs = if shown.starts_with("/w/") { format!("{root}/{}", &shown[3..]) } else { shown.to_string() };
                let mut d = describe(&shown_abs, "/w", text, st);
                if let Some(p) = d["path"].as_str().filter(|p| !p.is_empty()).map(|p| p.to_string()) {
                    d["path"] = json!(to_model(&p));
                }
                d
            }
            _ => {
                let inner = ev.iter().find(|e| e["ev"] == "probe" && arg0(e) == "MKR");
                let fnp = ev.iter().find(|e| e["ev"] == "probe" && arg0(e) == "FN");
                match inner {
                    None => json!({"what": "aborted", "path": "", "st": st, "sp": false, "persist": "?"}),
                    Some(inner) => {
                        let ist = inner["st"].as_i64().unwrap_or(-1);
                        let persist = match inner["args"].get(1).and_then(|a| a.as_str()) {
                            Some("B") => "Y",
                            Some("A") => "N",
                            _ => "?",
                        };
                        let ran: Vec<&str> = text.lines().filter(|l| l.starts_with("RAN ")).collect();
                        if let Some(f) = fnp {
                            let ok = strs(&f["args"]) == ["FN", "a1"];
                            json!({"what": if ok { "function" } else { "function-badargs" }, "path": "", "st": 0, "sp": false, "persist": persist})
                        } else if let Some(l) = ran.first() {
                            let w: Vec<&str> = l.split(' ').collect();
                            let ok = ran.len() == 1 && w.len() == 3 && w[2] == "a1";
                            json!({"what": if ok { "exec" } else { "exec-badargs" }, "path": to_model(w.get(1).copied().unwrap_or("")),
                                   "st": 0, "sp": false, "persist": persist})
                        } else if ist == 126 || ist == 127 {
                            json!({"what": "fail", "path": "", "st": ist, "sp": false, "persist": persist})
                        } else if REAL.contains(&shown) {
                            json!({"what": "builtin", "path": "", "st": 0, "sp": persist == "Y", "persist": persist})
                        } else {
                            json!({"what": "odd", "path": "", "st": ist, "sp": false, "persist": persist})
                        }
                    }
                }
            }
        });
    }
    Ok(out)
}

// ---------------------------------------------------------------------------
// comparison (the relations AgreeV / AgreeVV / AgreeInv of CmdSearch.tla)
// ---------------------------------------------------------------------------

fn expectation<'a>(q: &str, exp: &'a Value) -> &'a Value {
    match q {
        "v" | "V" | "type" => &exp["v"],
        "pv" | "pV" => &exp["pv"],
        other => &exp[other],
    }
}

fn agrees(q: &str, obs: &Value, e: &Value) -> bool {
    if obs.get("panic").is_some() {
        return false;
    }
    match q {
        "v" | "pv" => e["kind"] == "unsp" || (obs["found"] == e["found"] && obs["out"] == e["text"]),
        "V" | "pV" | "type" => e["kind"] == "unsp" || (obs["found"] == e["found"] && obs["kind"] == e["kind"] && obs["path"] == e["path"]),
        "plain" | "cmd" | "cmdp" => {
            obs["what"] == e["what"]
                && obs["path"] == e["path"]
                && (e["what"] != "fail" || obs["st"] == e["st"])
                && (e["what"] != "builtin" || obs["sp"] == e["sp"])
                && (e["persist"] == "U" || obs["persist"] == e["persist"])
        }
        _ => obs == e,
    }
}

pub fn replay(args: &[String]) -> i32 {
    let threads = util::opt_usize(args, "--threads", 8);
    let mut lines: Vec<Value> = vec![];
    for line in util::open_in(args).lines() {
        let line = line.unwrap();
        if line.trim().is_empty() {
            continue;
        }
        let v: Value = serde_json::from_str(&line).expect("json");
        if v.get("hdr").is_some() {
            // the built-in table of the model must be the one this harness registers
            for b in v["bi"].as_array().unwrap() {
                let (n, t) = (b["n"].as_str().unwrap(), b["t"].as_str().unwrap());
                let known = CUSTOM.iter().any(|(cn, ct)| *cn == n && format!("{ct:?}").to_lowercase() == t) || REAL.contains(&n);
                if !known {
                    eprintln!("built-in {n} ({t}) of the model is not provided by the harness");
                    return 2;
                }
            }
            continue;
        }
        lines.push(v);
    }
    let real = args.iter().any(|a| a == "--real");
    // Real runs are made one at a time: with several harness threads a shell child forked by one
    // thread inherits (until its exec) the descriptor through which another thread is writing an
    // executable script, and executing that script then fails with ETXTBSY (exit status 126).
    let threads = if real { 1 } else { threads };
    let results = par_map(&lines, threads, |v| {
        let (s, name, ask) = (&v["S"], v["name"].as_str().unwrap(), strs(&v["ask"]));
        if real { run_state_real(s, name, &ask) } else { run_state(s, name, &ask) }
    });
    let mut out = util::open_out(args);
    let (mut nq, mut mism, mut unsp) = (0usize, 0usize, 0usize);
    let mut tags: std::collections::BTreeMap<String, usize> = Default::default();
    let mut samples = vec![];
    for (v, res) in lines.iter().zip(results) {
        let obs = match res {
            Ok(o) => o,
            Err(e) => {
                eprintln!("tool error: {e}");
                return 2;
            }
        };
        let ask = strs(&v["ask"]);
        for (q, o) in ask.iter().zip(obs) {
            nq += 1;
            let e = expectation(q, &v["q"]);
            let tag = match q.as_str() {
                "v" | "pv" | "V" | "pV" | "type" => format!("{q}:{}", e["kind"].as_str().unwrap()),
                "plain" | "cmd" | "cmdp" => format!("{q}:{}{}", e["what"].as_str().unwrap(),
                    if e["what"] == "fail" { e["st"].to_string() } else if e["sp"] == true { "-special".into() } else { String::new() }),
                _ => format!("{q}:{e}"),
            };
            *tags.entry(tag).or_insert(0) += 1;
            if e.get("kind").is_some_and(|k| k == "unsp") {
                unsp += 1;
            }
            if samples.len() < 4 && nq % 4001 == 7 {
                samples.push(json!({"name": v["name"], "query": q, "path": v["S"]["path"], "files": v["S"]["files"], "fns": v["S"]["fns"], "expected": e}));
            }
            if !agrees(q, &o, e) {
                mism += 1;
                writeln!(out, "{}", json!({"kind": "cs", "fam": v["fam"], "name": v["name"], "S": v["S"], "query": q, "exp": e, "obs": o})).unwrap();
            }
        }
    }
    out.flush().unwrap();
    println!("{}", json!({"states": lines.len(), "queries": nq, "mismatches": mism, "unspecified": unsp, "tags": tags, "samples": samples}));
    0
}

// ---------------------------------------------------------------------------
// random direction
// ---------------------------------------------------------------------------

const NAMES: &[&str] = &["nno", "nsp", "nma", "nel", "nex", "nsu", ":", "cd", "true", "typeset", "zz"];
const DIRS: &[&str] = &["/d1", "/d2", "", "r", "/nx", "/d1/sub", ".", "/w"];
const DIR_ABS: &[&str] = &["/d1", "/d2", "/w/r", "/d1/sub", "/w", "/std"];

pub fn random(args: &[String]) -> i32 {
    let n = util::opt_usize(args, "--n", 500);
    let threads = util::opt_usize(args, "--threads", 8);
    let mut rng = StdRng::seed_from_u64(util::seed().wrapping_mul(0x9E37_79B9).wrapping_add(0xc5));
    let mut items: Vec<(Value, String, Vec<String>)> = vec![];
    for _ in 0..n {
        let cwd = if rng.gen_bool(0.8) { "/w" } else { "/d1" };
        let mut fns = vec![];
        let mut als = vec![];
        for nm in NAMES {
            if rng.gen_bool(0.3) {
                fns.push(nm.to_string());
            }
            if rng.gen_bool(0.15) {
                als.push(nm.to_string());
            }
        }
        let plen = rng.gen_range(1..=4);
        let mut path: Vec<String> = (0..plen).map(|_| DIRS[rng.gen_range(0..DIRS.len())].to_string()).collect();
        if path.len() == 1 && path[0].is_empty() {
            // PATH set to the null string: implementation-defined (XBD 8.3)
            path.push("/d2".into());
        }
        let std: Vec<String> = if rng.gen_bool(0.5) { vec!["/std".into(), "/d2".into()] } else { vec!["/d2".into(), "/std".into()] };
        let name = if rng.gen_bool(0.85) {
            NAMES[rng.gen_range(0..NAMES.len())].to_string()
        } else if rng.gen_bool(0.6) {
            let base = NAMES[rng.gen_range(0..NAMES.len())];
            let base = if base == ":" { "nno" } else { base };
            format!("{}{base}", ["./", "/d1/", "r/", "/nx/", "/w/r/", "sub/"][rng.gen_range(0..6)])
        } else {
            ["if", "done", "{", "!", "in", "while"][rng.gen_range(0..6)].to_string()
        };
        let mut files = vec![];
        let base = name.rsplit('/').next().unwrap().to_string();
        for d in DIR_ABS {
            for nm in [base.as_str(), "zz"] {
                let p = format!("{d}/{nm}");
                if rng.gen_bool(0.45) && !files.iter().any(|f: &Value| f["p"] == p.as_str()) {
                    let k = ["exec", "exec", "plain", "dir"][rng.gen_range(0..4)];
                    files.push(json!({"p": p, "k": k}));
                }
            }
        }
        let op = if rng.gen_bool(0.7) { 0 } else { rng.gen_range(1..4) };
        let s = json!({"fns": fns, "als": als, "path": path, "std": std, "files": files, "cwd": cwd,
                       "posix": op % 2 == 1, "portable": op >= 2});
        let keyword = ["if", "done", "{", "!", "in", "while"].contains(&name.as_str());
        let mut ask: Vec<String> = ["v", "V", "type", "pv", "pV"].iter().map(|s| s.to_string()).collect();
        if !keyword {
            ask.extend(["plain", "cmd", "cmdp"].iter().map(|s| s.to_string()));
            if CUSTOM.iter().any(|(c, _)| *c == name) {
                ask.extend(["abortplain", "abortcmd", "abortcmdp"].iter().map(|s| s.to_string()));
            }
        }
        items.push((s, name, ask));
    }
    let results = par_map(&items, threads, |(s, name, ask)| run_state(s, name, ask));
    let mut out = util::open_out(args);
    let mut total = 0usize;
    for ((s, name, ask), res) in items.iter().zip(results) {
        let obs = match res {
            Ok(o) => o,
            Err(e) => {
                eprintln!("tool error: {e}");
                return 2;
            }
        };
        for (q, o) in ask.iter().zip(obs) {
            total += 1;
            writeln!(out, "{}", trace_record(s, name, q, &o)).unwrap();
        }
    }
    out.flush().unwrap();
    println!("{}", json!({"states": items.len(), "records": total}));
    0
}

/// A record for Trace_CmdSearch.tla (every field mono-typed).
fn trace_record(s: &Value, name: &str, q: &str, o: &Value) -> Value {
    let panicked = o.get("panic").is_some();
    let sget = |k: &str| o.get(k).and_then(|v| v.as_str()).unwrap_or("").to_string();
    let obs = match q {
        "v" | "pv" => json!({"out": sget("out"), "found": o.get("found").and_then(|b| b.as_bool()).unwrap_or(false)}),
        "V" | "pV" | "type" => json!({"kind": sget("kind"), "path": sget("path"), "found": o.get("found").and_then(|b| b.as_bool()).unwrap_or(false)}),
        "plain" | "cmd" | "cmdp" => json!({"what": sget("what"), "path": sget("path"), "st": o.get("st").and_then(|v| v.as_i64()).unwrap_or(-1),
                                            "sp": o.get("sp").and_then(|b| b.as_bool()).unwrap_or(false), "persist": sget("persist")}),
        _ => json!({"aborted": o.as_bool().unwrap_or(false)}),
    };
    json!({"kind": "cs", "name": name, "S": s, "query": q, "pn": panicked, "obs": obs})
}

/// Re-runs one record ({S, name, query}) and writes the trace record.
pub fn one(rec: &Value, real: bool, out: &mut dyn Write) -> i32 {
    let q = rec["query"].as_str().unwrap().to_string();
    let name = rec["name"].as_str().unwrap();
    let res = if real { run_state_real(&rec["S"], name, std::slice::from_ref(&q)) } else { run_state(&rec["S"], name, std::slice::from_ref(&q)) };
    match res {
        Ok(o) => {
            writeln!(out, "{}", trace_record(&rec["S"], name, &q, &o[0])).unwrap();
            0
        }
        Err(e) => {
            eprintln!("tool error: {e}");
            2
        }
    }
}
