//! Pieces shared by the two halves of the G04 harness: marks that delimit the
//! cases of a batched shell run and collect what was written to the standard
//! streams / which programs were executed since the previous mark.
use serde_json::{Value, json};
use std::cell::RefCell;
use std::collections::BTreeSet;
use std::pin::Pin;
use std::rc::Rc;
use yash_env::builtin::{Builtin, Result as BResult, Type};
use yash_env::io::Fd;
use yash_env::semantics::{ExitStatus, Field};
use yash_env::system::concurrency::ReadAll as _;
use yash_env::system::r#virtual::SystemState;
use yvcommon::shell::{self, VEnv, push_event};

thread_local! {
    static SYS: RefCell<Option<Rc<RefCell<SystemState>>>> = const { RefCell::new(None) };
    static OUT_POS: RefCell<usize> = const { RefCell::new(0) };
    static ERR_POS: RefCell<usize> = const { RefCell::new(0) };
    static SEEN_EXEC: RefCell<BTreeSet<i32>> = const { RefCell::new(BTreeSet::new()) };
}

fn new_text(path: &str, pos: &'static std::thread::LocalKey<RefCell<usize>>) -> String {
    let data = SYS.with(|s| s.borrow().as_ref().and_then(|st| shell::file_content(st, path))).unwrap_or_default();
    let from = pos.with(|p| std::mem::replace(&mut *p.borrow_mut(), data.len()));
    String::from_utf8_lossy(&data[from.min(data.len())..]).into_owned()
}

/// Programs handed to `execve` (recorded by the simulator in the process that
/// called it) by processes not reported before, in order of process creation.
fn new_execs() -> Vec<Value> {
    let mut v = vec![];
    SYS.with(|s| {
        if let Some(st) = s.borrow().as_ref() {
            let st = st.borrow();
            for (pid, p) in st.processes.iter() {
                if let Some((path, args, _envs)) = p.last_exec() {
                    let fresh = SEEN_EXEC.with(|seen| seen.borrow_mut().insert(pid.0));
                    if fresh {
                        let a: Vec<String> = args.iter().map(|c| c.to_string_lossy().into_owned()).collect();
                        v.push(json!({"path": path.to_string_lossy(), "args": a}));
                    }
                }
            }
        }
    });
    v
}

/// `mk ID [args...]`: end of (a part of) case ID: records `$?`, the arguments,
/// what was written to standard output / standard error and which programs
/// were executed since the previous mark.
fn mk_main(env: &mut VEnv, args: Vec<Field>) -> Pin<Box<dyn Future<Output = BResult> + '_>> {
    Box::pin(async move {
        let id = args.first().map(|f| f.value.clone()).unwrap_or_default();
        let rest: Vec<String> = args.iter().skip(1).map(|f| f.value.clone()).collect();
        push_event(json!({"ev": "mk", "id": id, "st": env.exit_status.0, "args": rest,
                          "out": new_text("/dev/stdout", &OUT_POS), "err": new_text("/dev/stderr", &ERR_POS),
                          "execs": new_execs()}));
        BResult::new(ExitStatus(0))
    })
}

/// `slurp`: reads standard input to the end and records the text.
fn slurp_main(env: &mut VEnv, _args: Vec<Field>) -> Pin<Box<dyn Future<Output = BResult> + '_>> {
    Box::pin(async move {
        let data = env.system.read_all(Fd::STDIN).await.unwrap_or_default();
        push_event(json!({"ev": "slurp", "text": String::from_utf8_lossy(&data)}));
        BResult::new(ExitStatus(0))
    })
}

/// To be called from `ShellCfg.setup`.
pub fn register(env: &mut VEnv, st: &Rc<RefCell<SystemState>>) {
    SYS.with(|s| *s.borrow_mut() = Some(Rc::clone(st)));
    OUT_POS.with(|p| *p.borrow_mut() = 0);
    ERR_POS.with(|p| *p.borrow_mut() = 0);
    SEEN_EXEC.with(|p| p.borrow_mut().clear());
    env.builtins.insert("mk", Builtin::new(Type::Mandatory, mk_main));
    env.builtins.insert("slurp", Builtin::new(Type::Mandatory, slurp_main));
}

/// A value as a single-quoted shell string.
pub fn sq(v: &str) -> String {
    format!("'{}'", v.replace('\'', "'\\''"))
}

/// Splits the events of a batched run into the groups ended by the marks
/// `0, 1, 2, ...` (`mk` ids); events after the last mark are dropped.
pub fn split_at_marks(events: &[Value]) -> Result<Vec<(Vec<Value>, Value)>, String> {
    let mut out = vec![];
    let mut cur = vec![];
    for e in events {
        if e["ev"] == "mk" {
            let id: usize = e["id"].as_str().unwrap_or("").parse().map_err(|_| format!("bad mark {e}"))?;
            if id != out.len() {
                return Err(format!("marks out of order: got {id}, expected {}", out.len()));
            }
            out.push((std::mem::take(&mut cur), e.clone()));
        } else {
            cur.push(e.clone());
        }
    }
    Ok(out)
}

/// Parallel map over chunks with `threads` workers (order preserved).
pub fn par_map<T: Sync, R: Send>(items: &[T], threads: usize, f: impl Fn(&T) -> R + Sync) -> Vec<R> {
    use std::sync::Mutex;
    use std::sync::atomic::{AtomicUsize, Ordering};
    let next = AtomicUsize::new(0);
    let results: Mutex<Vec<Option<R>>> = Mutex::new((0..items.len()).map(|_| None).collect());
    std::thread::scope(|s| {
        for _ in 0..threads.max(1) {
            s.spawn(|| {
                loop {
                    let i = next.fetch_add(1, Ordering::SeqCst);
                    if i >= items.len() {
                        break;
                    }
                    let r = f(&items[i]);
                    results.lock().unwrap()[i] = Some(r);
                }
            });
        }
    });
    results.into_inner().unwrap().into_iter().map(|r| r.unwrap()).collect()
}
