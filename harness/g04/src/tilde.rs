//! G04 (A) tilde expansion: running words in the contexts of spec/Tilde.tla on
//! the real shell (simulated OS) and observing what they expand to.
//!
//! spec -> impl: `tilde-replay` takes the lines TLC printed from Gen_Tilde
//!   ({w, o: [[ctx, home, state, fields]...]} after a header with the tables),
//!   renders every word, runs it and reports each disagreement;
//! impl -> spec: `tilde-random` records what the shell does on random words /
//!   HOME values / user databases; Trace_Tilde.tla judges the records.
//!
//! Word units (JSON, as in Expand.tla / Tilde.tla):
//!   {"t":"lit","c":"a"} {"t":"bs","c":"/"} {"t":"sq","s":"~"} {"t":"dq","u":[..]}
//!   {"t":"par","p":"x","m":"none"} {"t":"sp"}
use crate::common::{self, par_map, sq};
use rand::rngs::StdRng;
use rand::{Rng, SeedableRng};
use serde_json::{Value, json};
use std::cell::RefCell;
use std::collections::BTreeMap;
use std::io::{BufRead, Write};
use std::rc::Rc;
use yash_env::path::PathBuf;
use yash_env::system::r#virtual::SystemState;
use yvcommon::sched::Outcome;
use yvcommon::shell::{FileSpec, ShellCfg, VEnv, run_shell};
use yvcommon::util;

pub fn render(units: &[Value]) -> String {
    let mut out = String::new();
    for u in units {
        match u["t"].as_str().unwrap() {
            "lit" => out.push_str(u["c"].as_str().unwrap()),
            "sp" => out.push(' '),
            "bs" => {
                out.push('\\');
                out.push_str(u["c"].as_str().unwrap());
            }
            "sq" => {
                out.push('\'');
                out.push_str(u["s"].as_str().unwrap());
                out.push('\'');
            }
            "dq" => {
                out.push('"');
                out.push_str(&render(u["u"].as_array().unwrap()));
                out.push('"');
            }
            "par" => out.push_str(&format!("${{{}}}", u["p"].as_str().unwrap())),
            t => panic!("bad unit type {t}"),
        }
    }
    out
}

/// One case: a word in a context; `exp` (fields the specification prescribes)
/// is needed to build the `case` scripts, which can only test for equality.
#[derive(Clone)]
pub struct Case {
    pub ctx: String,
    pub w: Vec<Value>,
    pub exp: Option<Vec<String>>,
}

fn case_script(c: &Case, i: usize) -> String {
    let t = render(&c.w);
    let body = match c.ctx.as_str() {
        "arg" => format!("probe {t}"),
        "for" => format!("for i in {t}; do probe \"$i\"; done"),
        "assign" => format!("z={t}; probe \"$z\""),
        "export" => format!("export z={t}; probe \"$z\""),
        "readonly" => format!("readonly z={t}; probe \"$z\""),
        "typeset" => format!("typeset z={t}; probe \"$z\""),
        "cmdexport" => format!("command export z={t}; probe \"$z\""),
        "sw" => format!("probe ${{y-{t}}}"),
        "case" => {
            let e = c.exp.as_ref().expect("case context needs the expected string");
            format!("case {t} in ({}) probe Y;; (*) probe N;; esac", sq(&e[0]))
        }
        "pat" => {
            let e = c.exp.as_ref().expect("pat context needs the subjects");
            format!(
                "case {} in ({t}) probe Y;; (*) probe N;; esac; case {} in ({t}) probe Y;; (*) probe N;; esac",
                sq(&e[0]),
                sq(&e[2])
            )
        }
        "here" => return format!("(slurp <<E_O_F\n{t}\nE_O_F\n)\nmk {i}\n"),
        other => panic!("bad context {other}"),
    };
    format!("({body})\nmk {i}\n")
}

/// Observation of one case from the events between two marks.
fn observe(c: &Case, events: &[Value], mark: &Value) -> Value {
    let st = mark["st"].as_i64().unwrap_or(-1);
    let probes: Vec<&Value> = events.iter().filter(|e| e["ev"] == "probe").collect();
    let args_of = |p: &Value| -> Vec<String> { p["args"].as_array().unwrap().iter().map(|a| a.as_str().unwrap().to_string()).collect() };
    let err = |why: &str| json!({"k": why, "f": [], "status": st, "stderr": mark["err"]});
    if st != 0 {
        return err("err");
    }
    match c.ctx.as_str() {
        "arg" | "sw" | "assign" | "export" | "readonly" | "typeset" | "cmdexport" => {
            if probes.len() != 1 {
                return err("odd");
            }
            json!({"k": "ok", "f": args_of(probes[0])})
        }
        "for" => {
            let mut f = vec![];
            for p in &probes {
                let a = args_of(p);
                if a.len() != 1 {
                    return err("odd");
                }
                f.push(a[0].clone());
            }
            json!({"k": "ok", "f": f})
        }
        "case" => {
            if probes.len() != 1 {
                return err("odd");
            }
            let e = c.exp.as_ref().unwrap();
            if args_of(probes[0]) == ["Y"] { json!({"k": "ok", "f": [e[0]]}) } else { json!({"k": "ok", "f": ["<word of case is not this string>"]}) }
        }
        "pat" => {
            if probes.len() != 2 {
                return err("odd");
            }
            let e = c.exp.as_ref().unwrap();
            json!({"k": "ok", "f": [e[0], args_of(probes[0])[0], e[2], args_of(probes[1])[0]]})
        }
        "here" => {
            let s: Vec<&Value> = events.iter().filter(|e| e["ev"] == "slurp").collect();
            if s.len() != 1 {
                return err("odd");
            }
            let text = s[0]["text"].as_str().unwrap();
            match text.strip_suffix('\n') {
                Some(t) => json!({"k": "ok", "f": [t]}),
                None => err("odd"),
            }
        }
        _ => unreachable!(),
    }
}

/// Shell text establishing HOME and the variables of state `st`.
fn env_setup(home: &Value, st: &Value) -> String {
    let mut s = String::new();
    if home["set"].as_bool().unwrap() {
        s.push_str(&format!("HOME={}\n", sq(home["v"].as_str().unwrap())));
    } else {
        s.push_str("unset HOME\n");
    }
    for name in ["x", "y"] {
        if st[name]["set"].as_bool().unwrap() {
            s.push_str(&format!("{name}={}\n", sq(st[name]["v"].as_str().unwrap())));
        } else {
            s.push_str(&format!("unset {name}\n"));
        }
    }
    if st["ifs"]["set"].as_bool().unwrap() {
        s.push_str(&format!("IFS={}\n", sq(st["ifs"]["v"].as_str().unwrap())));
    } else {
        s.push_str("unset IFS\n");
    }
    s.push_str("unset z\n");
    s
}

/// Runs `cases` (each in a subshell of its own) with the given HOME, user
/// database and shell state; pathname expansion is on and the working
/// directory /w holds files, so an unquoted `*` from HOME would be noticed.
pub fn run_cases(home: &Value, users: &Value, st: &Value, cases: &[Case]) -> Result<Vec<Value>, String> {
    let mut script = env_setup(home, st);
    for (i, c) in cases.iter().enumerate() {
        script.push_str(&case_script(c, i));
    }
    let mut cfg = ShellCfg::command(&script);
    cfg.step_limit = 5_000_000;
    cfg.cwd = Some("/w".to_string());
    cfg.files = vec![
        FileSpec::Dir { path: "/w".into() },
        FileSpec::Dir { path: "/w/d1".into() },
        FileSpec::Regular { path: "/w/f1".into(), content: vec![], mode: 0o644 },
        FileSpec::Regular { path: "/w/f2 x".into(), content: vec![], mode: 0o644 },
        FileSpec::Regular { path: "/w/d1/g".into(), content: vec![], mode: 0o644 },
    ];
    let users: Vec<(String, String)> =
        users.as_array().unwrap().iter().map(|u| (u["n"].as_str().unwrap().to_string(), u["d"].as_str().unwrap().to_string())).collect();
    cfg.setup = Some(Box::new(move |env: &mut VEnv, state: &Rc<RefCell<SystemState>>| {
        common::register(env, state);
        let mut s = state.borrow_mut();
        for (n, d) in &users {
            s.home_dirs.insert(n.clone(), PathBuf::from(d.as_str()));
        }
    }));
    let res = run_shell(cfg);
    let groups = common::split_at_marks(&res.events)?;
    let mut out: Vec<Value> = groups.iter().enumerate().map(|(i, (ev, mk))| observe(&cases[i], ev, mk)).collect();
    if out.len() != cases.len() {
        match &res.outcome {
            Outcome::Completed => {
                return Err(format!(
                    "only {} of {} cases marked (status {}); stderr: {}\nscript:\n{}",
                    out.len(),
                    cases.len(),
                    res.status,
                    res.stderr_str().chars().take(1500).collect::<String>(),
                    script.chars().take(3000).collect::<String>()
                ));
            }
            other => {
                let what = match other {
                    Outcome::Panic(m) => format!("panic: {m}"),
                    Outcome::Deadlock => "deadlock".to_string(),
                    _ => "steplimit".to_string(),
                };
                out.push(json!({"k": what, "f": [], "status": -1, "stderr": ""}));
            }
        }
    }
    Ok(out)
}

/// Runs all cases, re-running what follows a case that ended a batch abnormally.
fn run_all(home: &Value, users: &Value, st: &Value, cases: &[Case]) -> Result<Vec<Value>, String> {
    let mut out = vec![];
    while out.len() < cases.len() {
        let got = run_cases(home, users, st, &cases[out.len()..])?;
        if got.is_empty() {
            return Err("no progress".into());
        }
        out.extend(got);
    }
    Ok(out)
}

fn strings(v: &Value) -> Vec<String> {
    v.as_array().unwrap().iter().map(|s| s.as_str().unwrap().to_string()).collect()
}

const BATCH: usize = 150;

pub fn replay(args: &[String]) -> i32 {
    let threads = util::opt_usize(args, "--threads", 8);
    let mut hdr: Option<Value> = None;
    // (home index, state index) -> cases
    let mut groups: BTreeMap<(usize, usize), Vec<(Case, Vec<String>)>> = BTreeMap::new();
    let mut nwords = 0usize;
    for line in util::open_in(args).lines() {
        let line = line.unwrap();
        if line.trim().is_empty() {
            continue;
        }
        let v: Value = serde_json::from_str(&line).expect("json");
        if v.get("hdr").is_some() {
            hdr = Some(v);
            continue;
        }
        nwords += 1;
        let h = hdr.as_ref().expect("header line first");
        let w = v["w"].as_array().unwrap().clone();
        for o in v["o"].as_array().unwrap() {
            let ctx = h["ctx"][o[0].as_u64().unwrap() as usize - 1].as_str().unwrap().to_string();
            let key = (o[1].as_u64().unwrap() as usize, o[2].as_u64().unwrap() as usize);
            let exp = strings(&o[3]);
            groups.entry(key).or_default().push((Case { ctx, w: w.clone(), exp: Some(exp.clone()) }, exp));
        }
    }
    let Some(h) = hdr else {
        eprintln!("no header line");
        return 2;
    };
    // work items: one batch of one environment
    let mut items: Vec<((usize, usize), Vec<(Case, Vec<String>)>)> = vec![];
    for (key, cases) in groups {
        for chunk in cases.chunks(BATCH) {
            items.push((key, chunk.to_vec()));
        }
    }
    let results = par_map(&items, threads, |(key, cases)| {
        let home = &h["homes"][key.0 - 1];
        let st = &h["states"][key.1 - 1];
        let cs: Vec<Case> = cases.iter().map(|c| c.0.clone()).collect();
        run_all(home, &h["users"], st, &cs)
    });
    let mut out = util::open_out(args);
    let (mut ncases, mut mism, mut runs) = (0usize, 0usize, 0usize);
    let mut per_ctx: BTreeMap<String, usize> = BTreeMap::new();
    let mut samples = vec![];
    for ((key, cases), res) in items.iter().zip(results) {
        runs += 1;
        let obs = match res {
            Ok(o) => o,
            Err(e) => {
                eprintln!("tool error: {e}");
                return 2;
            }
        };
        for ((c, exp), o) in cases.iter().zip(obs) {
            ncases += 1;
            *per_ctx.entry(c.ctx.clone()).or_insert(0) += 1;
            let ok = o["k"] == "ok" && strings(&o["f"]) == *exp;
            if samples.len() < 4 && ncases % 977 == 1 {
                samples.push(json!({"ctx": c.ctx, "text": render(&c.w), "home": h["homes"][key.0 - 1], "fields": exp}));
            }
            if !ok {
                mism += 1;
                writeln!(out, "{}", json!({"ctx": c.ctx, "w": c.w, "text": render(&c.w),
                    "env": {"home": h["homes"][key.0 - 1], "users": h["users"]}, "st": h["states"][key.1 - 1],
                    "exp": exp, "obs": o})).unwrap();
            }
        }
    }
    out.flush().unwrap();
    println!("{}", json!({"words": nwords, "cases": ncases, "mismatches": mism, "runs": runs, "per_ctx": per_ctx, "samples": samples}));
    0
}

// ---------------------------------------------------------------------------
// random direction
// ---------------------------------------------------------------------------

fn pick<'a>(rng: &mut StdRng, xs: &[&'a str]) -> &'a str {
    xs[rng.gen_range(0..xs.len())]
}

fn random_string(rng: &mut StdRng, chars: &[&str], max: usize) -> String {
    let n = rng.gen_range(0..=max);
    (0..n).map(|_| pick(rng, chars)).collect()
}

const DIR_CHARS: &[&str] = &["/", "/", "/", "h", "w", "a", " ", "*", ":", "~", "f", "1"];
const VAL_CHARS: &[&str] = &["~", "~", "u", "a", "b", "/", ":", " ", "="];
const NAMES: &[&str] = &["u", "uu", "ua", "a", "au", "+", "-", "b"];
const CTXS: &[&str] = &["arg", "arg", "for", "assign", "assign", "export", "readonly", "typeset", "cmdexport", "sw", "here"];

fn random_unit(rng: &mut StdRng, ctx: &str) -> Value {
    let r = rng.gen_range(0..100);
    if r < 22 {
        json!({"t": "lit", "c": "~"})
    } else if r < 50 {
        json!({"t": "lit", "c": pick(rng, &["u", "u", "a", "b", "+", "-", "=", "."])})
    } else if r < 62 {
        json!({"t": "lit", "c": "/"})
    } else if r < 74 {
        json!({"t": "lit", "c": ":"})
    } else if r < 79 {
        json!({"t": "bs", "c": pick(rng, &["~", "/", ":", "u", " "])})
    } else if r < 84 {
        json!({"t": "sq", "s": pick(rng, &["~", "u", "/", ":", "a b", "~u"])})
    } else if r < 89 {
        let inner = match rng.gen_range(0..3) {
            0 => json!([{"t": "lit", "c": pick(rng, &["~", ":", "/", "u"])}]),
            1 => json!([{"t": "par", "p": "x", "m": "none"}]),
            _ => json!([{"t": "lit", "c": "~"}, {"t": "lit", "c": "u"}]),
        };
        json!({"t": "dq", "u": inner})
    } else if r < 96 {
        json!({"t": "par", "p": "x", "m": "none"})
    } else if matches!(ctx, "arg" | "for" | "here") {
        json!({"t": "sp"})
    } else {
        json!({"t": "lit", "c": "a"})
    }
}

pub fn random(args: &[String]) -> i32 {
    let n = util::opt_usize(args, "--n", 1000);
    let threads = util::opt_usize(args, "--threads", 8);
    let mut rng = StdRng::seed_from_u64(util::seed().wrapping_mul(0x9E37_79B9).wrapping_add(0x6a04));
    // environments with a batch of cases each
    let mut items: Vec<(Value, Value, Value, Vec<Case>)> = vec![];
    let mut left = n;
    while left > 0 {
        let home = match rng.gen_range(0..10) {
            0 => json!({"set": false, "v": ""}),
            1 => json!({"set": true, "v": ""}),
            2 => json!({"set": true, "v": "/"}),
            _ => json!({"set": true, "v": random_string(&mut rng, DIR_CHARS, 6)}),
        };
        let mut users = vec![];
        for name in NAMES {
            if rng.gen_bool(0.45) {
                users.push(json!({"n": name, "d": random_string(&mut rng, DIR_CHARS, 6)}));
            }
        }
        let ifs = match rng.gen_range(0..5) {
            0 => json!({"set": false, "v": ""}),
            1 => json!({"set": true, "v": "/"}),
            2 => json!({"set": true, "v": ":"}),
            3 => json!({"set": true, "v": ""}),
            _ => json!({"set": true, "v": " \t\n"}),
        };
        let st = json!({"x": {"set": true, "v": random_string(&mut rng, VAL_CHARS, 4)}, "y": {"set": false, "v": ""},
                        "pos": [], "ifs": ifs, "nounset": false, "st": "0"});
        let k = left.min(rng.gen_range(20..60));
        let mut cases = vec![];
        for _ in 0..k {
            let ctx = pick(&mut rng, CTXS);
            let len = rng.gen_range(1..=7);
            let mut w: Vec<Value> = (0..len).map(|_| random_unit(&mut rng, ctx)).collect();
            if rng.gen_bool(0.5) {
                w[0] = json!({"t": "lit", "c": "~"});
            }
            // a word of a command must not start or end with a blank; the
            // first word after `probe` may be anything
            while w.first().is_some_and(|u| u["t"] == "sp") {
                w.remove(0);
            }
            while w.last().is_some_and(|u| u["t"] == "sp") {
                w.pop();
            }
            if w.is_empty() {
                w.push(json!({"t": "lit", "c": "~"}));
            }
            cases.push(Case { ctx: ctx.to_string(), w, exp: None });
        }
        left -= k;
        items.push((home, json!(users), st, cases));
    }
    let results = par_map(&items, threads, |(home, users, st, cases)| run_all(home, users, st, cases));
    let mut out = util::open_out(args);
    let mut total = 0usize;
    for ((home, users, st, cases), res) in items.iter().zip(results) {
        let obs = match res {
            Ok(o) => o,
            Err(e) => {
                eprintln!("tool error: {e}");
                return 2;
            }
        };
        for (c, o) in cases.iter().zip(obs) {
            total += 1;
            writeln!(out, "{}", json!({"kind": "tilde", "ctx": c.ctx, "w": c.w, "text": render(&c.w),
                "env": {"home": home, "users": users}, "st": st,
                "obs": {"k": o["k"], "f": o["f"]}})).unwrap();
        }
    }
    out.flush().unwrap();
    println!("{}", json!({"records": total}));
    0
}

/// Re-runs one record ({ctx, w, env, st[, exp]}) and writes the observation as
/// a trace record.
pub fn one(rec: &Value, out: &mut dyn Write) -> i32 {
    let exp = rec.get("exp").filter(|e| e.is_array()).map(strings);
    let c = Case { ctx: rec["ctx"].as_str().unwrap().to_string(), w: rec["w"].as_array().unwrap().clone(), exp };
    match run_all(&rec["env"]["home"], &rec["env"]["users"], &rec["st"], std::slice::from_ref(&c)) {
        Ok(o) => {
            writeln!(out, "{}", json!({"kind": "tilde", "ctx": c.ctx, "w": c.w, "text": render(&c.w), "env": rec["env"],
                "st": rec["st"], "obs": {"k": o[0]["k"], "f": o[0]["f"]}})).unwrap();
            0
        }
        Err(e) => {
            eprintln!("tool error: {e}");
            2
        }
    }
}
