//! Conformance harness for specification-growth module g04 (see /verif/DESIGN.md 12.6).
fn main() {
    eprintln!("yv-g04: not implemented yet");
    std::process::exit(2);
}
