//! Conformance harness for specification-growth module G04 (see /verif/DESIGN.md 12.6):
//! (A) tilde expansion (spec/Tilde.tla), (B) command search and the `command` /
//! `type` built-ins (spec/CmdSearch.tla).
//!
//! spec -> impl:  `tilde-replay` / `cs-replay` take the vectors TLC enumerated
//!                (Gen_Tilde, Gen_CmdSearch), run them in the real shell on the
//!                simulated OS and report every disagreement;
//! impl -> spec:  `tilde-random` / `cs-random` record what the real shell does on
//!                random inputs; Trace_Tilde.tla / Trace_CmdSearch.tla judge the records;
//! `cs-replay --real`: the same comparison on the REAL operating system (family "X"
//!                of Gen_CmdSearch: every directory under the working directory);
//! `one`:         re-runs a single replay record and writes the trace record.
mod cmdsearch;
mod common;
mod tilde;

use std::io::Write as _;
use yvcommon::util;

fn one(args: &[String]) -> i32 {
    let mut line = String::new();
    std::io::BufRead::read_line(&mut util::open_in(args), &mut line).unwrap();
    let rec: serde_json::Value = serde_json::from_str(&line).expect("json");
    let mut out = util::open_out(args);
    let real = args.iter().any(|a| a == "--real");
    let rc = if rec["kind"] == "cs" { cmdsearch::one(&rec, real, &mut *out) } else { tilde::one(&rec, &mut *out) };
    out.flush().unwrap();
    rc
}

fn main() {
    yvcommon::real::maybe_child_main();
    util::quiet_panics();
    let args: Vec<String> = std::env::args().collect();
    if args.len() < 2 {
        eprintln!("usage: yv-g04 <tilde-replay|tilde-random|cs-replay|cs-random|one> [--in F] [--out F] [--n N] [--threads T]");
        std::process::exit(2);
    }
    let rest = &args[2..];
    let code = match args[1].as_str() {
        "tilde-replay" => tilde::replay(rest),
        "tilde-random" => tilde::random(rest),
        "cs-replay" => cmdsearch::replay(rest),
        "cs-random" => cmdsearch::random(rest),
        "one" => one(rest),
        other => {
            eprintln!("unknown subcommand {other}");
            2
        }
    };
    std::process::exit(code);
}
