//! yv-g17: binding of spec/ConcSelect.tla to yash-env's `Concurrent<S>`.
//!
//!   replay --in gen.ndjson --out mism.ndjson --np N --ns N --nt N --base "1,2" [--threads T]
//!       every line is a history printed by TLC (Gen_ConcSelect_*.cfg): the task
//!       scripts and the external schedule are extracted from it, it is run on the
//!       real Concurrent<Spy<VirtualSystem>>, and every event (with the projection
//!       of the world after it) is compared with the one the specification
//!       prescribes.
//!   random --n N --out trace.ndjson [--threads T]
//!       seeded random larger systems under a random driver with random external
//!       events; the events are recorded for Trace_ConcSelect.
//!   one --in case.json --out trace.ndjson
//!       re-run one random system (replay of a recorded violation).
mod cmp;
mod ctx;
mod run;
mod spy;

use ctx::{Ev, Mode};
use rand::rngs::StdRng;
use rand::{Rng, SeedableRng};
use run::{Op, World};
use serde_json::{Value, json};
use std::collections::BTreeMap;
use std::io::{BufRead, Write};
use yvcommon::util::{opt, opt_usize, open_in, open_out, quiet_panics, seed};

fn parse_base(s: &str) -> Vec<i64> {
    s.split(',').filter(|x| !x.is_empty()).map(|x| x.parse().unwrap()).collect()
}

struct Stats {
    histories: u64,
    events: u64,
    kinds: BTreeMap<String, u64>,
    nontrivial: u64,
    mismatches: u64,
}

impl Stats {
    fn new() -> Stats {
        Stats { histories: 0, events: 0, kinds: BTreeMap::new(), nontrivial: 0, mismatches: 0 }
    }
    fn add(&mut self, o: &Stats) {
        self.histories += o.histories;
        self.events += o.events;
        self.nontrivial += o.nontrivial;
        self.mismatches += o.mismatches;
        for (k, v) in &o.kinds {
            *self.kinds.entry(k.clone()).or_insert(0) += v;
        }
    }
    fn note(&mut self, log: &[Ev]) {
        self.events += log.len() as u64;
        let mut nt = false;
        for e in log {
            let k = match e.e.as_str() {
                "rd" | "wr" | "sr" | "res" | "se" => format!("{}:{}", e.e, e.r),
                "sc" => format!("sc:{}{}", if e.a == -1 { "block" } else if e.a == 0 { "poll" } else { "timeout" }, if e.b == 1 { "+mask" } else { "" }),
                "op" => format!("op:{}", e.r),
                _ => e.e.clone(),
            };
            *self.kinds.entry(k).or_insert(0) += 1;
            if e.e == "se" && !e.x.is_empty() {
                nt = true;
            }
        }
        if nt {
            self.nontrivial += 1;
        }
    }
}

fn scripts_of(h: &[Ev], nt: usize) -> Vec<Vec<Op>> {
    let mut s = vec![vec![]; nt + 1];
    for e in h {
        if e.e == "op" {
            s[e.t as usize].push(Op { k: e.r.clone(), a: e.a, b: e.b });
        }
    }
    s
}

/// Were two operations on the descriptor whose O_NONBLOCK flag deviates in
/// flight before event `index` (the shape of finding G17-F1)?
fn overlap_at(h: &[Ev], index: usize, b: &ctx::Mismatch, np: usize, nt: usize) -> bool {
    let (Some(e), Some(g)) = (&b.expected, &b.got) else { return false };
    if e.w.len() != g.w.len() {
        return false;
    }
    let Some(j) = (0..e.w.len()).find(|&j| e.w[j] != g.w[j]) else { return false };
    if j < 1 + 3 * np || j >= 1 + 5 * np {
        return false;
    }
    let fd = 3 + (j - (1 + 3 * np)) as i64;
    let mut cur: Vec<Option<i64>> = vec![None; nt + 1];
    for ev in &h[..index.min(h.len())] {
        match ev.e.as_str() {
            "op" => cur[ev.t as usize] = if matches!(ev.r.as_str(), "R" | "W" | "WA") { Some(ev.a) } else { None },
            "res" | "cancel" => cur[ev.t as usize] = None,
            _ => {}
        }
    }
    cur.iter().filter(|c| **c == Some(fd)).count() >= 2
}

fn replay_one(h: Vec<Ev>, np: usize, ns: usize, nt: usize, base: &[i64]) -> (Vec<Ev>, Option<ctx::Mismatch>) {
    let scripts = scripts_of(&h, nt);
    let mut w = World::new(np, ns, nt, base, Mode::Replay { h, i: 0 });
    for t in 1..=nt {
        w.tasks[t].ops = scripts[t].clone();
    }
    w.replay();
    let log = w.ctx.log.borrow().clone();
    let bad = w.ctx.bad.borrow().clone();
    (log, bad)
}

fn cmd_replay(args: &[String]) {
    let np = opt_usize(args, "--np", 1);
    let ns = opt_usize(args, "--ns", 1);
    let nt = opt_usize(args, "--nt", 2);
    let base = parse_base(opt(args, "--base").unwrap_or(""));
    let threads = opt_usize(args, "--threads", 4).max(1);
    let cfg = opt(args, "--cfg").unwrap_or("").to_string();
    let lines: Vec<String> = open_in(args).lines().map(|l| l.unwrap()).filter(|l| !l.trim().is_empty()).collect();
    let chunk = lines.len().div_ceil(threads).max(1);
    let mut total = Stats::new();
    let mut out = open_out(args);
    let results: Vec<(Stats, Vec<Value>)> = std::thread::scope(|sc| {
        let hs: Vec<_> = lines
            .chunks(chunk)
            .map(|part| {
                let base = base.clone();
                let cfg = cfg.clone();
                sc.spawn(move || {
                    quiet_panics();
                    let mut st = Stats::new();
                    let mut mism = vec![];
                    for line in part {
                        let v: Value = serde_json::from_str(line).expect("history line");
                        let h: Vec<Ev> = v.as_array().unwrap().iter().map(Ev::from_tuple).collect();
                        let (log, bad) = replay_one(h.clone(), np, ns, nt, &base);
                        st.histories += 1;
                        st.note(&log);
                        if let Some(b) = bad {
                            st.mismatches += 1;
                            let opsig: Vec<String> = h.iter().filter(|e| e.e == "op").map(|e| format!("{}{}:{}{},{}", "t", e.t, e.r, e.a, e.b)).collect();
                            mism.push(json!({
                                "key": {"dir": "spec->impl", "cfg": cfg, "symptom": b.symptom, "ops": opsig.join(" "),
                                        "overlap": overlap_at(&h, b.index, &b, np, nt)},
                                "index": b.index,
                                "expected": b.expected.as_ref().map(|e| e.tuple()),
                                "got": b.got.as_ref().map(|e| e.tuple()),
                                "history": v,
                                "real": log.iter().map(|e| e.tuple()).collect::<Vec<_>>(),
                                "np": np, "ns": ns, "nt": nt, "base": base,
                            }));
                        }
                    }
                    (st, mism)
                })
            })
            .collect();
        hs.into_iter().map(|h| h.join().expect("thread")).collect()
    });
    for (st, mism) in results {
        total.add(&st);
        for m in mism {
            writeln!(out, "{}", m).unwrap();
        }
    }
    out.flush().unwrap();
    println!(
        "{}",
        json!({"histories": total.histories, "events": total.events, "kinds": total.kinds, "nontrivial": total.nontrivial, "mismatches": total.mismatches})
    );
}

pub const RNT: usize = 8;
pub const RNP: usize = 3;
pub const RNS: usize = 3;

fn random_scripts(rng: &mut StdRng) -> (usize, Vec<Vec<Op>>, Vec<i64>) {
    let nt = rng.gen_range(2..=RNT);
    let mut scripts = vec![vec![]; RNT + 1];
    // 12 operations or so, spread over the tasks
    let mut budget: usize = 12;
    for t in 1..=nt {
        let n = rng.gen_range(1..=3).min(budget.max(1));
        budget = budget.saturating_sub(n);
        for _ in 0..n {
            let c = rng.gen_range(0..100);
            let p = rng.gen_range(1..=RNP as i64);
            let op = if c < 25 {
                Op { k: "R".into(), a: 2 * p + 1, b: rng.gen_range(1..=2) }
            } else if c < 35 {
                Op { k: "W".into(), a: 2 * p + 2, b: rng.gen_range(1..=3) }
            } else if c < 47 {
                Op { k: "WA".into(), a: 2 * p + 2, b: rng.gen_range(1..=4) }
            } else if c < 62 {
                Op { k: "S".into(), a: rng.gen_range(0..=3), b: 0 }
            } else if c < 77 {
                Op { k: "G".into(), a: 0, b: 0 }
            } else if c < 90 {
                Op { k: "D".into(), a: rng.gen_range(1..=RNS as i64), b: rng.gen_range(1..=2) }
            } else if c < 95 {
                Op { k: "C".into(), a: rng.gen_range(3..3 + 2 * RNP as i64), b: 0 }
            } else {
                Op { k: "Y".into(), a: 0, b: 0 }
            };
            scripts[t].push(op);
        }
    }
    let mut base = vec![];
    for s in 1..=RNS as i64 {
        if rng.gen_bool(0.3) {
            base.push(s);
        }
    }
    (nt, scripts, base)
}

fn random_one(sd: u64, idx: u64) -> Vec<Ev> {
    let mut rng = StdRng::seed_from_u64(sd.wrapping_mul(0x9E37_79B9_7F4A_7C15).wrapping_add(idx));
    let (_nt, scripts, base) = random_scripts(&mut rng);
    let hook_rng = StdRng::seed_from_u64(rng.r#gen());
    let pext = [0.05, 0.15, 0.3][rng.gen_range(0..3)];
    let mut w = World::new(RNP, RNS, RNT, &base, Mode::Random { rng: hook_rng, pext, left: 10 });
    for t in 1..=RNT {
        w.tasks[t].ops = scripts[t].clone();
        if scripts[t].is_empty() {
            w.tasks[t].state = run::TS::Done; // not part of this system
        }
    }
    let mut spur = 3;
    w.random_run(&mut rng, 60, &mut spur);
    let mut log = vec![Ev::new("reset", 0, idx as i64, sd as i64, "").x(base.clone())];
    log[0].w = vec![];
    log.extend(w.ctx.log.borrow().iter().cloned());
    log
}

fn cmd_random(args: &[String]) {
    let n = opt_usize(args, "--n", 1000) as u64;
    let threads = opt_usize(args, "--threads", 4).max(1) as u64;
    let sd = seed();
    let mut out = open_out(args);
    let per = n.div_ceil(threads);
    let results: Vec<(Stats, Vec<String>)> = std::thread::scope(|sc| {
        let hs: Vec<_> = (0..threads)
            .map(|k| {
                sc.spawn(move || {
                    quiet_panics();
                    let mut st = Stats::new();
                    let mut lines = vec![];
                    for idx in (k * per)..((k + 1) * per).min(n) {
                        let log = random_one(sd, idx);
                        st.histories += 1;
                        st.note(&log);
                        for e in &log {
                            lines.push(e.record().to_string());
                        }
                    }
                    (st, lines)
                })
            })
            .collect();
        hs.into_iter().map(|h| h.join().expect("thread")).collect()
    });
    let mut total = Stats::new();
    for (st, lines) in results {
        total.add(&st);
        for l in lines {
            writeln!(out, "{}", l).unwrap();
        }
    }
    out.flush().unwrap();
    println!(
        "{}",
        json!({"runs": total.histories, "events": total.events, "kinds": total.kinds, "nontrivial": total.nontrivial})
    );
}

fn cmd_one(args: &[String]) {
    quiet_panics();
    let mut s = String::new();
    open_in(args).read_to_string(&mut s).unwrap();
    let v: Value = serde_json::from_str(&s).expect("case");
    let mut out = open_out(args);
    if let Some(h) = v.get("history") {
        let h: Vec<Ev> = h.as_array().unwrap().iter().map(Ev::from_tuple).collect();
        let base: Vec<i64> = v["base"].as_array().unwrap().iter().map(|x| x.as_i64().unwrap()).collect();
        let (log, bad) = replay_one(h, v["np"].as_u64().unwrap() as usize, v["ns"].as_u64().unwrap() as usize, v["nt"].as_u64().unwrap() as usize, &base);
        for e in &log {
            writeln!(out, "{}", e.tuple()).unwrap();
        }
        out.flush().unwrap();
        match bad {
            Some(b) => println!("{}", json!({"mismatch": true, "symptom": b.symptom, "index": b.index, "expected": b.expected.map(|e| e.tuple()), "got": b.got.map(|e| e.tuple())})),
            None => println!("{}", json!({"mismatch": false})),
        }
    } else {
        let log = random_one(v["seed"].as_u64().unwrap(), v["idx"].as_u64().unwrap());
        for e in &log {
            writeln!(out, "{}", e.record()).unwrap();
        }
        out.flush().unwrap();
        println!("{}", json!({"events": log.len()}));
    }
}

/// Demonstration of finding G17-F1 on the real code (prints the real events).
fn cmd_f1demo() {
    quiet_panics();
    let mut w = World::new(1, 1, 2, &[], Mode::Plain);
    for t in 1..=2 {
        w.tasks[t].ops = vec![Op { k: "R".into(), a: 3, b: 1 }];
    }
    w.poll_task(1);
    w.poll_task(2);
    let x = Ev::new("xw", 0, 1, 1, "");
    w.ctx.apply_ext(&x).unwrap();
    w.ctx.emit(x);
    w.select(false, None);
    w.poll_task(1);
    w.poll_task(2);
    let x = Ev::new("xw", 0, 1, 1, "");
    w.ctx.apply_ext(&x).unwrap();
    w.ctx.emit(x);
    println!("woken(2) directly by the pipe, not by select: {}", w.woken(2));
    for e in w.ctx.log.borrow().iter() {
        println!("{}", e.tuple());
    }
}

fn main() {
    let args: Vec<String> = std::env::args().skip(1).collect();
    match args.first().map(|s| s.as_str()) {
        Some("f1demo") => cmd_f1demo(),
        Some("replay") => cmd_replay(&args[1..]),
        Some("random") => cmd_random(&args[1..]),
        Some("one") => cmd_one(&args[1..]),
        _ => {
            eprintln!("usage: yv-g17 replay|random|one ...");
            std::process::exit(2);
        }
    }
}
