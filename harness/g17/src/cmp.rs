//! Comparison of an event the specification prescribes with the event the real
//! code produced.  Returns a short symptom (used as the key of a violation).
use crate::ctx::{Ctx, Ev};

fn wname(ctx: &Ctx, i: usize) -> &'static str {
    let np = ctx.np;
    let ns = ctx.ns;
    if i == 0 {
        "now"
    } else if i < 1 + np {
        "occ"
    } else if i < 1 + 3 * np {
        "open"
    } else if i < 1 + 5 * np {
        "nb"
    } else if i < 1 + 5 * np + ns {
        "blk"
    } else {
        "pnd"
    }
}

pub fn differ(exp: &Ev, got: &Ev, ctx: &Ctx) -> Option<String> {
    if exp.e != got.e {
        return Some(format!("event:{}->{}", exp.e, got.e));
    }
    let k = &exp.e;
    if exp.t != got.t {
        return Some(format!("{k}.task"));
    }
    if exp.a != got.a {
        return Some(format!("{k}.a"));
    }
    if exp.b != got.b {
        return Some(format!("{k}.b"));
    }
    if exp.r != got.r {
        return Some(format!("{k}.result:{}->{}", exp.r, got.r));
    }
    if exp.x != got.x {
        return Some(format!("{k}.x"));
    }
    if k == "se" {
        // y: timer tasks in wake order; any order consistent with the deadlines (z of the model)
        let mut a = exp.y.clone();
        let mut b = got.y.clone();
        a.sort();
        b.sort();
        if a != b {
            return Some("se.timers".into());
        }
        let dl = |t: i64| exp.y.iter().position(|&u| u == t).map(|i| exp.z[i]).unwrap_or(0);
        for w in got.y.windows(2) {
            if dl(w[0]) > dl(w[1]) {
                return Some("se.timer-order".into());
            }
        }
    } else {
        if exp.y != got.y {
            return Some(format!("{k}.y"));
        }
        if exp.z != got.z {
            return Some(format!("{k}.z"));
        }
    }
    if !exp.w.is_empty() && exp.w != got.w {
        if exp.w.len() != got.w.len() {
            return Some(format!("{k}:w.len"));
        }
        for i in 0..exp.w.len() {
            if exp.w[i] != got.w[i] {
                let n = wname(ctx, i);
                if n == "nb" {
                    let how = if exp.w[i] == 1 { "cleared-in-flight" } else { "left-set" };
                    return Some(format!("{k}:w.nb:{how}"));
                }
                return Some(format!("{k}:w.{n}"));
            }
        }
    }
    None
}
