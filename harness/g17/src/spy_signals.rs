impl Signals for Spy {
    const SIGABRT: Number = VirtualSystem::SIGABRT;
    const SIGALRM: Number = VirtualSystem::SIGALRM;
    const SIGBUS: Number = VirtualSystem::SIGBUS;
    const SIGCHLD: Number = VirtualSystem::SIGCHLD;
    const SIGCLD: Option<Number> = VirtualSystem::SIGCLD;
    const SIGCONT: Number = VirtualSystem::SIGCONT;
    const SIGEMT: Option<Number> = VirtualSystem::SIGEMT;
    const SIGFPE: Number = VirtualSystem::SIGFPE;
    const SIGHUP: Number = VirtualSystem::SIGHUP;
    const SIGILL: Number = VirtualSystem::SIGILL;
    const SIGINFO: Option<Number> = VirtualSystem::SIGINFO;
    const SIGINT: Number = VirtualSystem::SIGINT;
    const SIGIO: Option<Number> = VirtualSystem::SIGIO;
    const SIGIOT: Number = VirtualSystem::SIGIOT;
    const SIGKILL: Number = VirtualSystem::SIGKILL;
    const SIGLOST: Option<Number> = VirtualSystem::SIGLOST;
    const SIGPIPE: Number = VirtualSystem::SIGPIPE;
    const SIGPOLL: Option<Number> = VirtualSystem::SIGPOLL;
    const SIGPROF: Number = VirtualSystem::SIGPROF;
    const SIGPWR: Option<Number> = VirtualSystem::SIGPWR;
    const SIGQUIT: Number = VirtualSystem::SIGQUIT;
    const SIGSEGV: Number = VirtualSystem::SIGSEGV;
    const SIGSTKFLT: Option<Number> = VirtualSystem::SIGSTKFLT;
    const SIGSTOP: Number = VirtualSystem::SIGSTOP;
    const SIGSYS: Number = VirtualSystem::SIGSYS;
    const SIGTERM: Number = VirtualSystem::SIGTERM;
    const SIGTHR: Option<Number> = VirtualSystem::SIGTHR;
    const SIGTRAP: Number = VirtualSystem::SIGTRAP;
    const SIGTSTP: Number = VirtualSystem::SIGTSTP;
    const SIGTTIN: Number = VirtualSystem::SIGTTIN;
    const SIGTTOU: Number = VirtualSystem::SIGTTOU;
    const SIGURG: Number = VirtualSystem::SIGURG;
    const SIGUSR1: Number = VirtualSystem::SIGUSR1;
    const SIGUSR2: Number = VirtualSystem::SIGUSR2;
    const SIGVTALRM: Number = VirtualSystem::SIGVTALRM;
    const SIGWINCH: Number = VirtualSystem::SIGWINCH;
    const SIGXCPU: Number = VirtualSystem::SIGXCPU;
    const SIGXFSZ: Number = VirtualSystem::SIGXFSZ;

    #[inline]
    fn sigrt_range(&self) -> Option<RangeInclusive<Number>> {
        (&self.inner).sigrt_range()
    }

    const NAMED_SIGNALS: &'static [(&'static str, Option<Number>)] = VirtualSystem::NAMED_SIGNALS;

    #[inline]
    fn iter_sigrt(&self) -> impl DoubleEndedIterator<Item = Number> + use<> {
        (&self.inner).iter_sigrt()
    }
    #[inline]
    fn to_signal_number<N: Into<RawNumber>>(&self, number: N) -> Option<Number> {
        (&self.inner).to_signal_number(number)
    }
    #[inline]
    fn sig2str<N: Into<RawNumber>>(&self, signal: N) -> Option<Cow<'static, str>> {
        (&self.inner).sig2str(signal)
    }
    #[inline]
    fn str2sig(&self, name: &str) -> Option<Number> {
        (&self.inner).str2sig(name)
    }
    #[inline]
    fn validate_signal(&self, number: RawNumber) -> Option<(Name, Number)> {
        (&self.inner).validate_signal(number)
    }
    #[inline]
    fn signal_name_from_number(&self, number: Number) -> Name {
        (&self.inner).signal_name_from_number(number)
    }
    #[inline]
    fn signal_number_from_name(&self, name: Name) -> Option<Number> {
        (&self.inner).signal_number_from_name(name)
    }
}
