//! Shared context of one run: the event log (vocabulary of spec/ConcSelect.tla),
//! the observable projection of the world, external events and the injection
//! hook (replay of a TLC history, or seeded random injection).
use rand::rngs::StdRng;
use rand::Rng;
use serde_json::{Value, json};
use std::cell::{Cell, RefCell};
use std::collections::BTreeMap;
use std::rc::Rc;
use std::time::{Duration, Instant};
use futures_util::FutureExt as _;
use yash_env::io::Fd;
use yash_env::signal::Number;
use yash_env::system::r#virtual::{FileBody, Inode, SIGINT, SIGTERM, SIGUSR1, SIGUSR2, VirtualSystem};
use yash_env::system::{Close as _, Disposition, Fcntl as _, Read as _, SendSignal as _, Sigset as _, Write as _};

/// bytes per model unit (= PIPE_BUF of the simulated system)
pub const U: usize = yash_env::system::r#virtual::PIPE_BUF;

#[derive(Clone, Debug, PartialEq)]
pub struct Ev {
    pub e: String,
    pub t: i64,
    pub a: i64,
    pub b: i64,
    pub r: String,
    pub x: Vec<i64>,
    pub y: Vec<i64>,
    pub z: Vec<i64>,
    pub w: Vec<i64>,
}

impl Ev {
    pub fn new(e: &str, t: i64, a: i64, b: i64, r: &str) -> Ev {
        Ev { e: e.into(), t, a, b, r: r.into(), x: vec![], y: vec![], z: vec![], w: vec![] }
    }
    pub fn x(mut self, v: Vec<i64>) -> Ev {
        self.x = v;
        self
    }
    pub fn y(mut self, v: Vec<i64>) -> Ev {
        self.y = v;
        self
    }
    pub fn z(mut self, v: Vec<i64>) -> Ev {
        self.z = v;
        self
    }
    /// from the tuple TLC prints: [e, t, a, b, r, x, y, z, w]
    pub fn from_tuple(v: &Value) -> Ev {
        let a = v.as_array().expect("event tuple");
        let ints = |v: &Value| -> Vec<i64> { v.as_array().map(|a| a.iter().map(|x| x.as_i64().unwrap()).collect()).unwrap_or_default() };
        Ev {
            e: a[0].as_str().unwrap().into(),
            t: a[1].as_i64().unwrap(),
            a: a[2].as_i64().unwrap(),
            b: a[3].as_i64().unwrap(),
            r: a[4].as_str().unwrap().into(),
            x: ints(&a[5]),
            y: ints(&a[6]),
            z: ints(&a[7]),
            w: ints(&a[8]),
        }
    }
    pub fn tuple(&self) -> Value {
        json!([self.e, self.t, self.a, self.b, self.r, self.x, self.y, self.z, self.w])
    }
    pub fn record(&self) -> Value {
        json!({"e": self.e, "t": self.t, "a": self.a, "b": self.b, "r": self.r, "x": self.x, "y": self.y, "z": self.z, "w": self.w})
    }
    pub fn is_ext(&self) -> bool {
        matches!(self.e.as_str(), "xw" | "xr" | "xc" | "xs" | "xt" | "xn")
    }
}

#[derive(Clone, Debug)]
pub struct Mismatch {
    pub index: usize,
    pub symptom: String,
    pub expected: Option<Ev>,
    pub got: Option<Ev>,
}

pub enum Mode {
    /// nothing is injected
    Plain,
    /// follow a history printed by TLC
    Replay { h: Vec<Ev>, i: usize },
    /// seeded random injection of external events at the permitted points
    Random { rng: StdRng, pext: f64, left: usize },
}

pub struct Ctx {
    pub vs: VirtualSystem,
    pub t0: Instant,
    pub np: usize,
    pub ns: usize,
    pub inodes: Vec<Rc<RefCell<Inode>>>,
    pub cur: Cell<i64>,
    pub log: RefCell<Vec<Ev>>,
    pub mode: RefCell<Mode>,
    pub bad: RefCell<Option<Mismatch>>,
    pub counts: RefCell<BTreeMap<String, u64>>,
    /// kind of the operation each task is in (index = task id), "" if none
    pub curop: RefCell<Vec<String>>,
    /// descriptor of that operation (0 if none)
    pub curfd: RefCell<Vec<i64>>,
    /// set when the next sm/sa event is the first half of a set_disposition
    pub d_first: Cell<bool>,
    /// re-entrancy guard of the hook
    in_hook: Cell<bool>,
}

pub const SIGS: [Number; 4] = [SIGUSR1, SIGUSR2, SIGINT, SIGTERM];

impl Ctx {
    pub fn new(vs: VirtualSystem, np: usize, ns: usize, nt: usize, inodes: Vec<Rc<RefCell<Inode>>>, mode: Mode) -> Ctx {
        let t0 = Instant::now();
        vs.state.borrow_mut().now = Some(t0);
        Ctx {
            vs,
            t0,
            np,
            ns,
            inodes,
            cur: Cell::new(0),
            log: RefCell::new(vec![]),
            mode: RefCell::new(mode),
            bad: RefCell::new(None),
            counts: RefCell::new(BTreeMap::new()),
            curop: RefCell::new(vec![String::new(); nt + 1]),
            curfd: RefCell::new(vec![0; nt + 1]),
            d_first: Cell::new(false),
            in_hook: Cell::new(false),
        }
    }

    pub fn cur(&self) -> i64 {
        self.cur.get()
    }

    pub fn count(&self, k: &str) {
        *self.counts.borrow_mut().entry(k.to_string()).or_insert(0) += 1;
    }

    /// bytes -> model units (a count that is not a whole number of units is
    /// made visible as a negative number)
    pub fn units(&self, n: usize) -> i64 {
        if n % U == 0 { (n / U) as i64 } else { -(n as i64) }
    }

    pub fn sig_to_model(&self, n: Number) -> i64 {
        SIGS.iter().position(|&s| s == n).map(|i| i as i64 + 1).unwrap_or(100 + n.as_raw() as i64)
    }

    pub fn sigset_to_model<I: Iterator<Item = Number>>(&self, it: I) -> Vec<i64> {
        let mut v: Vec<i64> = it.map(|n| self.sig_to_model(n)).collect();
        v.sort();
        v
    }

    pub fn model_sig(&self, s: i64) -> Number {
        SIGS[(s - 1) as usize]
    }

    /// what the model calls Proj: now, occupancy per pipe, open flags, O_NONBLOCK
    /// flags, blocked and pending signals
    pub fn proj(&self) -> Vec<i64> {
        let st = self.vs.state.borrow();
        let mut w = vec![];
        let now = st.now.expect("clock").duration_since(self.t0);
        w.push(if now.subsec_nanos() == 0 { now.as_secs() as i64 } else { -1 });
        for ino in &self.inodes {
            match &ino.borrow().body {
                FileBody::Fifo { content, .. } => w.push(self.units(content.len())),
                _ => w.push(-1),
            }
        }
        let p = st.processes.get(&self.vs.process_id).expect("process");
        for i in 0..2 * self.np {
            w.push(p.fds().contains_key(&Fd(3 + i as i32)) as i64);
        }
        for i in 0..2 * self.np {
            let nb = p.fds().get(&Fd(3 + i as i32)).map(|b| b.open_file_description.borrow().is_nonblocking()).unwrap_or(false);
            w.push(nb as i64);
        }
        for s in 0..self.ns {
            w.push((p.blocked_signals().contains(SIGS[s]) == Ok(true)) as i64);
        }
        for s in 0..self.ns {
            w.push((p.pending_signals().contains(SIGS[s]) == Ok(true)) as i64);
        }
        w
    }

    pub fn occ(&self, pipe: usize) -> usize {
        match &self.inodes[pipe - 1].borrow().body {
            FileBody::Fifo { content, .. } => content.len(),
            _ => 0,
        }
    }

    pub fn is_open(&self, fd: i64) -> bool {
        let st = self.vs.state.borrow();
        st.processes.get(&self.vs.process_id).unwrap().fds().contains_key(&Fd(fd as i32))
    }

    pub fn now_ticks(&self) -> i64 {
        self.vs.state.borrow().now.unwrap().duration_since(self.t0).as_secs() as i64
    }

    /// Is the external event possible (guards of ConcSelect!Ext)?
    pub fn ext_ok(&self, e: &Ev) -> bool {
        match e.e.as_str() {
            "xw" => {
                let p = e.a as usize;
                self.is_open(2 * e.a + 2) && self.is_open(2 * e.a + 1) && self.occ(p) + (e.b as usize) * U <= 2 * U
            }
            "xr" => self.is_open(2 * e.a + 1) && self.occ(e.a as usize) >= (e.b as usize) * U,
            "xc" => self.is_open(e.a),
            "xs" => {
                let st = self.vs.state.borrow();
                let p = st.processes.get(&self.vs.process_id).unwrap();
                let n = self.model_sig(e.a);
                p.disposition(n) != Disposition::Default || p.blocked_signals().contains(n) == Ok(true)
            }
            "xt" => true,
            "xn" => self.is_open(e.a) && !self.curfd.borrow().iter().any(|&fd| fd == e.a),
            _ => false,
        }
    }

    /// Perform an external event on the raw system (not through the wrapper).
    pub fn apply_ext(&self, e: &Ev) -> Result<(), String> {
        match e.e.as_str() {
            "xw" => {
                let data = vec![0x55u8; (e.b as usize) * U];
                match self.vs.write(Fd((2 * e.a + 2) as i32), &data).now_or_never() {
                    Some(Ok(n)) if n == data.len() => Ok(()),
                    other => Err(format!("external write: {other:?}")),
                }
            }
            "xr" => {
                let mut buf = vec![0u8; (e.b as usize) * U];
                match self.vs.read(Fd((2 * e.a + 1) as i32), &mut buf).now_or_never() {
                    Some(Ok(n)) if n == buf.len() => Ok(()),
                    other => Err(format!("external read: {other:?}")),
                }
            }
            "xc" => self.vs.close(Fd(e.a as i32)).map_err(|e| format!("external close: {e:?}")),
            "xs" => match self.vs.raise(self.model_sig(e.a)).now_or_never() {
                Some(Ok(())) => Ok(()),
                other => Err(format!("external raise: {other:?}")),
            },
            "xt" => {
                let mut st = self.vs.state.borrow_mut();
                let t = st.now.unwrap() + Duration::from_secs(e.a as u64);
                st.advance_time(t);
                Ok(())
            }
            "xn" => {
                let fd = Fd(e.a as i32);
                match self.vs.get_and_set_nonblocking(fd, true) {
                    Ok(old) => self.vs.get_and_set_nonblocking(fd, !old).map(|_| ()).map_err(|e| format!("external fcntl: {e:?}")),
                    Err(e) => Err(format!("external fcntl: {e:?}")),
                }
            }
            k => Err(format!("unknown external event {k}")),
        }
    }

    fn push(&self, mut ev: Ev) -> Ev {
        ev.w = self.proj();
        self.log.borrow_mut().push(ev.clone());
        ev
    }

    pub fn fail(&self, index: usize, symptom: String, expected: Option<Ev>, got: Option<Ev>) {
        let mut b = self.bad.borrow_mut();
        if b.is_none() {
            *b = Some(Mismatch { index, symptom, expected, got });
        }
    }

    pub fn failed(&self) -> bool {
        self.bad.borrow().is_some()
    }

    /// May an external event follow this event (ConcSelect!ExtOK)?
    fn hook_point(&self, ev: &Ev) -> bool {
        match ev.e.as_str() {
            "rd" | "wr" => ev.r == "EAGAIN",
            "sm" | "sa" => {
                let f = self.d_first.get();
                self.d_first.set(false);
                f
            }
            "pe" | "sc" | "sw" | "sr" | "se" | "cancel" | "wk" => true,
            _ => ev.is_ext(),
        }
    }

    /// Record an event of the real execution; then let external events happen.
    pub fn emit(&self, ev: Ev) {
        if ev.e == "op" {
            self.d_first.set(ev.r == "D");
            if (ev.t as usize) < self.curop.borrow().len() {
                self.curop.borrow_mut()[ev.t as usize] = ev.r.clone();
                self.curfd.borrow_mut()[ev.t as usize] = if matches!(ev.r.as_str(), "R" | "W" | "WA") { ev.a } else { 0 };
            }
        }
        if ev.e == "res" && (ev.t as usize) < self.curop.borrow().len() {
            self.curop.borrow_mut()[ev.t as usize].clear();
            self.curfd.borrow_mut()[ev.t as usize] = 0;
        }
        let ev = self.push(ev);
        self.count(&format!("ev:{}", ev.e));
        if self.in_hook.get() {
            return;
        }
        self.in_hook.set(true);
        self.after(&ev);
        self.in_hook.set(false);
    }

    fn after(&self, ev: &Ev) {
        let mut mode = self.mode.borrow_mut();
        match &mut *mode {
            Mode::Plain => {}
            Mode::Replay { h, i } => {
                if self.failed() {
                    return;
                }
                if *i >= h.len() {
                    self.fail(*i, format!("extra:{}", ev.e), None, Some(ev.clone()));
                    return;
                }
                if let Some(sym) = crate::cmp::differ(&h[*i], ev, self) {
                    self.fail(*i, sym, Some(h[*i].clone()), Some(ev.clone()));
                    return;
                }
                *i += 1;
                while *i < h.len() && h[*i].is_ext() {
                    let x = h[*i].clone();
                    if let Err(m) = self.apply_ext(&x) {
                        self.fail(*i, format!("ext-failed:{}:{}", x.e, m), Some(x.clone()), None);
                        return;
                    }
                    let mut real = Ev::new(&x.e, 0, x.a, x.b, "");
                    real = self.push(real);
                    self.count(&format!("ev:{}", real.e));
                    if let Some(sym) = crate::cmp::differ(&x, &real, self) {
                        self.fail(*i, sym, Some(x), Some(real));
                        return;
                    }
                    *i += 1;
                }
            }
            Mode::Random { rng, pext, left } => {
                if !self.hook_point(ev) {
                    return;
                }
                while *left > 0 && rng.gen_bool(*pext) {
                    let cand = self.random_ext(rng);
                    match cand {
                        Some(x) => {
                            if self.apply_ext(&x).is_err() {
                                break;
                            }
                            *left -= 1;
                            let real = self.push(Ev::new(&x.e, 0, x.a, x.b, ""));
                            self.count(&format!("ev:{}", real.e));
                        }
                        None => break,
                    }
                }
            }
        }
    }

    /// a random external event that is possible now
    pub fn random_ext(&self, rng: &mut StdRng) -> Option<Ev> {
        for _ in 0..6 {
            let k = rng.gen_range(0..11);
            let e = match k {
                0..=2 => Ev::new("xw", 0, rng.gen_range(1..=self.np as i64), rng.gen_range(1..=2), ""),
                3 => Ev::new("xr", 0, rng.gen_range(1..=self.np as i64), rng.gen_range(1..=2), ""),
                4 => Ev::new("xc", 0, rng.gen_range(3..3 + 2 * self.np as i64), 0, ""),
                5..=7 => Ev::new("xs", 0, rng.gen_range(1..=self.ns as i64), 0, ""),
                10 => Ev::new("xn", 0, rng.gen_range(3..3 + 2 * self.np as i64), 0, ""),
                _ => Ev::new("xt", 0, rng.gen_range(1..=2), 0, ""),
            };
            if self.ext_ok(&e) {
                return Some(e);
            }
        }
        None
    }

    /// replay: the next expected event, if any
    pub fn next_expected(&self) -> Option<Ev> {
        match &*self.mode.borrow() {
            Mode::Replay { h, i } => h.get(*i).cloned(),
            _ => None,
        }
    }

    pub fn replay_pos(&self) -> usize {
        match &*self.mode.borrow() {
            Mode::Replay { i, .. } => *i,
            _ => 0,
        }
    }
}
