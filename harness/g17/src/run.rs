//! The world of one run: the real `Concurrent<Spy>` over a fresh
//! `VirtualSystem`, instrumented task futures, and the harness's own loop
//! calling the public API (poll a task, select, peek, drop a future).
use crate::ctx::{Ctx, Ev, Mode, SIGS, U};
use crate::spy::{Spy, errname};
use rand::Rng;
use rand::rngs::StdRng;
use std::future::Future;
use std::pin::Pin;
use std::rc::Rc;
use std::sync::Arc;
use std::sync::atomic::{AtomicBool, AtomicU64, Ordering};
use std::task::{Context, Poll, Wake, Waker};
use std::time::Duration;
use yash_env::io::Fd;
use yash_env::system::concurrency::{Select as _, Sleep as _, WaitForSignals as _, WriteAll as _};
use yash_env::system::r#virtual::VirtualSystem;
use yash_env::system::{Close as _, Concurrent, Disposition, Pipe as _, Read as _, SigmaskOp, Write as _};
use yash_env::trap::SignalSystem as _;
use yvcommon::util::catch;

#[derive(Clone, Debug)]
pub struct Op {
    pub k: String,
    pub a: i64,
    pub b: i64,
}

static SEQ: AtomicU64 = AtomicU64::new(1);

pub struct WFlag {
    woken: AtomicBool,
    seq: AtomicU64,
}

impl Wake for WFlag {
    fn wake(self: Arc<Self>) {
        self.wake_by_ref()
    }
    fn wake_by_ref(self: &Arc<Self>) {
        if !self.woken.swap(true, Ordering::SeqCst) {
            self.seq.store(SEQ.fetch_add(1, Ordering::SeqCst), Ordering::SeqCst);
        }
    }
}

type Fut = Pin<Box<dyn Future<Output = ()>>>;

#[derive(Clone, Copy, PartialEq, Debug)]
pub enum TS {
    New,
    Live,
    Done,
    Dead,
}

pub struct Slot {
    pub fut: Option<Fut>,
    pub flag: Arc<WFlag>,
    pub state: TS,
    pub acked: bool,
    pub ops: Vec<Op>,
}

pub struct World {
    pub ctx: Rc<Ctx>,
    pub sys: Rc<Concurrent<Spy>>,
    pub tasks: Vec<Slot>, // index 0 unused
}

struct YieldOnce(bool);
impl Future for YieldOnce {
    type Output = ();
    fn poll(mut self: Pin<&mut Self>, cx: &mut Context<'_>) -> Poll<()> {
        if self.0 {
            Poll::Ready(())
        } else {
            self.0 = true;
            cx.waker().wake_by_ref();
            Poll::Pending
        }
    }
}

async fn task_body(id: i64, ops: Vec<Op>, sys: Rc<Concurrent<Spy>>, ctx: Rc<Ctx>) {
    for op in ops {
        ctx.emit(Ev::new("op", id, op.a, op.b, &op.k));
        match op.k.as_str() {
            "R" => {
                let mut buf = vec![0u8; (op.b as usize) * U];
                let r = sys.read(Fd(op.a as i32), &mut buf).await;
                match r {
                    Ok(n) => ctx.emit(Ev::new("res", id, ctx.units(n), 0, "ok")),
                    Err(e) => ctx.emit(Ev::new("res", id, 0, 0, &errname(e))),
                }
            }
            "W" => {
                let data = vec![(id as u8) | 0x80; (op.b as usize) * U];
                let r = sys.write(Fd(op.a as i32), &data).await;
                match r {
                    Ok(n) => ctx.emit(Ev::new("res", id, ctx.units(n), 0, "ok")),
                    Err(e) => ctx.emit(Ev::new("res", id, 0, 0, &errname(e))),
                }
            }
            "WA" => {
                let data = vec![(id as u8) | 0x40; (op.b as usize) * U];
                let r = sys.write_all(Fd(op.a as i32), &data).await;
                match r {
                    Ok(()) => ctx.emit(Ev::new("res", id, 0, 0, "ok")),
                    Err(e) => ctx.emit(Ev::new("res", id, 0, 0, &errname(e))),
                }
            }
            "S" => {
                sys.sleep(Duration::from_secs(op.a as u64)).await;
                ctx.emit(Ev::new("res", id, 0, 0, "ok"));
            }
            "G" => {
                let list = sys.wait_for_signals().await;
                let mut v: Vec<i64> = list.iter().map(|&n| ctx.sig_to_model(n)).collect();
                v.sort();
                ctx.emit(Ev::new("res", id, 0, 0, "ok").x(v));
            }
            "D" => {
                let d = if op.b == 1 { Disposition::Catch } else { Disposition::Ignore };
                let r = sys.set_disposition(ctx.model_sig(op.a), d).await;
                match r {
                    Ok(_) => ctx.emit(Ev::new("res", id, 0, 0, "ok")),
                    Err(e) => ctx.emit(Ev::new("res", id, 0, 0, &errname(e))),
                }
            }
            "C" => {
                let r = sys.close(Fd(op.a as i32));
                match r {
                    Ok(()) => ctx.emit(Ev::new("res", id, 0, 0, "ok")),
                    Err(e) => ctx.emit(Ev::new("res", id, 0, 0, &errname(e))),
                }
            }
            "Y" => {
                YieldOnce(false).await;
                ctx.emit(Ev::new("res", id, 0, 0, "ok"));
            }
            other => panic!("unknown op {other}"),
        }
    }
}

impl World {
    pub fn new(np: usize, ns: usize, nt: usize, base: &[i64], mode: Mode) -> World {
        let vs = VirtualSystem::new();
        let mut inodes = vec![];
        for p in 0..np {
            let (r, w) = vs.pipe().expect("pipe");
            assert_eq!((r.0, w.0), (3 + 2 * p as i32, 4 + 2 * p as i32), "descriptor numbering");
            let st = vs.state.borrow();
            let pr = st.processes.get(&vs.process_id).unwrap();
            let ofd = pr.fds().get(&r).unwrap().open_file_description.borrow();
            inodes.push(Rc::clone(ofd.inode()));
        }
        {
            let sigs: Vec<_> = base.iter().map(|&s| SIGS[(s - 1) as usize]).collect();
            let _ = vs.current_process_mut().block_signals(SigmaskOp::Set, sigs);
        }
        let ctx = Rc::new(Ctx::new(vs.clone(), np, ns, nt, inodes, mode));
        let sys = Rc::new(Concurrent::new(Spy { inner: vs, ctx: Rc::clone(&ctx) }));
        let tasks = (0..=nt)
            .map(|_| Slot {
                fut: None,
                flag: Arc::new(WFlag { woken: AtomicBool::new(false), seq: AtomicU64::new(0) }),
                state: TS::New,
                acked: false,
                ops: vec![],
            })
            .collect();
        World { ctx, sys, tasks }
    }

    pub fn woken(&self, t: usize) -> bool {
        self.tasks[t].flag.woken.load(Ordering::SeqCst)
    }

    /// wake-ups nobody has accounted for yet
    fn check_wakes(&mut self, self_t: usize) {
        for u in 1..self.tasks.len() {
            if self.tasks[u].state == TS::Live && self.woken(u) && !self.tasks[u].acked {
                self.tasks[u].acked = true;
                let expected = u == self_t && self.ctx.curop.borrow()[u] == "Y";
                if !expected {
                    self.ctx.emit(Ev::new("wk", u as i64, 0, 0, ""));
                }
            }
        }
    }

    pub fn poll_task(&mut self, t: usize) {
        let ctx = Rc::clone(&self.ctx);
        ctx.emit(Ev::new("poll", t as i64, 0, 0, ""));
        if ctx.failed() {
            return;
        }
        if self.tasks[t].state == TS::New {
            let ops = self.tasks[t].ops.clone();
            self.tasks[t].fut = Some(Box::pin(task_body(t as i64, ops, Rc::clone(&self.sys), Rc::clone(&ctx))));
            self.tasks[t].state = TS::Live;
        }
        if self.tasks[t].state != TS::Live {
            ctx.fail(ctx.replay_pos(), "poll-of-finished-task".into(), None, None);
            return;
        }
        self.tasks[t].flag.woken.store(false, Ordering::SeqCst);
        self.tasks[t].acked = false;
        let waker = Waker::from(Arc::clone(&self.tasks[t].flag));
        let mut cx = Context::from_waker(&waker);
        ctx.cur.set(t as i64);
        let fut = self.tasks[t].fut.as_mut().unwrap();
        let r = catch(|| fut.as_mut().poll(&mut cx));
        ctx.cur.set(0);
        match r {
            Ok(Poll::Pending) => ctx.emit(Ev::new("pe", t as i64, 0, 0, "P")),
            Ok(Poll::Ready(())) => {
                self.tasks[t].fut = None;
                self.tasks[t].state = TS::Done;
                ctx.emit(Ev::new("pe", t as i64, 0, 0, "R"));
            }
            Err(msg) => {
                self.tasks[t].fut = None;
                self.tasks[t].state = TS::Dead;
                ctx.emit(Ev::new("panic", t as i64, 0, 0, &msg.chars().take(120).collect::<String>()));
            }
        }
        self.check_wakes(t);
    }

    pub fn cancel(&mut self, t: usize) {
        if self.tasks[t].state != TS::Live {
            self.ctx.fail(self.ctx.replay_pos(), "cancel-of-finished-task".into(), None, None);
            return;
        }
        self.ctx.cur.set(t as i64);
        self.tasks[t].fut = None;
        self.ctx.cur.set(0);
        self.tasks[t].state = TS::Dead;
        self.ctx.curop.borrow_mut()[t].clear();
        self.ctx.curfd.borrow_mut()[t] = 0;
        self.ctx.emit(Ev::new("cancel", t as i64, 0, 0, ""));
        self.check_wakes(0);
    }

    fn finish_select(&mut self) {
        let mut x = vec![];
        let mut timers: Vec<(u64, i64)> = vec![];
        for u in 1..self.tasks.len() {
            if self.tasks[u].state == TS::Live && self.woken(u) && !self.tasks[u].acked {
                self.tasks[u].acked = true;
                x.push(u as i64);
                if self.ctx.curop.borrow()[u] == "S" {
                    timers.push((self.tasks[u].flag.seq.load(Ordering::SeqCst), u as i64));
                }
            }
        }
        timers.sort();
        let last_sr = self.ctx.log.borrow().iter().rev().find(|e| e.e == "sr").map(|e| e.r.clone()).unwrap_or_default();
        self.ctx.emit(Ev::new("se", 0, 0, 0, &last_sr).x(x).y(timers.into_iter().map(|p| p.1).collect()));
    }

    /// select() / peek() of the wrapper.  Returns false if the call is still
    /// blocked when the run ends.
    pub fn select(&mut self, peek: bool, rng: Option<&mut StdRng>) -> bool {
        let ctx = Rc::clone(&self.ctx);
        ctx.emit(Ev::new("sb", 0, peek as i64, 0, ""));
        if ctx.failed() {
            return true;
        }
        if peek {
            let sys = Rc::clone(&self.sys);
            if let Err(msg) = catch(|| sys.peek()) {
                ctx.emit(Ev::new("panic", 0, 0, 0, &msg.chars().take(120).collect::<String>()));
                return true;
            }
            self.finish_select();
            return true;
        }
        let sys = Rc::clone(&self.sys);
        let mut fut: Fut = Box::pin(async move { sys.select().await });
        let mut cx = Context::from_waker(Waker::noop());
        let mut rng = rng;
        let mut tries = 0;
        loop {
            let before = ctx.log.borrow().len();
            let r = catch(|| fut.as_mut().poll(&mut cx));
            match r {
                Ok(Poll::Ready(())) => {
                    self.finish_select();
                    return true;
                }
                Err(msg) => {
                    ctx.emit(Ev::new("panic", 0, 0, 0, &msg.chars().take(120).collect::<String>()));
                    return true;
                }
                Ok(Poll::Pending) => {}
            }
            if ctx.failed() {
                return true;
            }
            // external events applied by the hook during this poll (after `sw`)?
            let injected = ctx.log.borrow()[before..].iter().any(|e| e.is_ext());
            self.check_wakes(0);
            if let Some(rng) = rng.as_deref_mut() {
                // random mode: make something happen
                tries += 1;
                if tries > 12 {
                    return false;
                }
                if let Some(x) = ctx.random_ext(rng) {
                    if ctx.apply_ext(&x).is_ok() {
                        ctx.emit(Ev::new(&x.e, 0, x.a, x.b, ""));
                    }
                }
                continue;
            }
            let n = self.top_ext();
            let Some(e) = ctx.next_expected() else {
                return false; // the history ends while select blocks
            };
            if n > 0 || injected {
                continue;
            }
            ctx.fail(ctx.replay_pos(), format!("select-still-blocked:expected-{}", e.e), Some(e), None);
            return true;
        }
    }

    /// replay: perform the external events that come next in the history
    pub fn top_ext(&mut self) -> usize {
        let mut n = 0;
        loop {
            if self.ctx.failed() {
                return n;
            }
            match self.ctx.next_expected() {
                Some(e) if e.is_ext() => {
                    if let Err(m) = self.ctx.apply_ext(&e) {
                        self.ctx.fail(self.ctx.replay_pos(), format!("ext-failed:{}:{}", e.e, m), Some(e), None);
                        return n;
                    }
                    // emit compares it with the history (and consumes what follows)
                    self.ctx.emit(Ev::new(&e.e, 0, e.a, e.b, ""));
                    n += 1;
                    self.check_wakes(0);
                }
                _ => return n,
            }
        }
    }

    /// Follow a history printed by TLC (the mode of ctx is Replay).
    pub fn replay(&mut self) {
        loop {
            if self.ctx.failed() {
                break;
            }
            self.top_ext();
            if self.ctx.failed() {
                break;
            }
            let Some(e) = self.ctx.next_expected() else { break };
            match e.e.as_str() {
                "poll" => self.poll_task(e.t as usize),
                "sb" => {
                    self.select(e.a == 1, None);
                }
                "cancel" => self.cancel(e.t as usize),
                other => {
                    self.ctx.fail(self.ctx.replay_pos(), format!("missing:{other}"), Some(e.clone()), None);
                }
            }
        }
    }

    /// A seeded random run (the mode of ctx is Random).
    pub fn random_run(&mut self, rng: &mut StdRng, max_steps: usize, spur: &mut usize) {
        let nt = self.tasks.len() - 1;
        for _ in 0..max_steps {
            let runnable: Vec<usize> = (1..=nt)
                .filter(|&t| self.tasks[t].state == TS::New || (self.tasks[t].state == TS::Live && self.woken(t)))
                .collect();
            let pending: Vec<usize> = (1..=nt).filter(|&t| self.tasks[t].state == TS::Live && !self.woken(t)).collect();
            if runnable.is_empty() && pending.is_empty() {
                break;
            }
            let c = rng.gen_range(0..100);
            if !runnable.is_empty() && c < 62 {
                let t = runnable[rng.gen_range(0..runnable.len())];
                self.poll_task(t);
            } else if !pending.is_empty() && c < 68 && *spur > 0 {
                *spur -= 1;
                let t = pending[rng.gen_range(0..pending.len())];
                self.poll_task(t);
            } else if !pending.is_empty() && c < 72 {
                let t = pending[rng.gen_range(0..pending.len())];
                self.cancel(t);
            } else if c < 80 {
                self.select(true, Some(rng));
            } else if !pending.is_empty() || c < 90 {
                if !self.select(false, Some(rng)) {
                    break; // blocked for good
                }
            }
            if self.ctx.log.borrow().iter().any(|e| e.e == "panic") {
                break;
            }
        }
    }
}
