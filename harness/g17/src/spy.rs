//! `Spy`: a delegating system placed UNDER `Concurrent` (around yash-env's
//! `VirtualSystem`).  Every system call the wrapper makes that is a critical
//! section of spec/ConcSelect.tla is reported to the shared `Ctx` as an event
//! at its completion; `Ctx::emit` is also the injection point for external
//! events (another process writing to a pipe, a signal, time passing), so that
//! an event can be placed exactly between two critical sections of the wrapper
//! (after an EAGAIN and before the waker is registered, between sigprocmask and
//! sigaction, between the computation of the select arguments and the call,
//! while select blocks, between its return and the wake-ups).
use crate::ctx::{Ctx, Ev};
use enumset::EnumSet;
use std::borrow::Cow;
use std::ffi::c_int;
use std::future::poll_fn;
use std::ops::RangeInclusive;
use std::pin::pin;
use std::rc::Rc;
use std::task::Poll;
use std::time::{Duration, Instant};
use yash_env::io::Fd;
use yash_env::job::Pid;
use yash_env::signal::{Name, Number, RawNumber};
use yash_env::system::r#virtual::VirtualSystem;
use yash_env::system::*;

#[derive(Clone)]
pub struct Spy {
    pub inner: VirtualSystem,
    pub ctx: Rc<Ctx>,
}

pub fn errname(e: Errno) -> String {
    if e == Errno::EAGAIN {
        "EAGAIN".into()
    } else if e == Errno::EPIPE {
        "EPIPE".into()
    } else if e == Errno::EBADF {
        "EBADF".into()
    } else if e == Errno::EINTR {
        "EINTR".into()
    } else {
        format!("E:{e:?}")
    }
}

impl Fcntl for Spy {
    fn ofd_access(&self, fd: Fd) -> Result<OfdAccess> {
        self.inner.ofd_access(fd)
    }
    fn get_and_set_nonblocking(&self, fd: Fd, nonblocking: bool) -> Result<bool> {
        self.ctx.count("fcntl_nb");
        self.inner.get_and_set_nonblocking(fd, nonblocking)
    }
    fn fcntl_getfd(&self, fd: Fd) -> Result<EnumSet<FdFlag>> {
        self.inner.fcntl_getfd(fd)
    }
    fn fcntl_setfd(&self, fd: Fd, flags: EnumSet<FdFlag>) -> Result<()> {
        self.inner.fcntl_setfd(fd, flags)
    }
}

impl Read for Spy {
    fn read<'a>(&self, fd: Fd, buffer: &'a mut [u8]) -> impl Future<Output = Result<usize>> + use<'a> {
        let inner = self.inner.clone();
        let ctx = Rc::clone(&self.ctx);
        async move {
            let want = ctx.units(buffer.len());
            let mut fut = pin!(inner.read(fd, buffer));
            let mut first = true;
            let r = poll_fn(|cx| match fut.as_mut().poll(cx) {
                Poll::Pending => {
                    if first {
                        // the descriptor was in blocking mode: the call blocks
                        first = false;
                        ctx.emit(Ev::new("rd", ctx.cur(), fd.0 as i64, want, "BLOCK").x(vec![0]));
                    }
                    Poll::Pending
                }
                Poll::Ready(r) => Poll::Ready(r),
            })
            .await;
            let (name, n) = match r {
                Ok(n) => ("ok".to_string(), ctx.units(n)),
                Err(e) => (errname(e), 0),
            };
            ctx.emit(Ev::new("rd", ctx.cur(), fd.0 as i64, want, &name).x(vec![n]));
            r
        }
    }
}

impl Write for Spy {
    fn write<'a>(&self, fd: Fd, buffer: &'a [u8]) -> impl Future<Output = Result<usize>> + use<'a> {
        let inner = self.inner.clone();
        let ctx = Rc::clone(&self.ctx);
        async move {
            let want = ctx.units(buffer.len());
            let mut fut = pin!(inner.write(fd, buffer));
            let mut first = true;
            let r = poll_fn(|cx| match fut.as_mut().poll(cx) {
                Poll::Pending => {
                    if first {
                        first = false;
                        ctx.emit(Ev::new("wr", ctx.cur(), fd.0 as i64, want, "BLOCK").x(vec![0]));
                    }
                    Poll::Pending
                }
                Poll::Ready(r) => Poll::Ready(r),
            })
            .await;
            let (name, n) = match r {
                Ok(n) => ("ok".to_string(), ctx.units(n)),
                Err(e) => (errname(e), 0),
            };
            ctx.emit(Ev::new("wr", ctx.cur(), fd.0 as i64, want, &name).x(vec![n]));
            r
        }
    }
}

impl Pipe for Spy {
    fn pipe(&self) -> Result<(Fd, Fd)> {
        self.inner.pipe()
    }
}

impl Close for Spy {
    fn close(&self, fd: Fd) -> Result<()> {
        self.inner.close(fd)
    }
}

impl Clock for Spy {
    fn now(&self) -> Instant {
        self.ctx.count("now");
        self.inner.now()
    }
}

impl Select for Spy {
    type FdSet = <VirtualSystem as Select>::FdSet;

    fn select<'a>(
        &self,
        readers: &'a mut <VirtualSystem as Select>::FdSet,
        writers: &'a mut <VirtualSystem as Select>::FdSet,
        timeout: Option<Duration>,
        signal_mask: Option<&<VirtualSystem as Sigmask>::Sigset>,
    ) -> impl Future<Output = Result<c_int>> + use<'a> {
        let inner = self.inner.clone();
        let ctx = Rc::clone(&self.ctx);
        let mask = signal_mask.cloned();
        async move {
            let fds = |s: &<VirtualSystem as Select>::FdSet| {
                let mut v: Vec<i64> = s.iter().map(|fd| fd.0 as i64).collect();
                v.sort();
                v
            };
            let to = match timeout {
                None => -1,
                Some(d) => {
                    if d.subsec_nanos() != 0 {
                        // not a whole number of ticks: make it visible
                        1_000_000 + d.as_millis() as i64
                    } else {
                        d.as_secs() as i64
                    }
                }
            };
            let (mk, ml) = match &mask {
                None => (0, vec![]),
                Some(m) => (1, ctx.sigset_to_model(m.iter().copied())),
            };
            ctx.emit(Ev::new("sc", 0, to, mk, "").x(fds(readers)).y(fds(writers)).z(ml));
            // (external events injected by `emit` happen here: after the arguments
            // were computed, before the call)
            let mut first = true;
            let r = {
                let mut fut = pin!(inner.select(readers, writers, timeout, mask.as_ref()));
                poll_fn(|cx| match fut.as_mut().poll(cx) {
                    Poll::Pending => {
                        if first {
                            first = false;
                            ctx.emit(Ev::new("sw", 0, 0, 0, ""));
                        }
                        Poll::Pending
                    }
                    Poll::Ready(r) => Poll::Ready(r),
                })
                .await
            };
            match r {
                Ok(_) => ctx.emit(Ev::new("sr", 0, 0, 0, "ok").x(fds(readers)).y(fds(writers))),
                Err(e) => ctx.emit(Ev::new("sr", 0, 0, 0, &errname(e))),
            }
            r
        }
    }
}

include!("spy_signals.rs");

impl Sigmask for Spy {
    type Sigset = <VirtualSystem as Sigmask>::Sigset;

    fn sigmask(
        &self,
        op: Option<(SigmaskOp, &Self::Sigset)>,
        old_mask: Option<&mut Self::Sigset>,
    ) -> impl Future<Output = Result<()>> + use<> {
        let desc = op.map(|(o, set)| {
            let how = match o {
                SigmaskOp::Add => 1,
                SigmaskOp::Remove => 2,
                SigmaskOp::Set => 3,
                _ => 4,
            };
            (how, self.ctx.sigset_to_model(set.iter().copied()))
        });
        let fut = self.inner.sigmask(op, old_mask);
        let ctx = Rc::clone(&self.ctx);
        async move {
            let r = fut.await;
            if let Some((how, sigs)) = desc {
                let name = match r {
                    Ok(()) => "ok".to_string(),
                    Err(e) => errname(e),
                };
                ctx.emit(Ev::new("sm", ctx.cur(), how, 0, &name).x(sigs));
            }
            r
        }
    }
}

impl GetSigaction for Spy {
    fn get_sigaction(&self, signal: Number) -> Result<Disposition> {
        self.inner.get_sigaction(signal)
    }
}

pub fn dispname(d: Disposition) -> &'static str {
    match d {
        Disposition::Default => "Default",
        Disposition::Ignore => "Ignore",
        Disposition::Catch => "Catch",
    }
}

impl Sigaction for Spy {
    fn sigaction(&self, signal: Number, action: Disposition) -> Result<Disposition> {
        let r = self.inner.sigaction(signal, action);
        let b = match action {
            Disposition::Catch => 1,
            Disposition::Ignore => 2,
            Disposition::Default => 3,
        };
        let name = match r {
            Ok(old) => dispname(old).to_string(),
            Err(e) => errname(e),
        };
        self.ctx.emit(Ev::new("sa", self.ctx.cur(), self.ctx.sig_to_model(signal), b, &name));
        r
    }
}

impl CaughtSignals for Spy {
    fn caught_signals(&self) -> Vec<Number> {
        self.ctx.count("caught_signals");
        self.inner.caught_signals()
    }
}

impl SendSignal for Spy {
    fn kill(&self, target: Pid, signal: Option<Number>) -> impl Future<Output = Result<()>> + use<> {
        self.inner.kill(target, signal)
    }
    fn raise(&self, signal: Number) -> impl Future<Output = Result<()>> + use<> {
        self.inner.raise(signal)
    }
}
