//! A fault-injecting system: `Faulty` wraps yash-env's `VirtualSystem` and
//! implements every system trait by delegation (faulty_delegates.rs is
//! generated from the `impl<S: X> X for Rc<S>` blocks of yash-env/src/system),
//! except that the k-th call of a chosen kind, counted from the moment the
//! injector is armed, fails with a chosen errno instead of being performed:
//! open, open_tmpfile, fcntl(F_DUPFD) (`dup`), write, lseek, pipe.
//!
//! The injector is armed by the probe built-in `arm CALL N ERRNO` placed just
//! before the command under test and is disarmed by the first observation
//! (`obs`) after it, so a fault can only hit a system call the shell itself
//! makes for that command.  At most one call fails per arming.
use futures_util::{pending, poll};
use std::borrow::Cow;
use std::cell::Cell;
use std::convert::Infallible;
use std::ffi::c_int;
use std::ffi::{CStr, CString};
use std::io::SeekFrom;
use std::ops::RangeInclusive;
use std::pin::pin;
use std::time::{Duration, Instant};
use enumset::EnumSet;
use yash_env::io::Fd;
use yash_env::job::{Pid, ProcessState};
use yash_env::path::{Path, PathBuf};
use yash_env::semantics::ExitStatus;
use yash_env::system::concurrency::{RunLoop, Select as CSelect};
use yash_env::system::r#virtual::VirtualSystem;
use yash_env::system::resource::{GetRlimit, LimitPair, Resource, SetRlimit};
use yash_env::signal::{Name, Number, RawNumber};
use yash_env::str::UnixString;
use yash_env::system::c_string::IntoCStrArray;
use yash_env::system::*;

#[derive(Clone, Copy, Debug, PartialEq, Eq)]
pub enum Call {
    Open,
    Tmp,
    Dup,
    Write,
    Lseek,
    Pipe,
}

impl Call {
    pub fn parse(s: &str) -> Option<Call> {
        Some(match s {
            "open" => Call::Open,
            "tmp" => Call::Tmp,
            "dup" => Call::Dup,
            "write" => Call::Write,
            "lseek" => Call::Lseek,
            "pipe" => Call::Pipe,
            _ => return None,
        })
    }
}

thread_local! {
    /// (call kind, calls of that kind still to let through + 1, errno)
    static ARMED: Cell<Option<(Call, u32, Errno)>> = const { Cell::new(None) };
    static FIRED: Cell<bool> = const { Cell::new(false) };
}

pub fn arm(call: Call, n: u32, errno: Errno) {
    ARMED.with(|a| a.set(Some((call, n.max(1), errno))));
    FIRED.with(|f| f.set(false));
}

pub fn disarm() {
    ARMED.with(|a| a.set(None));
}

pub fn reset() {
    disarm();
    FIRED.with(|f| f.set(false));
}

/// Did the armed fault hit a call since the last `arm`?
pub fn fired() -> bool {
    FIRED.with(|f| f.get())
}

fn hit(call: Call) -> Option<Errno> {
    ARMED.with(|a| match a.get() {
        Some((c, n, e)) if c == call => {
            if n <= 1 {
                a.set(None);
                FIRED.with(|f| f.set(true));
                Some(e)
            } else {
                a.set(Some((c, n - 1, e)));
                None
            }
        }
        _ => None,
    })
}

pub fn errno_of(name: &str) -> Option<Errno> {
    Some(match name {
        "EIO" => Errno::EIO,
        "ENOSPC" => Errno::ENOSPC,
        "ENFILE" => Errno::ENFILE,
        "EINTR" => Errno::EINTR,
        "ENOMEM" => Errno::ENOMEM,
        _ => return None,
    })
}

#[derive(Clone, Debug)]
pub struct Faulty {
    pub inner: VirtualSystem,
}

impl Open for Faulty {
    fn open(
        &self,
        path: &CStr,
        access: OfdAccess,
        flags: EnumSet<OpenFlag>,
        mode: Mode,
    ) -> impl Future<Output = Result<Fd>> + use<> {
        let fault = hit(Call::Open);
        let fut = if fault.is_none() { Some(self.inner.open(path, access, flags, mode)) } else { None };
        async move {
            match (fault, fut) {
                (Some(e), _) => Err(e),
                (None, Some(f)) => f.await,
                (None, None) => unreachable!(),
            }
        }
    }
    fn open_tmpfile(&self, parent_dir: &Path) -> Result<Fd> {
        match hit(Call::Tmp) {
            Some(e) => Err(e),
            None => self.inner.open_tmpfile(parent_dir),
        }
    }
    fn fdopendir(&self, fd: Fd) -> Result<impl Dir + use<>> {
        self.inner.fdopendir(fd)
    }
    fn opendir(&self, path: &CStr) -> Result<impl Dir + use<>> {
        self.inner.opendir(path)
    }
}

impl Dup for Faulty {
    fn dup(&self, from: Fd, to_min: Fd, flags: EnumSet<FdFlag>) -> Result<Fd> {
        match hit(Call::Dup) {
            Some(e) => Err(e),
            None => self.inner.dup(from, to_min, flags),
        }
    }
    fn dup2(&self, from: Fd, to: Fd) -> Result<Fd> {
        self.inner.dup2(from, to)
    }
}

impl Write for Faulty {
    fn write<'a>(&self, fd: Fd, buffer: &'a [u8]) -> impl Future<Output = Result<usize>> + use<'a> {
        let fault = hit(Call::Write);
        let fut = if fault.is_none() { Some(self.inner.write(fd, buffer)) } else { None };
        async move {
            match (fault, fut) {
                (Some(e), _) => Err(e),
                (None, Some(f)) => f.await,
                (None, None) => unreachable!(),
            }
        }
    }
}

impl Seek for Faulty {
    fn lseek(&self, fd: Fd, position: SeekFrom) -> Result<u64> {
        match hit(Call::Lseek) {
            Some(e) => Err(e),
            None => self.inner.lseek(fd, position),
        }
    }
}

impl Pipe for Faulty {
    fn pipe(&self) -> Result<(Fd, Fd)> {
        match hit(Call::Pipe) {
            Some(e) => Err(e),
            None => self.inner.pipe(),
        }
    }
}

impl Fork for Faulty {
    fn run_in_child_process<D, F>(&self, shared_data: D, child_task: F) -> (Result<Pid>, D)
    where
        D: Clone + 'static,
        F: AsyncFnOnce(Self, D) + 'static,
    {
        self.inner
            .run_in_child_process(shared_data, |child, data| child_task(Faulty { inner: child }, data))
    }
}

fn terminated(c: &Concurrent<Faulty>) -> bool {
    let pid = c.getpid();
    crate::probe::with_state(|st| match st.borrow().processes.get(&pid).map(|p| p.state()) {
        Some(ProcessState::Running) => false,
        Some(ProcessState::Halted(r)) => !r.is_stopped(),
        None => true,
    })
    .unwrap_or(true)
}

/// The counterpart of `Concurrent::<VirtualSystem>::run_virtual` (which is
/// only defined for `VirtualSystem` itself).
impl RunLoop for Faulty {
    fn run_loop<'c, F>(concurrent: &'c Concurrent<Self>, task: F) -> impl Future<Output = ()> + use<'c, F>
    where
        F: Future<Output = ()>,
    {
        async move {
            let mut task = pin!(task);
            while poll!(&mut task).is_pending() {
                if terminated(concurrent) {
                    return;
                }
                let mut select = pin!(CSelect::select(concurrent));
                while poll!(&mut select).is_pending() {
                    if terminated(concurrent) {
                        return;
                    }
                    pending!()
                }
            }
        }
    }
}

include!("faulty_delegates.rs");
