impl Fstat for Faulty {
    type Stat = <VirtualSystem as Fstat>::Stat;

    #[inline]
    fn fstat(&self, fd: Fd) -> Result<<VirtualSystem as Fstat>::Stat> {
        (&self.inner).fstat(fd)
    }
    #[inline]
    fn fstatat(&self, dir_fd: Fd, path: &CStr, follow_symlinks: bool) -> Result<<VirtualSystem as Fstat>::Stat> {
        (&self.inner).fstatat(dir_fd, path, follow_symlinks)
    }
    #[inline]
    fn is_directory(&self, path: &CStr) -> bool {
        (&self.inner).is_directory(path)
    }
    #[inline]
    fn fd_is_pipe(&self, fd: Fd) -> bool {
        (&self.inner).fd_is_pipe(fd)
    }
}

impl IsExecutableFile for Faulty {
    #[inline]
    fn is_executable_file(&self, path: &CStr) -> bool {
        (&self.inner).is_executable_file(path)
    }
}

impl Umask for Faulty {
    #[inline]
    fn umask(&self, new_mask: Mode) -> Mode {
        (&self.inner).umask(new_mask)
    }
}

impl GetCwd for Faulty {
    #[inline]
    fn getcwd(&self) -> Result<PathBuf> {
        (&self.inner).getcwd()
    }
}

impl Chdir for Faulty {
    #[inline]
    fn chdir(&self, path: &CStr) -> Result<()> {
        (&self.inner).chdir(path)
    }
}

impl Close for Faulty {
    #[inline]
    fn close(&self, fd: Fd) -> Result<()> {
        (&self.inner).close(fd)
    }
}

impl Fcntl for Faulty {
    #[inline]
    fn ofd_access(&self, fd: Fd) -> Result<OfdAccess> {
        (&self.inner).ofd_access(fd)
    }
    #[inline]
    fn get_and_set_nonblocking(&self, fd: Fd, nonblocking: bool) -> Result<bool> {
        (&self.inner).get_and_set_nonblocking(fd, nonblocking)
    }
    #[inline]
    fn fcntl_getfd(&self, fd: Fd) -> Result<EnumSet<FdFlag>> {
        (&self.inner).fcntl_getfd(fd)
    }
    #[inline]
    fn fcntl_setfd(&self, fd: Fd, flags: EnumSet<FdFlag>) -> Result<()> {
        (&self.inner).fcntl_setfd(fd, flags)
    }
}

impl Read for Faulty {
    #[inline]
    fn read<'a>(
        &self,
        fd: Fd,
        buffer: &'a mut [u8],
    ) -> impl Future<Output = Result<usize>> + use<'a> {
        (&self.inner).read(fd, buffer)
    }
}

impl GetPid for Faulty {
    #[inline]
    fn getpid(&self) -> Pid {
        (&self.inner).getpid()
    }
    #[inline]
    fn getppid(&self) -> Pid {
        (&self.inner).getppid()
    }
    #[inline]
    fn getpgrp(&self) -> Pid {
        (&self.inner).getpgrp()
    }
    #[inline]
    fn getsid(&self, pid: Pid) -> Result<Pid> {
        (&self.inner).getsid(pid)
    }
}

impl SetPgid for Faulty {
    #[inline]
    fn setpgid(&self, pid: Pid, pgid: Pid) -> Result<()> {
        (&self.inner).setpgid(pid, pgid)
    }
}

impl Wait for Faulty {
    #[inline]
    fn wait(&self, target: Pid) -> Result<Option<(Pid, ProcessState)>> {
        (&self.inner).wait(target)
    }
}

impl Exec for Faulty {
    #[inline]
    fn execve<A, E>(
        &self,
        path: &CStr,
        args: A,
        envs: E,
    ) -> impl Future<Output = Result<Infallible>> + use<A, E>
    where
        A: IntoCStrArray,
        E: IntoCStrArray,
    {
        (&self.inner).execve(path, args, envs)
    }
}

impl Exit for Faulty {
    #[inline]
    fn exit(&self, exit_status: ExitStatus) -> impl Future<Output = Infallible> + use<> {
        (&self.inner).exit(exit_status)
    }
}

impl GetRlimit for Faulty {
    #[inline]
    fn getrlimit(&self, resource: Resource) -> Result<LimitPair> {
        (&self.inner).getrlimit(resource)
    }
}

impl SetRlimit for Faulty {
    #[inline]
    fn setrlimit(&self, resource: Resource, limits: LimitPair) -> Result<()> {
        (&self.inner).setrlimit(resource, limits)
    }
}

impl Select for Faulty {
    type FdSet = <VirtualSystem as Select>::FdSet;

    #[inline]
    fn select<'a>(
        &self,
        readers: &'a mut <VirtualSystem as Select>::FdSet,
        writers: &'a mut <VirtualSystem as Select>::FdSet,
        timeout: Option<Duration>,
        signal_mask: Option<&<VirtualSystem as Sigmask>::Sigset>,
    ) -> impl Future<Output = Result<c_int>> + use<'a> {
        (&self.inner).select(readers, writers, timeout, signal_mask)
    }
}

impl Signals for Faulty {
    const SIGABRT: Number = VirtualSystem::SIGABRT;
    const SIGALRM: Number = VirtualSystem::SIGALRM;
    const SIGBUS: Number = VirtualSystem::SIGBUS;
    const SIGCHLD: Number = VirtualSystem::SIGCHLD;
    const SIGCLD: Option<Number> = VirtualSystem::SIGCLD;
    const SIGCONT: Number = VirtualSystem::SIGCONT;
    const SIGEMT: Option<Number> = VirtualSystem::SIGEMT;
    const SIGFPE: Number = VirtualSystem::SIGFPE;
    const SIGHUP: Number = VirtualSystem::SIGHUP;
    const SIGILL: Number = VirtualSystem::SIGILL;
    const SIGINFO: Option<Number> = VirtualSystem::SIGINFO;
    const SIGINT: Number = VirtualSystem::SIGINT;
    const SIGIO: Option<Number> = VirtualSystem::SIGIO;
    const SIGIOT: Number = VirtualSystem::SIGIOT;
    const SIGKILL: Number = VirtualSystem::SIGKILL;
    const SIGLOST: Option<Number> = VirtualSystem::SIGLOST;
    const SIGPIPE: Number = VirtualSystem::SIGPIPE;
    const SIGPOLL: Option<Number> = VirtualSystem::SIGPOLL;
    const SIGPROF: Number = VirtualSystem::SIGPROF;
    const SIGPWR: Option<Number> = VirtualSystem::SIGPWR;
    const SIGQUIT: Number = VirtualSystem::SIGQUIT;
    const SIGSEGV: Number = VirtualSystem::SIGSEGV;
    const SIGSTKFLT: Option<Number> = VirtualSystem::SIGSTKFLT;
    const SIGSTOP: Number = VirtualSystem::SIGSTOP;
    const SIGSYS: Number = VirtualSystem::SIGSYS;
    const SIGTERM: Number = VirtualSystem::SIGTERM;
    const SIGTHR: Option<Number> = VirtualSystem::SIGTHR;
    const SIGTRAP: Number = VirtualSystem::SIGTRAP;
    const SIGTSTP: Number = VirtualSystem::SIGTSTP;
    const SIGTTIN: Number = VirtualSystem::SIGTTIN;
    const SIGTTOU: Number = VirtualSystem::SIGTTOU;
    const SIGURG: Number = VirtualSystem::SIGURG;
    const SIGUSR1: Number = VirtualSystem::SIGUSR1;
    const SIGUSR2: Number = VirtualSystem::SIGUSR2;
    const SIGVTALRM: Number = VirtualSystem::SIGVTALRM;
    const SIGWINCH: Number = VirtualSystem::SIGWINCH;
    const SIGXCPU: Number = VirtualSystem::SIGXCPU;
    const SIGXFSZ: Number = VirtualSystem::SIGXFSZ;

    #[inline]
    fn sigrt_range(&self) -> Option<RangeInclusive<Number>> {
        (&self.inner).sigrt_range()
    }

    const NAMED_SIGNALS: &'static [(&'static str, Option<Number>)] = VirtualSystem::NAMED_SIGNALS;

    #[inline]
    fn iter_sigrt(&self) -> impl DoubleEndedIterator<Item = Number> + use<> {
        (&self.inner).iter_sigrt()
    }
    #[inline]
    fn to_signal_number<N: Into<RawNumber>>(&self, number: N) -> Option<Number> {
        (&self.inner).to_signal_number(number)
    }
    #[inline]
    fn sig2str<N: Into<RawNumber>>(&self, signal: N) -> Option<Cow<'static, str>> {
        (&self.inner).sig2str(signal)
    }
    #[inline]
    fn str2sig(&self, name: &str) -> Option<Number> {
        (&self.inner).str2sig(name)
    }
    #[inline]
    fn validate_signal(&self, number: RawNumber) -> Option<(Name, Number)> {
        (&self.inner).validate_signal(number)
    }
    #[inline]
    fn signal_name_from_number(&self, number: Number) -> Name {
        (&self.inner).signal_name_from_number(number)
    }
    #[inline]
    fn signal_number_from_name(&self, name: Name) -> Option<Number> {
        (&self.inner).signal_number_from_name(name)
    }
}

impl Sigmask for Faulty {
    type Sigset = <VirtualSystem as Sigmask>::Sigset;

    #[inline]
    fn sigmask(
        &self,
        op: Option<(SigmaskOp, &Self::Sigset)>,
        old_mask: Option<&mut Self::Sigset>,
    ) -> impl Future<Output = Result<()>> + use<> {
        (&self.inner).sigmask(op, old_mask)
    }
}

impl GetSigaction for Faulty {
    #[inline]
    fn get_sigaction(&self, signal: Number) -> Result<Disposition> {
        (&self.inner).get_sigaction(signal)
    }
}

impl Sigaction for Faulty {
    #[inline]
    fn sigaction(&self, signal: Number, action: Disposition) -> Result<Disposition> {
        (&self.inner).sigaction(signal, action)
    }
}

impl CaughtSignals for Faulty {
    #[inline]
    fn caught_signals(&self) -> Vec<Number> {
        (&self.inner).caught_signals()
    }
}

impl SendSignal for Faulty {
    #[inline]
    fn kill(
        &self,
        target: Pid,
        signal: Option<Number>,
    ) -> impl Future<Output = Result<()>> + use<> {
        (&self.inner).kill(target, signal)
    }
    #[inline]
    fn raise(&self, signal: Number) -> impl Future<Output = Result<()>> + use<> {
        (&self.inner).raise(signal)
    }
}

impl Sysconf for Faulty {
    #[inline]
    fn confstr_path(&self) -> Result<UnixString> {
        (&self.inner).confstr_path()
    }
}

impl ShellPath for Faulty {
    #[inline]
    fn shell_path(&self) -> CString {
        (&self.inner).shell_path()
    }
}

impl Isatty for Faulty {
    #[inline]
    fn isatty(&self, fd: Fd) -> bool {
        (&self.inner).isatty(fd)
    }
}

impl TcGetPgrp for Faulty {
    #[inline]
    fn tcgetpgrp(&self, fd: Fd) -> Result<Pid> {
        (&self.inner).tcgetpgrp(fd)
    }
}

impl TcSetPgrp for Faulty {
    #[inline]
    fn tcsetpgrp(&self, fd: Fd, pgid: Pid) -> impl Future<Output = Result<()>> + use<> {
        (&self.inner).tcsetpgrp(fd, pgid)
    }
}

impl Clock for Faulty {
    #[inline]
    fn now(&self) -> Instant {
        (&self.inner).now()
    }
}

impl Times for Faulty {
    #[inline]
    fn times(&self) -> Result<CpuTimes> {
        (&self.inner).times()
    }
}

impl GetUid for Faulty {
    #[inline]
    fn getuid(&self) -> Uid {
        (&self.inner).getuid()
    }
    #[inline]
    fn geteuid(&self) -> Uid {
        (&self.inner).geteuid()
    }
    #[inline]
    fn getgid(&self) -> Gid {
        (&self.inner).getgid()
    }
    #[inline]
    fn getegid(&self) -> Gid {
        (&self.inner).getegid()
    }
}

impl GetPw for Faulty {
    #[inline]
    fn getpwnam_dir(&self, name: &CStr) -> Result<Option<PathBuf>> {
        (&self.inner).getpwnam_dir(name)
    }
}
