//! Runs the real shell on `Faulty` (the fault-injecting wrapper around the
//! simulated OS).  This is yvcommon::shell::run_shell with the system type
//! `Rc<Concurrent<Faulty>>` instead of `Rc<Concurrent<VirtualSystem>>`; with
//! no fault armed the wrapper is transparent.
//!
//! The body of the shell process is yvcommon::shell::shell_body with one
//! difference: when the `interactive` option is on after start-up (`-i` on the
//! command line) the commands are read by `interactive_read_eval_loop`, as
//! yash_cli::run_as_shell_process does, so that the shell survives the errors
//! an interactive shell survives (special built-in errors, `exec` of a utility
//! that cannot be executed).  After the run the descriptor table and the files
//! the shell process ended with are recorded as a last observation (`zz`).
use crate::faulty::{self, Faulty};
use crate::probe;
use std::cell::RefCell;
use std::rc::Rc;
use yash_cli::startup::args::Parse;
use serde_json::json;
use std::ops::ControlFlow::{Break, Continue};
use yash_env::Env;
use yash_env::option::{Interactive, On};
use yash_env::semantics::Divert;
use yash_env::builtin::Type;
use yash_env::path::PathBuf;
use yash_env::semantics::ExitStatus;
use yash_env::system::concurrency::RunLoop;
use yash_env::system::r#virtual::{FileBody, Inode, VirtualSystem};
use yash_env::system::{Concurrent, Mode};
use yvcommon::sched::{Outcome, Schedule, Scheduler};
use yvcommon::shell::{self, FileSpec, ShellResult};

pub type FSys = Rc<Concurrent<Faulty>>;

fn save(state: &Rc<RefCell<yash_env::system::r#virtual::SystemState>>, path: &str, inode: Inode) {
    state.borrow_mut().file_system.save(path, Rc::new(RefCell::new(inode))).unwrap();
}

fn dir() -> Inode {
    Inode { body: FileBody::Directory { files: Default::default() }, permissions: Mode::from_bits_truncate(0o755) }
}

pub struct RunCfg {
    pub argv: Vec<String>,
    pub files: Vec<FileSpec>,
    pub cwd: String,
    pub step_limit: usize,
    pub tracked: &'static [&'static str],
}

/// yvcommon::shell::shell_body, choosing the read-eval loop as yash-cli does.
async fn shell_body(env: &mut Env<FSys>, run: yash_cli::startup::args::Run) {
    let work = yash_cli::startup::configure_environment(env, run).await;
    shell::register_generic_probes(env);
    probe::register(env);
    let is_interactive = env.options.get(Interactive) == On;
    let ref_env = RefCell::new(env);
    let lexer = match yash_cli::startup::input::prepare_input(&ref_env, &work.source).await {
        Ok(lexer) => lexer,
        Err(e) => {
            use yash_env::system::concurrency::WriteAll as _;
            let mut env = ref_env.borrow_mut();
            let message = format!("yash: {e}\n");
            env.system.print_error(&message).await;
            env.exit_status = ExitStatus::NOT_FOUND;
            return;
        }
    };
    let result = if is_interactive {
        yash_semantics::interactive_read_eval_loop(&ref_env, &mut { lexer }).await
    } else {
        yash_semantics::read_eval_loop(&ref_env, &mut { lexer }).await
    };
    let env = ref_env.into_inner();
    env.apply_result(result);
    match result {
        Continue(())
        | Break(Divert::Continue { .. })
        | Break(Divert::Break { .. })
        | Break(Divert::Return(_))
        | Break(Divert::Interrupt(_))
        | Break(Divert::Exit(_)) => yash_semantics::trap::run_exit_trap(env).await,
        Break(Divert::Abort(_)) => (),
    }
}

pub fn run(cfg: RunCfg) -> ShellResult {
    shell::EVENTS.with(|e| e.borrow_mut().clear());
    faulty::reset();
    let system = VirtualSystem::new();
    let state = Rc::clone(&system.state);
    let sched = Rc::new(Scheduler::new(Schedule::Fifo, cfg.step_limit));
    state.borrow_mut().executor = Some(Rc::clone(&sched) as Rc<dyn yash_env::system::r#virtual::Executor>);
    for d in ["/tmp", "/bin", "/home"] {
        save(&state, d, dir());
    }
    for (name, b) in yash_builtin::iter::<FSys>() {
        if b.r#type == Type::Substitutive {
            let mut inode = Inode::new(Vec::<u8>::new());
            inode.permissions = Mode::from_bits_truncate(0o755);
            if let FileBody::Regular { is_native_executable, .. } = &mut inode.body {
                *is_native_executable = true;
            }
            save(&state, &format!("/bin/{name}"), inode);
        }
    }
    for f in &cfg.files {
        match f {
            FileSpec::Regular { path, content, mode } => {
                let mut inode = Inode::new(content.clone());
                inode.permissions = Mode::from_bits_truncate(*mode as _);
                save(&state, path, inode);
            }
            FileSpec::Dir { path } => save(&state, path, dir()),
            _ => panic!("file kind not supported by the C09 runner"),
        }
    }
    let main_pid = system.process_id;
    state.borrow_mut().processes.get_mut(&main_pid).unwrap().chdir(PathBuf::from(cfg.cwd.as_str()));
    probe::make_terminal(&state);
    probe::begin_run(&state, cfg.tracked);

    let run = match yash_cli::startup::args::parse(cfg.argv.iter().cloned()) {
        Ok(Parse::Run(run)) => run,
        other => panic!("argv not runnable: {other:?}"),
    };
    let sys: FSys = Rc::new(Concurrent::new(Faulty { inner: system }));
    let mut env = Env::with_system(Rc::clone(&sys));
    env.variables.extend_env([("PATH".to_string(), "/bin".to_string())]);
    let exit_status = Rc::new(std::cell::Cell::new(-1));
    let es2 = Rc::clone(&exit_status);
    let sys2 = Rc::clone(&sys);
    let main_task = async move {
        let body = async move {
            shell_body(&mut env, run).await;
            es2.set(env.exit_status.0);
        };
        RunLoop::run_loop(&*sys2, body).await;
    };
    let outcome = sched.run_main(Box::pin(main_task), &state);
    let mut status = exit_status.get();
    {
        let st = state.borrow();
        if let Some(p) = st.processes.get(&main_pid) {
            if let yash_env::job::ProcessState::Halted(r) = p.state() {
                status = ExitStatus::from(r).0;
            }
        }
    }
    let stdout = shell::file_content(&state, "/dev/stdout").unwrap_or_default();
    let stderr = shell::file_content(&state, "/dev/stderr").unwrap_or_default();
    let mut events = shell::EVENTS.with(|e| std::mem::take(&mut *e.borrow_mut()));
    if matches!(outcome, Outcome::Completed) {
        // what the shell process ended with (the only observation there is of a
        // shell that ends without running its EXIT trap)
        events.push(json!({"ev": "obs", "tag": "zz", "pid": main_pid.0, "st": status,
                           "tab": probe::table(&state, main_pid.0), "files": probe::files(&state),
                           "wr": [], "fired": faulty::fired()}));
    }
    probe::end_run();
    faulty::reset();
    let _: &Outcome = &outcome;
    ShellResult { outcome, status, stdout, stderr, events, choices: sched.choices(), polls: sched.polls(), state }
}
