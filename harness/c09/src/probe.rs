//! The `obs` probe built-in of C09 and the assembly of observation records.
//!
//! `obs TAG[=N] [fd...]` records the descriptor table of the calling process
//! (open-file-description identities are stable over the whole run), the
//! tracked files, `$?`, then tries to write one 3-byte unit `<L><fd>\n` (L =
//! second character of TAG, or its first if it has only one) to each listed
//! descriptor and records which writes succeeded.  It returns N if given,
//! else `$?` unchanged.
use serde_json::{Value, json};
use std::cell::RefCell;
use std::io::SeekFrom;
use std::pin::Pin;
use std::rc::{Rc, Weak};
use yash_env::builtin::{Builtin, Result as BResult, Type};
use yash_env::io::Fd;
use yash_env::job::Pid;
use yash_env::semantics::{ExitStatus, Field};
use yash_env::system::r#virtual::{FileBody, Inode, OpenFileDescription, SystemState};
use yash_env::system::Mode;
use yash_env::Env;
use yvcommon::shell::{self, ShellSystem};

/// (short name used in the specification, path in the simulated file system)
pub const PATHS: &[(&str, &str)] = &[
    ("a", "/tmp/a"),
    ("b", "/tmp/b"),
    ("c", "/tmp/c"),
    ("m", "/tmp/m"),
    ("n", "/tmp/n"),
    ("d", "/tmp/d"),
    ("t", "/tmp/t"),
    ("si", "/dev/stdin"),
    ("so", "/dev/stdout"),
    ("se", "/dev/stderr"),
    ("s", "/tmp/s"),
    ("x", "/tmp/x"),
];

pub fn real_path(short: &str) -> &'static str {
    PATHS.iter().find(|(s, _)| *s == short).map(|(_, r)| *r).unwrap_or_else(|| panic!("unknown path {short}"))
}

thread_local! {
    static STATE: RefCell<Option<Rc<RefCell<SystemState>>>> = const { RefCell::new(None) };
    /// Identity registry: a `Weak` keeps the allocation alive, so an address
    /// is never reused for another open file description during the run.
    static OFDS: RefCell<Vec<Weak<RefCell<OpenFileDescription>>>> = const { RefCell::new(Vec::new()) };
    /// Tracked files of the run in progress (short names).
    static TRACKED: RefCell<Vec<&'static str>> = const { RefCell::new(Vec::new()) };
    /// Set when an observation could not be made (harness problem, exit 2).
    pub static TOOL_ERROR: RefCell<Option<String>> = const { RefCell::new(None) };
}

pub fn begin_run(state: &Rc<RefCell<SystemState>>, tracked: &[&'static str]) {
    STATE.with(|s| *s.borrow_mut() = Some(Rc::clone(state)));
    OFDS.with(|o| o.borrow_mut().clear());
    TRACKED.with(|t| *t.borrow_mut() = tracked.to_vec());
}

pub fn with_state<T>(f: impl FnOnce(&Rc<RefCell<SystemState>>) -> T) -> Option<T> {
    STATE.with(|s| s.borrow().as_ref().map(f))
}

pub fn end_run() {
    STATE.with(|s| *s.borrow_mut() = None);
    OFDS.with(|o| o.borrow_mut().clear());
}

fn ofd_id(rc: &Rc<RefCell<OpenFileDescription>>) -> usize {
    OFDS.with(|o| {
        let mut o = o.borrow_mut();
        let p = Rc::as_ptr(rc);
        if let Some(i) = o.iter().position(|w| std::ptr::eq(w.as_ptr(), p)) {
            i
        } else {
            o.push(Rc::downgrade(rc));
            o.len() - 1
        }
    })
}

/// Content as 3-byte units: `XY\n` -> "XY", three NULs -> "00".  A content
/// that is not made of such units (diagnostics were written to the file) is
/// reported as the single token "!!": present, regular, content not tracked.
pub fn tokens(content: &[u8]) -> Vec<String> {
    let mut out = vec![];
    for c in content.chunks(3) {
        if c.len() == 3 && c[2] == b'\n' && c[0].is_ascii_alphanumeric() && c[1].is_ascii_alphanumeric() {
            out.push(format!("{}{}", c[0] as char, c[1] as char));
        } else if c.len() == 3 && c.iter().all(|&b| b == 0) {
            out.push("00".to_string());
        } else {
            return vec!["!!".to_string()];
        }
    }
    out
}

fn short_name(real: &str) -> String {
    PATHS.iter().find(|(_, r)| *r == real).map(|(s, _)| s.to_string()).unwrap_or_else(|| real.to_string())
}

/// Descriptor table of process `pid`.
pub fn table(state: &Rc<RefCell<SystemState>>, pid: i32) -> Vec<Value> {
    let paths = shell::inode_paths(state);
    let st = state.borrow();
    let Some(p) = st.processes.get(&Pid(pid)) else {
        return vec![];
    };
    let mut out = vec![];
    for (fd, body) in p.fds() {
        let id = ofd_id(&body.open_file_description);
        let cx = body.flags.contains(yash_env::system::FdFlag::CloseOnExec);
        let Ok(mut ofd) = body.open_file_description.try_borrow_mut() else {
            TOOL_ERROR.with(|t| *t.borrow_mut() = Some("open file description is borrowed during obs".into()));
            continue;
        };
        let dbg = format!("{:?}", *ofd);
        let app = if dbg.contains("is_appending: true") {
            true
        } else if dbg.contains("is_appending: false") {
            false
        } else {
            TOOL_ERROR.with(|t| *t.borrow_mut() = Some("cannot read is_appending from Debug output".into()));
            false
        };
        let inode = Rc::clone(ofd.inode());
        let iptr = Rc::as_ptr(&inode) as usize;
        let named = paths.iter().find(|(p, _)| *p == iptr).map(|(_, s)| short_name(s));
        let (seekable, anon_data, anon_kind) = {
            let b = inode.borrow();
            match &b.body {
                FileBody::Regular { content, .. } => (true, tokens(content), "#"),
                FileBody::Fifo { .. } => (false, vec![], "|"),
                _ => (false, vec![], "?"),
            }
        };
        let off: i64 = if seekable {
            match ofd.seek(SeekFrom::Current(0)) {
                Ok(n) if n % 3 == 0 => (n / 3) as i64,
                Ok(_) => -2,
                Err(_) => -2,
            }
        } else {
            0
        };
        let (path, data) = match named {
            Some(s) => (s, vec![]),
            None => (anon_kind.to_string(), if anon_kind == "#" { anon_data } else { vec![] }),
        };
        out.push(json!({
            "fd": fd.0, "id": id, "cx": cx, "r": ofd.is_readable(), "w": ofd.is_writable(),
            "app": app, "off": off, "path": path, "data": data,
        }));
    }
    out
}

pub fn files(state: &Rc<RefCell<SystemState>>) -> Vec<Value> {
    let tracked = TRACKED.with(|t| t.borrow().clone());
    let st = state.borrow();
    tracked
        .iter()
        .map(|short| {
            let (kind, data) = match st.file_system.get(real_path(short)) {
                Err(_) => ("none", vec![]),
                Ok(inode) => match &inode.borrow().body {
                    FileBody::Regular { content, .. } => ("reg", tokens(content)),
                    FileBody::Directory { .. } => ("dir", vec![]),
                    FileBody::Terminal { .. } => ("chr", vec![]),
                    FileBody::Fifo { .. } => ("fifo", vec![]),
                    FileBody::Symlink { .. } => ("lnk", vec![]),
                    _ => ("other", vec![]),
                },
            };
            json!({"path": short, "kind": kind, "data": data})
        })
        .collect()
}

fn obs_main<S: ShellSystem>(env: &mut Env<S>, args: Vec<Field>) -> Pin<Box<dyn Future<Output = BResult> + '_>> {
    Box::pin(async move {
        // the command under test is over (or its body has started): no more faults
        let fired = crate::faulty::fired();
        crate::faulty::disarm();
        let entry_status = env.exit_status;
        let spec = args.first().map(|f| f.value.clone()).unwrap_or_default();
        let (tag, ret) = match spec.split_once('=') {
            Some((t, n)) => (t.to_string(), n.parse::<i32>().ok()),
            None => (spec, None),
        };
        let letter = tag.chars().nth(1).or_else(|| tag.chars().next()).unwrap_or('q');
        let pid = env.system.getpid().0;
        let Some(state) = STATE.with(|s| s.borrow().clone()) else {
            return BResult::new(entry_status);
        };
        let tab = table(&state, pid);
        let fl = files(&state);
        let mut wr = vec![];
        for a in args.iter().skip(1) {
            let Ok(n) = a.value.parse::<i32>() else { continue };
            let tok = format!("{letter}{n}");
            let bytes = format!("{tok}\n");
            let ok = env.system.write_all(Fd(n), bytes.as_bytes()).await.is_ok();
            wr.push(json!({"fd": n, "tok": tok, "ok": ok}));
        }
        shell::push_event(json!({"ev": "obs", "tag": tag, "pid": pid, "st": entry_status.0,
                                 "tab": tab, "files": fl, "wr": wr, "fired": fired}));
        BResult::new(ret.map(ExitStatus).unwrap_or(entry_status))
    })
}

/// `arm CALL N ERRNO`: the N-th system call of kind CALL from now on fails with
/// ERRNO (until the next `obs`).
fn arm_main<S: ShellSystem>(env: &mut Env<S>, args: Vec<Field>) -> Pin<Box<dyn Future<Output = BResult> + '_>> {
    Box::pin(async move {
        let a: Vec<&str> = args.iter().map(|f| f.value.as_str()).collect();
        match (a.first().and_then(|c| crate::faulty::Call::parse(c)), a.get(1).and_then(|n| n.parse::<u32>().ok()),
               a.get(2).and_then(|e| crate::faulty::errno_of(e))) {
            (Some(c), Some(n), Some(e)) => crate::faulty::arm(c, n, e),
            _ => TOOL_ERROR.with(|t| *t.borrow_mut() = Some(format!("bad arm arguments {a:?}"))),
        }
        BResult::new(env.exit_status)
    })
}

pub fn register<S: ShellSystem>(env: &mut Env<S>) {
    env.builtins.insert("obs", Builtin::new(Type::Mandatory, obs_main::<S>));
    env.builtins.insert("arm", Builtin::new(Type::Mandatory, arm_main::<S>));
}

/// Creates the character device /tmp/t (FileSpec has no such kind).
pub fn make_terminal(state: &Rc<RefCell<SystemState>>) {
    let inode = Inode {
        body: FileBody::Terminal { content: vec![] },
        permissions: Mode::from_bits_truncate(0o666),
    };
    state.borrow_mut().file_system.save("/tmp/t", Rc::new(RefCell::new(inode))).unwrap();
}

/// Finds the last `obs` event with the given tag.
pub fn find<'a>(events: &'a [Value], tag: &str) -> Option<&'a Value> {
    events.iter().rev().find(|e| e["ev"] == "obs" && e["tag"] == tag)
}
