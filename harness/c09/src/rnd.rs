//! P3: seeded random scripts well beyond the exhaustive bounds (longer
//! lists, all targets 0-9, nested compound commands and functions with their
//! own redirections, subshells, `exec` persisting over later commands,
//! pipelines, command substitutions, here-documents, changing `noclobber` and
//! descriptor limit; every third script is run by an interactive shell, where
//! `exec` with operands that cannot be executed and the errors of special
//! built-ins do not end the shell).  Every observed command yields one record
//! {AST of the command, tables before / inside / after, writes, files, $?}
//! that spec/Trace_Redir.tla judges with the oracle RedirAbs.
use crate::probe;
use crate::scen::{self, NO_LIMIT};
use rand::rngs::StdRng;
use rand::{Rng, SeedableRng};
use serde_json::{Value, json};
use std::io::Write;
use yvcommon::util;

pub const TRACKED_P3: &[&str] = &["a", "b", "c", "m", "n", "d", "t", "si", "so", "se", "s"];

struct Meta {
    letter: char,
    kind: &'static str,
    list: Vec<Value>,
    bst: i64,
    btag: String,
    ctag: String,
    atag: String,
    depth: usize,
    stchk: bool,
    fchk: bool,
    nc: bool,
    lim: i64,
    /// letters of the observed commands nested inside this one
    inner: Vec<char>,
    /// a system call was made to fail while this command was applied
    flt: bool,
    /// executed by the interactive shell itself (not in a subshell of it)
    inter: bool,
}

struct Gen {
    rng: StdRng,
    next: usize,
    nc: bool,
    lim: i64,
    /// the script is run by an interactive shell
    inter: bool,
    /// subshell nesting depth of the command being generated
    sub: usize,
    metas: Vec<Meta>,
    /// script files for the `.` built-in: (path, content)
    dots: Vec<(String, String)>,
}

const LETTERS: &[u8] = b"ABCDEFGHIJKLMNOPQRSTUVWXYZabdefghijklmnopqrstuvwxy";

impl Gen {
    fn letter(&mut self) -> Option<char> {
        let l = LETTERS.get(self.next).map(|&b| b as char);
        self.next += 1;
        l
    }

    fn pick<T: Copy>(&mut self, xs: &[T]) -> T {
        xs[self.rng.gen_range(0..xs.len())]
    }

    /// `here_ok`: here-documents allowed; `stable`: only files whose kind no
    /// command changes (elements of a pipeline run concurrently: whether a
    /// file another element creates exists yet would be a race)
    fn redir(&mut self, here_ok: bool, stable: bool) -> Value {
        let t = self.pick(&[0, 1, 1, 2, 2, 3, 3, 4, 5, 6, 7, 8, 9]);
        let x = self.rng.gen_range(0..100);
        let path = if stable {
            self.pick(&["a", "a", "b", "c", "d", "t"])
        } else {
            self.pick(&["a", "a", "b", "c", "m", "m", "n", "d", "t"])
        };
        let n = self.pick(&[0, 0, 1, 1, 1, 2, 2, 2, 3, 3, 4, 5, 6, 7, 8, 9, 10, 11]);
        let (op, path, n) = match x {
            0..=9 => ("in", path, -1),
            10..=24 => ("out", path, -1),
            25..=31 => ("clob", path, -1),
            32..=41 => ("app", path, -1),
            42..=49 => ("rw", path, -1),
            50..=61 => ("dupin", "", n),
            62..=79 => ("dupout", "", n),
            80..=84 => ("closein", "", -1),
            85..=91 => ("closeout", "", -1),
            _ if here_ok => ("here", "", -1),
            _ => ("dupout", "", n),
        };
        let data: Vec<String> = if op == "here" {
            (0..self.rng.gen_range(0..3)).map(|i| format!("h{i}")).collect()
        } else {
            vec![]
        };
        let cs = !path.is_empty() && !stable && self.rng.gen_range(0..100) < 12;
        json!({"t": t, "op": op, "path": path, "n": n, "data": data, "cs": cs})
    }

    fn redirs(&mut self, max: usize, here_ok: bool, stable: bool) -> Vec<Value> {
        let n = self.rng.gen_range(0..=max);
        (0..n).map(|_| self.redir(here_ok, stable)).collect()
    }

    /// Sometimes: the text arming the fault injector for the next command.
    fn fault(&mut self) -> Option<String> {
        if self.rng.gen_range(0..100) >= 15 {
            return None;
        }
        let call = self.pick(&["open", "tmp", "dup", "dup", "write", "lseek", "pipe", "pipe"]);
        let n = self.rng.gen_range(1..=3);
        Some(format!("arm {call} {n} EIO\n"))
    }

    fn marks(&mut self) -> String {
        let mut fds: Vec<i32> = (0..10).filter(|_| self.rng.gen_range(0..100) < 45).collect();
        if fds.is_empty() {
            fds.push(1);
        }
        fds.iter().map(|f| f.to_string()).collect::<Vec<_>>().join(" ")
    }

    fn meta(&mut self, letter: char, kind: &'static str, list: Vec<Value>, bst: i64, depth: usize, stchk: bool, fchk: bool) {
        self.metas.push(Meta {
            letter,
            kind,
            list,
            bst,
            btag: format!("b{letter}"),
            ctag: format!("c{letter}"),
            atag: format!("a{letter}"),
            depth,
            stchk,
            fchk,
            nc: self.nc,
            lim: self.lim,
            inner: vec![],
            flt: false,
            inter: self.inter && self.sub == 0,
        });
    }

    /// One observed command (with the observations around it), as script text.
    fn command(&mut self, depth: usize, exec_ok: bool, out: &mut String) {
        let Some(l) = self.letter() else { return };
        let x = self.rng.gen_range(0..100);
        if x < 62 || depth >= 3 {
            self.leaf(l, depth, exec_ok, out);
        } else if x < 80 {
            self.nest(l, depth, out);
        } else if x < 92 {
            self.pipeline(l, depth, out);
        } else {
            self.subst(l, depth, out);
        }
    }

    fn leaf(&mut self, l: char, depth: usize, exec_ok: bool, out: &mut String) {
        let mut kind = self.pick(&[
            "special", "builtin", "builtin", "function", "function", "group", "group", "subshell", "subshell",
            "notfound", "external", "empty", "exec", "dot", "cmddot",
        ]);
        // `exec` changes the table of the enclosing command for good: only
        // where no enclosing command of the same process is being judged
        if kind == "exec" && !exec_ok {
            kind = "group";
        }
        // `exec` with operands: where the shell survives it (an interactive shell)
        if kind == "exec" && self.inter && self.sub == 0 && self.rng.gen_bool(0.6) {
            kind = self.pick(&["execnf", "execnx", "execne", "execdir", "execxf"]);
        }
        let mut list = self.redirs(4, true, false);
        if kind == "empty" && list.is_empty() {
            list.push(self.redir(true, false));
        }
        let mut bst = if matches!(kind, "builtin" | "function" | "group") && self.rng.gen_bool(0.3) { 3 } else { 0 };
        let marks = self.marks();
        let tag = format!("c{l}");
        let mut bodies = String::new();
        let mut dn = 0;
        let rs = scen::redirs_text(&json!(list), &mut bodies, &mut dn);
        if kind == "function" {
            out.push_str(&format!("fn{l}() {{ obs {tag} {marks}; return {bst}; }}\n"));
        }
        out.push_str(&format!("obs b{l}\n"));
        let fault = self.fault();
        if let Some(f) = &fault {
            out.push_str(f);
        }
        let body = format!("obs {tag}={bst} {marks}");
        let line = match kind {
            "group" => match self.rng.gen_range(0..5) {
                0 => format!("{{ {body}; }} {rs}"),
                1 => format!("if true; then {body}; fi {rs}"),
                2 => {
                    bst = 0;
                    format!("while true; do obs {tag}=0 {marks}; break; done {rs}")
                }
                3 => format!("for q in 1; do {body}; done {rs}"),
                _ => format!("case x in x) {body};; esac {rs}"),
            },
            "function" => format!("fn{l} {rs}"),
            // the dot built-in reads the body from a file, which the shell keeps
            // open on a descriptor of its own meanwhile
            "dot" | "cmddot" => {
                self.dots.push((format!("/tmp/dot{l}"), format!("{body}\n")));
                format!("{}. /tmp/dot{l} {rs}", if kind == "cmddot" { "command " } else { "" })
            }
            _ => {
                let t = scen::command_text(kind, bst, &json!([]), &tag, &marks, "");
                format!("{} {rs}", t.trim_end())
            }
        };
        out.push_str(&line);
        out.push('\n');
        out.push_str(&bodies);
        out.push_str(&format!("obs a{l}\n"));
        // an external utility that is found: the simulated OS cannot run it (execve
        // fails in the child), what status results is the simulator's business
        self.meta(l, kind, list, bst, depth, kind != "external", true);
        self.metas.last_mut().unwrap().flt = fault.is_some();
    }

    fn nest(&mut self, l: char, depth: usize, out: &mut String) {
        let kind = self.pick(&["group", "function", "subshell"]);
        let list = self.redirs(3, true, false);
        let mut bodies = String::new();
        let mut dn = 0;
        let rs = scen::redirs_text(&json!(list), &mut bodies, &mut dn);
        let first_inner = self.next;
        let mut inner = String::new();
        let n = self.rng.gen_range(1..=3);
        if kind == "subshell" {
            self.sub += 1;
        }
        for _ in 0..n {
            self.command(depth + 1, kind == "subshell", &mut inner);
        }
        if kind == "subshell" {
            self.sub -= 1;
        }
        let inner_letters: Vec<char> =
            (first_inner..self.next).filter_map(|i| LETTERS.get(i).map(|&b| b as char)).collect();
        let Some(&fl) = LETTERS.get(first_inner) else { return };
        // the nested commands' text ends with a newline: fine inside { }, ( ) and function bodies
        match kind {
            "group" => {
                out.push_str(&format!("obs b{l}\n{{\n{inner}}} {rs}\n{bodies}obs a{l}\n"));
            }
            "subshell" => {
                out.push_str(&format!("obs b{l}\n(\n{inner}) {rs}\n{bodies}obs a{l}\n"));
            }
            _ => {
                out.push_str(&format!("gn{l}() {{\n{inner}}}\nobs b{l}\ngn{l} {rs}\n{bodies}obs a{l}\n"));
            }
        }
        let idx = self.metas.len();
        self.meta(l, kind, list, 0, depth, false, false);
        // what the body saw = the table just before its first command
        self.metas[idx].ctag = format!("b{}", fl as char);
        self.metas[idx].inner = inner_letters;
    }

    fn pipeline(&mut self, l: char, depth: usize, out: &mut String) {
        let n = self.rng.gen_range(2..=3);
        let fault = self.fault();
        let mut parts = vec![];
        let mut letters = vec![l];
        for _ in 1..n {
            match self.letter() {
                Some(x) => letters.push(x),
                None => break,
            }
        }
        let n = letters.len();
        for (j, &e) in letters.iter().enumerate() {
            let user = self.redirs(2, false, true);
            let mut bodies = String::new();
            let mut dn = 0;
            let rs = scen::redirs_text(&json!(user), &mut bodies, &mut dn);
            parts.push(format!("obs c{e} {rs}"));
            let mut list = vec![];
            if j > 0 {
                list.push(json!({"t": 0, "op": "piper", "path": "", "n": -1, "data": []}));
            }
            if j + 1 < n {
                list.push(json!({"t": 1, "op": "pipew", "path": "", "n": -1, "data": []}));
            }
            list.extend(user);
            let idx = self.metas.len();
            self.meta(e, "pipe", list, 0, depth, false, false);
            self.metas[idx].inter = false;
            self.metas[idx].btag = format!("b{l}");
            self.metas[idx].atag = format!("a{l}");
            self.metas[idx].flt = fault.is_some();
        }
        out.push_str(&format!("obs b{l}\n{}{}\nobs a{l}\n", fault.unwrap_or_default(), parts.join(" | ")));
    }

    fn subst(&mut self, l: char, depth: usize, out: &mut String) {
        let user = self.redirs(2, false, false);
        let mut bodies = String::new();
        let mut dn = 0;
        let rs = scen::redirs_text(&json!(user), &mut bodies, &mut dn);
        let marks = self.marks();
        let mut list = vec![json!({"t": 1, "op": "pipew", "path": "", "n": -1, "data": []})];
        list.extend(user);
        let fault = self.fault();
        out.push_str(&format!("obs b{l}\n{}v=$(obs c{l} {marks} {rs})\nobs a{l}\n", fault.clone().unwrap_or_default()));
        self.meta(l, "pipe", list, 0, depth, false, true);
        self.metas.last_mut().unwrap().flt = fault.is_some();
        self.metas.last_mut().unwrap().inter = false;
    }
}

fn gen_script(seed: u64, inter: bool) -> (String, Vec<Meta>, Vec<(String, String)>) {
    let mut g = Gen {
        rng: StdRng::seed_from_u64(seed),
        next: 0,
        nc: false,
        lim: NO_LIMIT,
        inter,
        sub: 0,
        metas: vec![],
        dots: vec![],
    };
    let mut s = String::from("trap 'obs z' EXIT\n");
    let n = g.rng.gen_range(4..=9);
    for _ in 0..n {
        match g.rng.gen_range(0..100) {
            0..=7 => {
                g.nc = !g.nc;
                s.push_str(if g.nc { "set -C\n" } else { "set +C\n" });
            }
            8..=13 => {
                g.lim = g.rng.gen_range(3..=16);
                s.push_str(&format!("ulimit -n {}\n", g.lim));
            }
            _ => g.command(0, true, &mut s),
        }
    }
    (s, g.metas, g.dots)
}

/// `random --runs N --out records.ndjson [--scripts file]`
pub fn random(args: &[String]) -> i32 {
    util::quiet_panics();
    let runs = util::opt_usize(args, "--runs", 100);
    let base = util::seed();
    let mut w = util::open_out(args);
    let mut sw = util::opt(args, "--scripts").map(|p| std::fs::File::create(p).expect("create --scripts"));
    let mut id: i64 = util::opt_usize(args, "--id-base", 0) as i64;
    let id0 = id;
    let mut dropped = 0usize;
    for run in 0..runs {
        let seed = base.wrapping_mul(1_000_003).wrapping_add(run as u64);
        let inter = run % 3 == 2;
        let (script, metas, dots) = gen_script(seed, inter);
        let as_file = run % 4 == 3;
        let r = scen::run_script_with(&script, as_file, inter, TRACKED_P3, &dots);
        if let Some(e) = probe::TOOL_ERROR.with(|t| t.borrow_mut().take()) {
            eprintln!("yv-c09: observation failed: {e}");
            return 2;
        }
        if let Some(sw) = sw.as_mut() {
            writeln!(sw, "{}", json!({"run": run, "seed": seed, "file": as_file, "interactive": inter, "script": script}))
                .unwrap();
        }
        for m in &metas {
            // a command the shell exited in is judged only at top level: deeper,
            // the table seen by the EXIT trap is the unwound outer one
            let Some((mut rec, _)) = scen::record(&r, &m.btag, &m.ctag, &m.atag, m.depth == 0) else {
                dropped += 1;
                continue;
            };
            id += 1;
            let o = rec.as_object_mut().unwrap();
            o.insert("id".into(), json!(id));
            o.insert("run".into(), json!(run));
            o.insert("cmd".into(), json!(m.letter.to_string()));
            o.insert("kind".into(), json!(m.kind));
            o.insert("inter".into(), json!(m.inter));
            o.insert("nc".into(), json!(m.nc));
            o.insert("lim".into(), json!(m.lim));
            o.insert("bst".into(), json!(m.bst));
            o.insert("list".into(), json!(m.list));
            o.insert("flt".into(), json!(m.flt));
            o.insert("stchk".into(), json!(m.stchk));
            o.insert("fchk".into(), json!(m.fchk));
            o.insert("oc".into(), json!(scen::outcome_str(&r.outcome)));
            o.insert("drift".into(), json!(""));
            o.insert("init".into(), json!("random"));
            o.insert("inner".into(), json!(m.inner.iter().map(|c| c.to_string()).collect::<Vec<_>>()));
            writeln!(w, "{rec}").unwrap();
        }
    }
    w.flush().unwrap();
    eprintln!("records={} dropped={dropped}", id - id0);
    0
}
