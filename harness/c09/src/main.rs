//! Conformance harness for property C09, see /verif/DESIGN.md.
fn main() {
    eprintln!("yv-c09: not implemented yet");
    std::process::exit(2);
}
