//! Conformance harness for property C09 (redirections), see /verif/DESIGN.md
//! and spec/Redir.tla, spec/RedirAbs.tla, spec/Trace_Redir.tla.
mod faulty;
mod probe;
mod runner;
mod rnd;
mod scen;

fn main() {
    let args: Vec<String> = std::env::args().collect();
    if args.len() < 2 {
        eprintln!("usage: yv-c09 <replay|random|script> ...");
        std::process::exit(2);
    }
    let rest = &args[2..];
    let code = match args[1].as_str() {
        "replay" => scen::replay(rest),
        "random" => rnd::random(rest),
        "script" => scen::script(rest),
        other => {
            eprintln!("unknown subcommand {other}");
            2
        }
    };
    std::process::exit(code);
}
