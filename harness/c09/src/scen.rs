//! P2: every scenario enumerated by TLC (spec/Redir.tla) is turned into a
//! script, run by the real shell on the simulated OS, and the observation is
//! written as one record for the oracle (spec/Trace_Redir.tla).
use crate::probe;
use serde_json::{Value, json};
use std::io::{BufRead, Write};
use yvcommon::sched::Outcome;
use yvcommon::shell::{FileSpec, ShellResult};
use yvcommon::util;

pub const NO_LIMIT: i64 = 9999;
pub const MARK_FDS: &str = "0 1 2 3 5";

/// Text of one redirection; a here-document's body is appended to `bodies`.
pub fn redir_text(r: &Value, bodies: &mut String, delim_no: &mut usize) -> String {
    let t = r["t"].as_i64().unwrap();
    let op = r["op"].as_str().unwrap();
    let path = r["path"].as_str().unwrap_or("");
    let n = r["n"].as_i64().unwrap_or(-1);
    // "cs": the pathname is produced by a command substitution (the shell's
    // own pipe traffic happens while the target's saved copy exists)
    let word = |p: &str| {
        if r["cs"].as_bool().unwrap_or(false) {
            format!("$(echo {})", probe::real_path(p))
        } else {
            probe::real_path(p).to_string()
        }
    };
    match op {
        "in" => format!("{t}<{}", word(path)),
        "out" => format!("{t}>{}", word(path)),
        "clob" => format!("{t}>|{}", word(path)),
        "app" => format!("{t}>>{}", word(path)),
        "rw" => format!("{t}<>{}", word(path)),
        "dupin" => format!("{t}<&{n}"),
        "dupout" => format!("{t}>&{n}"),
        "closein" => format!("{t}<&-"),
        "closeout" => format!("{t}>&-"),
        "here" => {
            *delim_no += 1;
            let d = format!("EOF{}", *delim_no);
            for tok in r["data"].as_array().unwrap() {
                bodies.push_str(tok.as_str().unwrap());
                bodies.push('\n');
            }
            bodies.push_str(&d);
            bodies.push('\n');
            format!("{t}<<{d}")
        }
        other => panic!("unknown operator {other}"),
    }
}

pub fn redirs_text(list: &Value, bodies: &mut String, delim_no: &mut usize) -> String {
    list.as_array()
        .unwrap()
        .iter()
        .map(|r| redir_text(r, bodies, delim_no))
        .collect::<Vec<_>>()
        .join(" ")
}

/// The command under test (one logical line plus here-document bodies).
pub fn command_text(kind: &str, bst: i64, list: &Value, tag: &str, marks: &str, fname: &str) -> String {
    let mut bodies = String::new();
    let mut dn = 0;
    let rs = redirs_text(list, &mut bodies, &mut dn);
    let line = match kind {
        "special" => format!("eval 'obs {tag}={bst} {marks}' {rs}"),
        // the body is in the file /tmp/x (see `dot_file`)
        "dot" => format!(". /tmp/x {rs}"),
        "cmddot" => format!("command . /tmp/x {rs}"),
        "builtin" => format!("obs {tag}={bst} {marks} {rs}"),
        "function" => format!("{fname} {rs}"),
        "group" => format!("{{ obs {tag}={bst} {marks}; }} {rs}"),
        "subshell" => format!("( obs {tag}={bst} {marks} ) {rs}"),
        "notfound" => format!("no_such_command_c09 {rs}"),
        "external" => format!("/bin/true {rs}"),
        "empty" => rs.to_string(),
        "exec" => format!("exec {rs}"),
        // `exec` with operands: the utility is not in PATH / a pathname that does not
        // exist / a file without execute permission / a directory / an executable
        // that the (simulated) system refuses to execute
        "execnf" => format!("exec no_such_command_c09 {rs}"),
        "execnx" => format!("exec /tmp/nx/utility {rs}"),
        "execne" => format!("exec /tmp/c arg {rs}"),
        "execdir" => format!("exec /tmp/d {rs}"),
        "execxf" => format!("exec true arg {rs}"),
        other => panic!("unknown kind {other}"),
    };
    format!("{line}\n{bodies}")
}

pub fn script_of(sc: &Value) -> String {
    let kind = sc["kind"].as_str().unwrap();
    let init = sc["init"].as_str().unwrap();
    let bst = sc["bst"].as_i64().unwrap();
    let lim = sc["lim"].as_i64().unwrap();
    let mut s = String::new();
    s.push_str("trap 'obs z' EXIT\n");
    if sc["nc"].as_bool().unwrap() {
        s.push_str("set -C\n");
    }
    match init {
        "std" | "int" => {}
        "x35" => s.push_str("exec 3</tmp/a 5>>/tmp/b\n"),
        "full" => s.push_str("exec 3</tmp/a 4</tmp/a 5</tmp/a 6</tmp/a 7</tmp/a 8</tmp/a 9</tmp/a\n"),
        other => panic!("unknown init {other}"),
    }
    if kind == "function" {
        s.push_str(&format!("f() {{ obs c {MARK_FDS}; return {bst}; }}\n"));
    }
    if lim != NO_LIMIT {
        s.push_str(&format!("ulimit -n {lim}\n"));
    }
    s.push_str("obs b\n");
    // fault injection: the n-th system call of a kind fails while this command is applied
    if let Some(call) = sc["fault"]["call"].as_str().filter(|c| *c != "none") {
        s.push_str(&format!("arm {call} {} {}\n", sc["fault"]["n"], sc["fault"]["errno"].as_str().unwrap_or("EIO")));
    }
    s.push_str(&command_text(kind, bst, &sc["list"], "c", MARK_FDS, "f"));
    s.push_str("obs a\n");
    s
}

pub const TRACKED_P2: &[&str] = &["a", "b", "m", "d", "t", "si", "so", "se", "s", "x"];

/// The script read by the dot built-in in scenarios of kind dot / cmddot.
pub fn dot_file(bst: i64) -> (String, String) {
    ("/tmp/x".to_string(), format!("obs c={bst} {MARK_FDS}\n"))
}

pub fn base_files() -> Vec<FileSpec> {
    vec![
        FileSpec::Regular { path: "/tmp/a".into(), content: b"x0\ny0\n".to_vec(), mode: 0o644 },
        FileSpec::Regular { path: "/tmp/b".into(), content: b"z0\n".to_vec(), mode: 0o644 },
        FileSpec::Regular { path: "/tmp/c".into(), content: b"w0\nw1\nw2\n".to_vec(), mode: 0o644 },
        FileSpec::Dir { path: "/tmp/d".into() },
    ]
}

/// Runs `script` (`-c`, or as the script file /tmp/s when `as_file`).
/// `extra`: additional regular files (path, content).
pub fn run_script_with(
    script: &str,
    as_file: bool,
    interactive: bool,
    tracked: &'static [&'static str],
    extra: &[(String, String)],
) -> ShellResult {
    let mut files = base_files();
    // /tmp/s always exists so that the tracked file set does not depend on the mode
    files.push(FileSpec::Regular {
        path: "/tmp/s".into(),
        content: if as_file { script.as_bytes().to_vec() } else { vec![] },
        mode: 0o644,
    });
    for (path, content) in extra {
        files.push(FileSpec::Regular { path: path.clone(), content: content.as_bytes().to_vec(), mode: 0o644 });
    }
    let mut argv: Vec<String> = vec!["yash".into()];
    if interactive {
        // an interactive shell without job control (no terminal here)
        argv.extend(["-i".into(), "+m".into()]);
    }
    if as_file {
        argv.push("/tmp/s".into());
    } else {
        argv.extend(["-c".into(), script.into()]);
    }
    crate::runner::run(crate::runner::RunCfg { argv, files, cwd: "/tmp".into(), step_limit: 200_000, tracked })
}

pub fn outcome_str(o: &Outcome) -> String {
    match o {
        Outcome::Completed => "completed".into(),
        Outcome::Deadlock => "deadlock".into(),
        Outcome::StepLimit => "steplimit".into(),
        Outcome::Panic(m) => format!("panic: {}", m.chars().take(200).collect::<String>()),
    }
}

/// Observation record of the command between `obs <b>` and `obs <a>`.
#[allow(clippy::too_many_arguments)]
pub fn record(
    r: &ShellResult,
    btag: &str,
    ctag: &str,
    atag: &str,
    allow_exit: bool,
) -> Option<(Value, bool)> {
    let b = probe::find(&r.events, btag)?;
    let c = probe::find(&r.events, ctag);
    let a = probe::find(&r.events, atag);
    let (after, exited) = match a {
        Some(a) => (a.clone(), false),
        None => {
            if !allow_exit {
                return None;
            }
            match probe::find(&r.events, "z").or_else(|| probe::find(&r.events, "zz")) {
                Some(z) => (z.clone(), true),
                // no observation at all after the command: panic / deadlock / step limit
                None => (json!({"tab": [], "files": b["files"], "st": r.status}), true),
            }
        }
    };
    let st = if exited { r.status as i64 } else { after["st"].as_i64().unwrap() };
    // did an injected fault hit a system call made for this command?
    let fired = c.is_some_and(|c| c["fired"] == true) || after["fired"] == true;
    Some((
        json!({
            "before": b["tab"], "files0": b["files"],
            "ran": c.is_some(),
            "in": c.map(|c| c["tab"].clone()).unwrap_or(json!([])),
            "wr": c.map(|c| c["wr"].clone()).unwrap_or(json!([])),
            "after": after["tab"], "files1": after["files"],
            "st": st, "exited": exited, "fired": fired,
        }),
        exited,
    ))
}

fn brief(tab: &Value) -> Vec<(i64, i64, i64)> {
    tab.as_array()
        .unwrap()
        .iter()
        .map(|e| (e["fd"].as_i64().unwrap(), e["id"].as_i64().unwrap(), e["cx"].as_bool().unwrap() as i64))
        .collect()
}

fn brief_exp(tab: &Value) -> Vec<(i64, i64, i64)> {
    tab.as_array()
        .unwrap()
        .iter()
        .map(|e| (e[0].as_i64().unwrap(), e[1].as_i64().unwrap(), e[2].as_i64().unwrap()))
        .collect()
}

/// Renames identities in order of first appearance.
fn canon(tabs: &[Vec<(i64, i64, i64)>]) -> Vec<Vec<(i64, i64, i64)>> {
    let mut names: Vec<i64> = vec![];
    tabs.iter()
        .map(|t| {
            t.iter()
                .map(|&(fd, id, cx)| {
                    let k = match names.iter().position(|&x| x == id) {
                        Some(k) => k,
                        None => {
                            names.push(id);
                            names.len() - 1
                        }
                    };
                    (fd, k as i64, cx)
                })
                .collect()
        })
        .collect()
}

/// Does the observation differ from the driver model's prediction?
fn drift(sc: &Value, exp: &Value, rec: &Value) -> Vec<&'static str> {
    let mut d = vec![];
    if exp["ran"] != rec["ran"] {
        d.push("ran");
    }
    if exp["exited"] != rec["exited"] {
        d.push("exited");
    }
    if exp["st"] != rec["st"] {
        d.push("st");
    }
    let before = brief(&rec["before"]);
    let o = canon(&[before.clone(), brief(&rec["in"]), brief(&rec["after"])]);
    // the model's initial identities coincide with the observed ones by construction
    let e = canon(&[before, brief_exp(&exp["tin"]), brief_exp(&exp["after"])]);
    if o[1] != e[1] {
        d.push("in");
    }
    if o[2] != e[2] {
        d.push("after");
    }
    let wr_o: Vec<bool> = rec["wr"].as_array().unwrap().iter().map(|w| w["ok"].as_bool().unwrap()).collect();
    let wr_e: Vec<bool> = exp["wr"].as_array().unwrap().iter().map(|w| w.as_bool().unwrap()).collect();
    if wr_o != wr_e {
        d.push("wr");
    }
    let diag = exp["failed"].as_i64().unwrap() != 0
        || sc["kind"].as_str().is_some_and(|k| k == "notfound" || (k.starts_with("exec") && k != "exec"));
    if !diag {
        for f in exp["files"].as_array().unwrap() {
            if f["path"] == "se" || f["path"] == "s" {
                continue;
            }
            if f["kind"] == "chr" {
                continue; // the content of a character device is not recorded
            }
            let of = rec["files1"].as_array().unwrap().iter().find(|x| x["path"] == f["path"]);
            if of.map(|x| (&x["kind"], &x["data"])) != Some((&f["kind"], &f["data"])) {
                d.push("files");
                break;
            }
        }
    }
    d
}

pub fn run_scenario(id: i64, line: &Value) -> Value {
    let sc = &line["sc"];
    let script = script_of(sc);
    let inter = sc["inter"].as_bool().unwrap_or(false);
    let r = run_script_with(&script, sc["init"] == "int", inter, TRACKED_P2, &[dot_file(sc["bst"].as_i64().unwrap())]);
    let (mut rec, _) = record(&r, "b", "c", "a", true).unwrap_or_else(|| {
        // not even the `before` observation: report an empty record
        (
            json!({"before": [], "files0": [], "ran": false, "in": [], "wr": [], "after": [], "files1": [],
                   "st": r.status, "exited": true, "fired": false}),
            true,
        )
    });
    let dr = if line["exp"].is_object() { drift(sc, &line["exp"], &rec) } else { vec![] };
    let m = rec.as_object_mut().unwrap();
    m.insert("id".into(), json!(id));
    for k in ["kind", "nc", "lim", "bst", "list"] {
        m.insert(k.into(), sc[k].clone());
    }
    m.insert("inter".into(), json!(inter));
    m.insert("flt".into(), json!(sc["fault"]["call"].as_str().is_some_and(|c| c != "none")));
    m.insert("stchk".into(), json!(true));
    m.insert("fchk".into(), json!(true));
    m.insert("oc".into(), json!(outcome_str(&r.outcome)));
    m.insert("drift".into(), json!(dr.join(",")));
    m.insert("init".into(), sc["init"].clone());
    rec
}

/// `replay --in scenarios.ndjson --out records.ndjson [--threads N]`
pub fn replay(args: &[String]) -> i32 {
    util::quiet_panics();
    let threads = util::opt_usize(args, "--threads", 8).max(1);
    let lines: Vec<String> = util::open_in(args).lines().map(|l| l.unwrap()).filter(|l| !l.trim().is_empty()).collect();
    let n = lines.len();
    let lines = std::sync::Arc::new(lines);
    let next = std::sync::Arc::new(std::sync::atomic::AtomicUsize::new(0));
    let mut handles = vec![];
    for _ in 0..threads {
        let lines = std::sync::Arc::clone(&lines);
        let next = std::sync::Arc::clone(&next);
        handles.push(
            std::thread::Builder::new()
                .stack_size(64 << 20)
                .spawn(move || {
                    let mut out: Vec<(usize, String)> = vec![];
                    let mut err: Option<String> = None;
                    loop {
                        let i = next.fetch_add(1, std::sync::atomic::Ordering::SeqCst);
                        if i >= lines.len() {
                            break;
                        }
                        let v: Value = serde_json::from_str(&lines[i]).expect("scenario line");
                        let rec = run_scenario(i as i64 + 1, &v);
                        if let Some(e) = probe::TOOL_ERROR.with(|t| t.borrow_mut().take()) {
                            err = Some(e);
                        }
                        out.push((i, rec.to_string()));
                    }
                    (out, err)
                })
                .unwrap(),
        );
    }
    let mut all: Vec<(usize, String)> = Vec::with_capacity(n);
    let mut tool_err = None;
    for h in handles {
        let (o, e) = h.join().expect("worker thread");
        all.extend(o);
        tool_err = tool_err.or(e);
    }
    if let Some(e) = tool_err {
        eprintln!("yv-c09: observation failed: {e}");
        return 2;
    }
    all.sort();
    let mut w = util::open_out(args);
    for (_, s) in all {
        writeln!(w, "{s}").unwrap();
    }
    w.flush().unwrap();
    0
}

/// `script --in one-scenario.json`: prints the script of a scenario (for reports).
pub fn script(args: &[String]) -> i32 {
    for l in util::open_in(args).lines() {
        let v: Value = serde_json::from_str(&l.unwrap()).unwrap();
        let sc = if v["sc"].is_object() { &v["sc"] } else { &v };
        println!("{}", script_of(sc));
    }
    0
}
