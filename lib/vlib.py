"""Shared machinery of the /verif checks: building the harness, running TLC,
collecting replay lines, validating traces, writing evidence, matching known
findings and reporting violations.

Exit-code contract (see DESIGN.md 3.5): 0 = property held on everything
explored, 1 = violation (with a `VIOLATION property=<id> replay=<path>` line),
2 = tool error / timeout (never reported as a violation).
"""
import hashlib
import json
import os
import re
import shutil
import subprocess
import sys
import time

ROOT = os.path.dirname(os.path.dirname(os.path.abspath(__file__)))
SPEC = os.path.join(ROOT, "spec")
# Mutant testing (tools/mutcheck) points these at a scratch copy so that the
# registered checks' own outputs under /verif are never disturbed.
HARNESS = os.environ.get("VERIF_HARNESS_DIR") or os.path.join(ROOT, "harness")
_SCRATCH = os.environ.get("VERIF_SCRATCH") or ROOT
WORK = os.path.join(_SCRATCH, "work")
REPLAY = os.path.join(_SCRATCH, "replay")
EVIDENCE = os.path.join(_SCRATCH, "evidence")
REPO = os.environ.get("VERIF_REPO") or "/repo"
TLA_CP = "/opt/veriftools/tla/tla2tools.jar:/opt/veriftools/tla/CommunityModules-deps.jar"


class ToolError(Exception):
    pass


def log(*a):
    print(*a, flush=True)


def seed():
    try:
        return int(os.environ.get("VERIF_SEED", "1"))
    except ValueError:
        return 1


# --------------------------------------------------------------------------
# harness
# --------------------------------------------------------------------------
_built = set()


def harness_bin(pkg):
    return os.path.join(HARNESS, "target", "release", pkg)


def build_harness(pkg):
    """(Re)build harness package `pkg` (e.g. "yv-c12") against /repo's current
    working tree.  Cargo recompiles whatever changed under /repo."""
    if pkg in _built:
        return harness_bin(pkg)
    env = dict(os.environ, CARGO_NET_OFFLINE="true")
    t0 = time.time()
    p = subprocess.run(
        ["cargo", "build", "--offline", "--release", "--quiet", "-p", pkg],
        cwd=HARNESS, env=env, stdout=subprocess.PIPE, stderr=subprocess.STDOUT, text=True,
    )
    if p.returncode != 0:
        sys.stdout.write(p.stdout[-6000:])
        raise ToolError(f"harness build failed ({pkg})")
    log(f"[build] {pkg} built in {time.time() - t0:.1f}s")
    _built.add(pkg)
    return harness_bin(pkg)


def run_harness(pkg, args, stdin_path=None, stdout_path=None, timeout=1800, env=None, check=True):
    """Run `<pkg> <args>`; returns (returncode, stdout-text or None, stderr-text)."""
    exe = build_harness(pkg)
    e = dict(os.environ)
    e.setdefault("VERIF_SEED", str(seed()))
    if env:
        e.update({k: str(v) for k, v in env.items()})
    fin = open(stdin_path, "rb") if stdin_path else subprocess.DEVNULL
    fout = open(stdout_path, "wb") if stdout_path else subprocess.PIPE
    try:
        p = subprocess.run([exe] + [str(a) for a in args], stdin=fin, stdout=fout, stderr=subprocess.PIPE,
                           timeout=timeout, env=e)
    except subprocess.TimeoutExpired:
        raise ToolError(f"harness timeout: {pkg} {' '.join(map(str, args))}")
    finally:
        if stdin_path:
            fin.close()
        if stdout_path:
            fout.close()
    err = p.stderr.decode("utf-8", "replace")
    if check and p.returncode != 0:
        sys.stdout.write(err[-4000:])
        raise ToolError(f"harness exited {p.returncode}: {pkg} {' '.join(map(str, args))}")
    out = None if stdout_path else p.stdout.decode("utf-8", "replace")
    return p.returncode, out, err


# --------------------------------------------------------------------------
# TLC
# --------------------------------------------------------------------------
class TlcResult:
    def __init__(self):
        self.rc = None
        self.generated = 0
        self.distinct = 0
        self.depth = 0
        self.lines = []          # raw stdout lines
        self.json = []           # decoded PrintT JSON payloads
        self.violation = None    # text of invariant violation, if any
        self.error = None        # text of any other error
        self.coverage = {}       # action -> count   (with -coverage)
        self.wall = 0.0
        self.ok = False


_JSON_LINE = re.compile(r'^"(\{.*\}|\[.*\])"$')


def _unquote_tla_string(s):
    # TLC prints a TLA+ string value with \" and \\ escapes
    return json.loads('"' + s + '"') if False else s.replace('\\"', '"').replace('\\\\', '\\')


def tlc(module, cfg=None, workdir=None, workers=8, timeout=900, simulate=None, depth=None,
        env=None, coverage=False, json_out=None, want_lines=False, deadlock=False,
        xmx="3g", dfid=None, extra=None, depth_first=False, tool_seed=None):
    """Run TLC on spec/<module>.tla with spec/<cfg>.  Lines printed by
    PrintT(ToJson(..)) are decoded; if json_out is a path they are streamed
    there (one JSON document per line) instead of being kept in memory."""
    os.makedirs(WORK, exist_ok=True)
    import uuid
    tag = f"{module}-{os.getpid()}-{uuid.uuid4().hex[:12]}"
    meta = os.path.join(workdir or WORK, "tlc-" + tag)
    cfg = cfg or (module + ".cfg")
    cmd = ["java", "-XX:+UseParallelGC", f"-XX:ParallelGCThreads={max(2, min(8, int(workers)))}", f"-Xmx{xmx}", "-Xss1g"]
    if depth_first:
        cmd.append("-Dtlc2.tool.queue.IStateQueue=StateDeque")
    cmd += ["-cp", TLA_CP, "tlc2.TLC", "-metadir", meta, "-cleanup", "-noGenerateSpecTE",
            "-workers", str(workers), "-config", cfg]
    if not deadlock:
        cmd.append("-deadlock")      # -deadlock = do NOT check for deadlock
    if coverage:
        cmd += ["-coverage", "1"]
    if simulate:
        cmd += ["-simulate", f"num={simulate}"]
    if depth:
        cmd += ["-depth", str(depth)]
    if tool_seed is not None:
        cmd += ["-seed", str(tool_seed)]
    if dfid:
        cmd += ["-dfid", str(dfid)]
    if extra:
        cmd += extra
    cmd.append(module + ".tla")
    e = dict(os.environ)
    e.pop("JAVA_TOOL_OPTIONS", None)
    if env:
        e.update({k: str(v) for k, v in env.items()})
    r = TlcResult()
    t0 = time.time()
    jf = open(json_out, "w") if json_out else None
    try:
        p = subprocess.Popen(cmd, cwd=SPEC, env=e, stdout=subprocess.PIPE, stderr=subprocess.STDOUT,
                             text=True, errors="replace")
        import threading
        timer = threading.Timer(timeout, p.kill)
        timer.start()
        errbuf = []
        in_err = False
        cov_re = re.compile(r"^<(\w+) line \d+, col \d+ to line \d+, col \d+ of module (\w+)>: (\d+):(\d+)")
        try:
            for line in p.stdout:
                line = line.rstrip("\n")
                m = _JSON_LINE.match(line)
                if m:
                    payload = _unquote_tla_string(m.group(1))
                    if jf:
                        jf.write(payload + "\n")
                    else:
                        try:
                            r.json.append(json.loads(payload))
                        except Exception:
                            r.lines.append(line)
                    continue
                if want_lines or len(r.lines) < 4000:
                    r.lines.append(line)
                m = re.search(r"(\d+) states generated, (\d+) distinct states found", line)
                if m:
                    r.generated, r.distinct = int(m.group(1)), int(m.group(2))
                m = re.search(r"depth of the complete state graph search is (\d+)", line)
                if m:
                    r.depth = int(m.group(1))
                m = cov_re.match(line)
                if m:
                    r.coverage[m.group(1)] = r.coverage.get(m.group(1), 0) + int(m.group(4))
                if line.startswith("Error:") or in_err:
                    in_err = True
                    errbuf.append(line)
                    if len(errbuf) > 400:
                        in_err = False
        finally:
            timer.cancel()
        r.rc = p.wait()
    finally:
        if jf:
            jf.close()
        shutil.rmtree(meta, ignore_errors=True)
    r.wall = time.time() - t0
    if r.wall >= timeout:
        r.error = f"TLC timeout after {timeout}s"
        return r
    text = "\n".join(errbuf)
    if r.rc == 0:
        r.ok = True
    elif "is violated" in text or "Invariant" in text and "violated" in text or "Temporal properties were violated" in text \
            or "Deadlock reached" in text or "Action property" in text and "violated" in text:
        r.violation = text
    elif simulate and r.rc in (0, 143, 137):
        r.ok = True
    else:
        r.error = text or ("TLC exit code %s\n" % r.rc + "\n".join(r.lines[-40:]))
    return r


def tlc_must_pass(res, what):
    """Model-only failures are tool/model errors (exit 2), never violations:
    a violation is only reported once confirmed on the real code."""
    if res.ok:
        return
    msg = res.violation or res.error or "unknown TLC failure"
    log(f"[tlc] {what}: FAILED\n{msg[:6000]}")
    raise ToolError(f"TLC run failed: {what}")


def validate_trace(module, trace_path, cfg=None, timeout=900, env=None, xmx="2g"):
    """P3: run a Trace_* spec over an ndjson trace.  Returns (accepted, info).
    The trace spec prints <<"REJECT", index, record>> on the first unmatched
    event, or an invariant violation is raised on a matched prefix."""
    e = {"TRACE": os.path.abspath(trace_path)}
    if env:
        e.update(env)
    r = tlc(module, cfg=cfg, workers=1, timeout=timeout, env=e, depth_first=True, want_lines=True, xmx=xmx)
    info = {"states": r.distinct, "generated": r.generated, "wall": r.wall}
    if r.ok:
        return True, info
    rej = [l for l in r.lines if "REJECT" in l]
    info["reject"] = rej[:3]
    info["violation"] = (r.violation or "")[:3000]
    info["error"] = (r.error or "")[:3000]
    if r.error and not rej and not r.violation:
        raise ToolError(f"trace validation tool error in {module}: {r.error[:2000]}")
    return False, info


# --------------------------------------------------------------------------
# findings / violations / evidence
# --------------------------------------------------------------------------
def load_findings():
    p = os.path.join(ROOT, "known_findings.json")
    if not os.path.exists(p):
        return []
    with open(p) as f:
        return json.load(f).get("findings", [])


class Reporter:
    """Collects violations of one check run, matches them against
    known_findings.json and produces the exit code."""

    def __init__(self, pid):
        self.pid = pid
        self.findings = [f for f in load_findings() if f.get("property") == pid and f.get("kind") == "finding"]
        self.known_hits = {}
        self.violations = []

    def violation(self, key, detail, replay_obj):
        """key: dict of identifying fields (matched against findings' `match`
        dicts: every key of the finding's match must be equal)."""
        for f in self.findings:
            m = f.get("match", {})
            if m and all(_match_field(key.get(k), v) for k, v in m.items()):
                self.known_hits.setdefault(f["id"], [f, 0])[1] += 1
                return False
        if len(self.violations) < 50:
            os.makedirs(REPLAY, exist_ok=True)
            h = hashlib.sha1(json.dumps(key, sort_keys=True, default=str).encode()).hexdigest()[:12]
            path = os.path.join(REPLAY, f"{self.pid}-{h}.json")
            with open(path, "w") as f:
                json.dump({"property": self.pid, "key": key, "detail": detail, "replay": replay_obj,
                           "seed": seed()}, f, indent=1, default=str)
            self.violations.append((key, path))
        else:
            self.violations.append((key, self.violations[0][1]))
        return True

    def finish(self):
        for fid, (f, n) in sorted(self.known_hits.items()):
            log(f"KNOWN-FINDING: property={self.pid} {f['id']}: {f['what']} ({n} case(s) this run)")
        seen = set()
        for key, path in self.violations[:50]:
            if path in seen:
                continue
            seen.add(path)
            log(f"VIOLATION property={self.pid} replay={path}")
            global VIOLATION_PRINTED
            VIOLATION_PRINTED = True
        return 1 if self.violations else 0


# set once a VIOLATION line (with its replay file) has been printed: a tool
# problem reported afterwards (observations that could not be judged, a stage
# that aborted) must not turn the run's exit status 1 into 2 (./check)
VIOLATION_PRINTED = False


def _match_field(actual, expected):
    if isinstance(expected, dict) and "regex" in expected:
        return actual is not None and re.search(expected["regex"], str(actual)) is not None
    if isinstance(expected, dict) and "in" in expected:
        return actual in expected["in"]
    return actual == expected


def write_evidence(pid, tier, coverage, wall_s, violations=0, assumptions=None, level="model_checking"):
    os.makedirs(EVIDENCE, exist_ok=True)
    cov = dict(coverage)
    cov.setdefault("samples", [])
    ev = {
        "property_id": pid,
        "tier": tier,
        "seed": seed(),
        "level": level,
        "coverage": cov,
        "assumptions": assumptions or [],
        "wall_s": round(wall_s, 2),
        "violations": violations,
    }
    with open(os.path.join(EVIDENCE, f"{pid}.json"), "w") as f:
        json.dump(ev, f, indent=1, default=str)


def workdir(pid):
    d = os.path.join(WORK, pid)
    shutil.rmtree(d, ignore_errors=True)
    os.makedirs(d, exist_ok=True)
    return d


def read_ndjson(path):
    with open(path) as f:
        for line in f:
            line = line.strip()
            if line:
                yield json.loads(line)


def count_lines(path):
    n = 0
    with open(path, "rb") as f:
        for _ in f:
            n += 1
    return n


def validate_trace_sharded(module, trace_path, shards=6, cfg=None, timeout=900, boundary=None, env=None,
                           xmx="2g"):
    """Split an ndjson trace into up to `shards` pieces (only at lines for
    which boundary(line) holds; default: anywhere) and validate the pieces in
    parallel JVMs.  Returns (accepted, info) where info['reject'] holds the
    first rejection of the first failing shard, with global line numbers."""
    from concurrent.futures import ThreadPoolExecutor
    with open(trace_path) as f:
        lines = f.readlines()
    n = len(lines)
    if n == 0:
        return True, {"events": 0, "shards": 0, "wall": 0.0}
    target = max(1, (n + shards - 1) // shards)
    pieces, start = [], 0
    i = target
    while start < n:
        j = min(n, i)
        while j < n and boundary is not None and not boundary(lines[j]):
            j += 1
        pieces.append((start, j))
        start, i = j, j + target
    paths = []
    for k, (a, b) in enumerate(pieces):
        p = f"{trace_path}.shard{k}"
        with open(p, "w") as f:
            f.writelines(lines[a:b])
        paths.append(p)
    t0 = time.time()

    def one(p):
        return validate_trace(module, p, cfg=cfg, timeout=timeout, env=env, xmx=xmx)

    with ThreadPoolExecutor(max_workers=shards) as ex:
        results = list(ex.map(one, paths))
    info = {"events": n, "shards": len(pieces), "wall": time.time() - t0,
            "states": sum(r[1].get("states", 0) for r in results)}
    ok = True
    for k, ((a, b), (acc, inf)) in enumerate(zip(pieces, results)):
        if not acc:
            ok = False
            m = None
            for rl in inf.get("reject", []):
                m = re.search(r'"REJECT", (\d+)', rl)
                if m:
                    break
            local = int(m.group(1)) if m else None
            info.setdefault("failures", []).append({
                "shard": k, "line": (a + local) if local else None,
                "record": lines[a + local - 1].strip() if local and a + local - 1 < n else None,
                "violation": inf.get("violation", "")[:1500], "error": inf.get("error", "")[:1500]})
    for p in paths:
        try:
            os.remove(p)
        except OSError:
            pass
    return ok, info
