"""G03 — here-documents end to end (specification-growth module; spec/HereDoc.tla).

The oracle is the TLA+ definition spec/HereDoc.tla, written from POSIX XCU 2.7.4
(with 2.2 / 2.6.7 for the delimiter word) and docs/src/language/redirections/
here_documents.md: which lines form the bodies of the operators of a command
line (order, tab stripping for <<-, line continuation when the delimiter is
unquoted), what is delivered (literally, or expanded when the redirection is
performed), which lines run as commands afterwards, the here-document nodes of
the syntax tree and the one-line printed form.

 0. Calib_HereDoc: the worked examples of the manual and the here-document cases
    of yash-cli/tests/scripted_test/redir-p.sh hold for the oracle (ASSUMEs).
 1. spec -> impl: TLC (Gen_HereDoc) enumerates scenarios (header with 1-3
    operators in a shape and a placement + lines of a family's alphabet) and
    prints script text and expectation; harness/g03 runs every script on the
    real shell (simulated OS) as a -c string and as a script on descriptor 0,
    with the `rd` probe recording the bytes each reader gets, and parses it
    with the real parser (delimiter, remove_tabs, content, printed command).
 2. impl -> spec: seeded random scenarios (longer bodies, more spellings of the
    delimiter, arbitrary atoms) are rendered, run and parsed by the harness;
    TLC (Trace_HereDoc) evaluates HereDoc!Expect on each and judges the record.
"""
import json
import os
import time

import vlib

PID = "G03"
PKG = "yv-g03"

TIERS = {
    "quick": dict(gen="Gen_HereDoc_quick.cfg", nrandom=30000, timeout=600),
    "thorough": dict(gen="Gen_HereDoc_thorough.cfg", nrandom=250000, timeout=2400),
}

SHARD = 50000       # records per Trace_HereDoc run


def _summary(out):
    line = [l for l in out.strip().splitlines() if l.startswith("{")][-1]
    return json.loads(line)


def _random_key(rec, why):
    sc = rec["sc"]
    ops = " ".join("%d%s%s%s" % (o["fd"], "<<-" if o["strip"] else "<<", " " if o["sp"] else "", o["word"])
                   for o in sc["ops"])
    return {"dir": "impl->spec", "place": sc["place"], "shape": sc["shape"], "symptom": why, "ops": ops,
            "lines": "\n".join(sc["lines"])}


def _validate(rep, trace, timeout, totals):
    """Run Trace_HereDoc over `trace` (in shards); report every rejected record."""
    with open(trace) as f:
        lines = f.readlines()
    n = len(lines)
    verdicts = {"ok": 0}
    wall = 0.0
    for a in range(0, n, SHARD):
        part = lines[a:a + SHARD]
        p = f"{trace}.shard"
        with open(p, "w") as f:
            f.writelines(part)
        r = vlib.tlc("Trace_HereDoc", "Trace_HereDoc.cfg", workers=8, timeout=timeout,
                     env={"TRACE": os.path.abspath(p)})
        os.remove(p)
        vlib.tlc_must_pass(r, "trace validation (Trace_HereDoc)")
        if r.distinct != 2 * len(part) - 1:
            raise vlib.ToolError(f"trace validation judged {r.distinct} states for {len(part)} records")
        wall += r.wall
        totals["states"] += r.distinct
        totals["transitions"] += r.generated
        nok = len(part)
        for j in r.json:
            nok -= 1
            rec = json.loads(part[j["i"] - 1])
            if j["v"] == "render":
                raise vlib.ToolError("harness renderer and HereDoc!Script disagree on " + json.dumps(rec["sc"]))
            if j["v"] == "open":
                k = "open:" + j["class"]
                verdicts[k] = verdicts.get(k, 0) + 1
                continue
            verdicts["reject"] = verdicts.get("reject", 0) + 1
            rep.violation(_random_key(rec, j["why"]),
                          f"random scenario: {j['why']} differ from what HereDoc.tla allows; script:\n"
                          + "\n".join(rec["script"]), {"sc": rec["sc"], "why": j["why"], "dir": "impl->spec"})
        verdicts["ok"] += nok
    vlib.log(f"[p4<-] {n} random records judged by TLC in {wall:.1f}s: {verdicts}")
    return n, verdicts


def run(tier):
    t0 = time.time()
    T = TIERS[tier]
    wd = vlib.workdir(PID)
    rep = vlib.Reporter(PID)
    totals = {"states": 0, "transitions": 0}

    # 0. calibration
    r = vlib.tlc("Calib_HereDoc", "Calib_HereDoc.cfg", workers=1, timeout=300)
    vlib.tlc_must_pass(r, "calibration examples (Calib_HereDoc)")
    vlib.log(f"[calib] Calib_HereDoc: all ASSUMEs hold ({r.wall:.1f}s)")

    # 1. spec -> impl
    gen = os.path.join(wd, "gen.ndjson")
    r = vlib.tlc("Gen_HereDoc", T["gen"], workers=8, timeout=T["timeout"], json_out=gen)
    vlib.tlc_must_pass(r, f"enumeration {T['gen']}")
    ngen = vlib.count_lines(gen)
    if ngen != r.distinct or ngen == 0:
        raise vlib.ToolError(f"enumeration printed {ngen} lines for {r.distinct} states")
    totals["states"] += r.distinct
    totals["transitions"] += r.generated
    vlib.log(f"[p4->] {T['gen']}: {r.distinct} scenarios enumerated by TLC in {r.wall:.1f}s")
    samples = []
    with open(gen) as f:
        for i, line in enumerate(f):
            if i % 9973 == 4242 and len(samples) < 4:
                e = json.loads(line)
                if e["class"] == "ok":
                    samples.append({k: e[k] for k in ("place", "shape", "script", "groups", "out", "docs", "printed")})
    mism = os.path.join(wd, "mismatch.ndjson")
    t1 = time.time()
    _, out, _ = vlib.run_harness(PKG, ["replay", "--in", gen, "--out", mism, "--threads", "8"], timeout=T["timeout"])
    st1 = _summary(out)
    vlib.log(f"[p4->] replayed on the real shell in {time.time() - t1:.1f}s: {st1['shell_runs']} shell runs, "
             f"{st1['parses']} parses; classes {st1['by_class']}; {st1['mismatches']} mismatches")
    if st1["scenarios"] != ngen:
        raise vlib.ToolError("harness did not replay every scenario")
    for m in vlib.read_ndjson(mism):
        rep.violation(m["key"], m["detail"] + "; script:\n" + "\n".join(m["script"]),
                      {"sc": m["sc"], "dir": "spec->impl", "exp": m["exp"], "obs": m["obs"]})
    os.remove(gen)

    # 2. impl -> spec
    trace = os.path.join(wd, "random.ndjson")
    _, out, _ = vlib.run_harness(PKG, ["random", "--n", T["nrandom"], "--out", trace, "--threads", "8"],
                                 timeout=T["timeout"])
    st2 = _summary(out)
    nrec, verdicts = _validate(rep, trace, T["timeout"], totals)
    if len(samples) < 6:
        with open(trace) as f:
            for i, line in enumerate(f):
                if i % 7919 == 77 and len(samples) < 6:
                    samples.append(json.loads(line))
    os.remove(trace)

    rc = rep.finish()
    ok_enum = st1["by_class"].get("ok", 0)
    vlib.write_evidence(PID, tier, {
        "states": totals["states"],
        "transitions": totals["transitions"],
        "traces_validated_against_impl": nrec,
        "samples": samples,
        "evaluations": st1["shell_runs"] + st1["parses"] + st2["shell_runs"] + st2["parses"],
        "distinct_nontrivial": st1["nontrivial"] + verdicts.get("ok", 0),
        "rule": "enumerated scenarios of class ok in which some reader receives at least one byte (or cat prints "
                "one), plus random scenarios of class ok accepted by Trace_HereDoc; each run as -c string and as "
                "stdin script and parsed once",
        "exhaustive": True,
        "exhaustive_bound": f"all scenarios of the families of {T['gen']} (see spec/Gen_HereDoc.tla); random beyond",
        "config": T["gen"],
        "enumerated": ngen,
        "enumerated_by_class": st1["by_class"],
        "enumerated_by_family": st1["by_family"],
        "enumerated_ok_by_place": st1["by_place"],
        "enumerated_ok": ok_enum,
        "rules_exercised_by_enumeration": st1["features"],
        "parse_level_checked": st1["docs_checked"],
        "bytes_delivered_expected": st1["bytes_delivered"],
        "random_records": nrec,
        "random_by_place": st2["by_place"],
        "random_verdicts": verdicts,
        "mismatches_spec_to_impl": st1["mismatches"],
    }, time.time() - t0, violations=len(rep.violations), assumptions=[
        "the reader probe `rd TAG FD...` (a built-in registered by the harness) reads each descriptor to end of "
        "file; `cat`/`probe`/`echo`/`status` are the shared probe built-ins; runs are on the simulated OS only",
        "modelled expansions in an unquoted body: $name ${name} $((sum of literals/names)) $(echo words) `echo words`; "
        "a body line with any other $ or ` construct puts the scenario in class skip (run, only 'terminates "
        "without panic' is demanded)",
        "lines after the bodies are modelled as commands when they are a probe line, blank, or a simple command "
        "naming no utility (it records nothing); otherwise class skip",
        "no delimiter line before the end of input (class unterm), a joined logical line that spells the "
        "delimiter other than as its last physical piece, and a delimiter line without final newline at the end "
        "of input (class unspec) are left open by POSIX and the manual: only termination without panic is demanded",
        "events of the stages of one pipeline are compared as a multiset, everything else in order; the text "
        "of diagnostics and exit statuses are not compared",
        "the printed form is checked for the commands that carry the operator (bodies omitted by design)",
        "TLC and the JSON community module are trusted",
    ])
    return rc


def replay(path):
    with open(path) as f:
        obj = json.load(f)
    sc = obj["replay"]["sc"]
    wd = vlib.workdir(PID + "-replay")
    src = os.path.join(wd, "sc.json")
    with open(src, "w") as f:
        json.dump({"sc": sc}, f)
    t = os.path.join(wd, "one.ndjson")
    vlib.run_harness(PKG, ["one", "--in", src, "--out", t])
    r = vlib.tlc("Trace_HereDoc", "Trace_HereDoc.cfg", workers=1, timeout=300, env={"TRACE": os.path.abspath(t)})
    vlib.tlc_must_pass(r, "replay validation")
    rec = json.loads(open(t).read())
    print("script:\n" + "\n".join(rec["script"]))
    for run_ in rec["runs"]:
        print(f"[{run_['mode']}] {run_['outcome']} ev={run_['ev']} out={run_['out']!r}")
    print(f"parse: {rec['pres']} docs={rec['docs']} printed={rec['printed']}")
    bad = [j for j in r.json if j["v"] in ("reject", "render")]
    if bad:
        print(f"rejected: {bad[0]}")
        print(f"VIOLATION property={PID} replay={path}")
        return 1
    print("accepted" + (f" ({r.json[0]})" if r.json else ""))
    return 0
