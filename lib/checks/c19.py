"""C19 - the simulated OS and the real OS give the shell the same observable
behaviour (DESIGN.md section 6, C19).

(a) system-call level, one process.  spec/Kernel.tla (written from POSIX XSH)
    is explored by TLC per theme (MC_Kernel_*.cfg); for every reachable state
    up to a depth TLC prints the history that reaches it and the prescribed
    result of EVERY call of the theme's alphabet in that state (P2).  The
    harness runs history+call on VirtualSystem and, in a re-executed child, on
    RealSystem in a scratch directory; both must conform, hence agree.
    Random longer sequences mixing all calls are recorded on both systems and
    validated call by call by TLC (Trace_Kernel, P3).
(b) script level, several processes.  spec/KernelScript.tla generates a
    catalogue of deterministic scripts with the predicted stdout / status /
    files; each runs on the simulated OS (yvcommon::shell) and on the real OS
    (yvcommon::real, mirror); the two runs must be equal and equal to the
    prediction.
"""
import json
import os
import time
from concurrent.futures import ThreadPoolExecutor

import vlib

PID = "C19"
PKG = "yv-c19"
# TLC workers / harness processes run side by side (lower it on a busy machine)
WORKERS = max(1, int(os.environ.get("VERIF_C19_WORKERS", "8")))

# theme -> (MaxFd, MaxH quick, MaxH thorough) as written in spec/MC_Kernel_<theme>_<tier>.cfg;
# sequences are up to MaxH + 1 calls long
THEMES = {
    "rw": (4, 3, 4),
    "fd": (5, 3, 4),
    "path": (4, 2, 3),
    "mode": (4, 3, 4),
    "app": (5, 4, 5),
    "lim": (6, 3, 4),
    "pipe": (5, 4, 5),
    "sig": (3, 4, 5),
    "fork": (4, 5, 6),
    "forkfd": (4, 4, 5),
}

TARGET = {"reg": "regular", "dir": "directory", "lnk": "symlink", "fifo": "fifo", "missing": "missing"}
SYMLINKS = {"l", "ld", "lx"}


def _fmt(r):
    k = r.get("k", "?")
    if k in ("err", "killed", "acc", "disp"):
        return f"{k}:{r.get('s', '')}"
    if k == "stat":
        return f"stat:{r.get('s', '')}"
    return k


def _has_symlink(call):
    return bool(SYMLINKS & set(call.get("path", [])))


def _via(prefix):
    """Earlier calls of the sequence whose RESULT conformed but whose effect may
    silently differ (used to key consequences of a known deviation)."""
    via = set()
    for c in prefix:
        if c["op"] in ("open", "chdir") and _has_symlink(c):
            via.add("symlink")
        if c["op"] == "opendir":
            via.add("opendir")
        if c["op"] == "chdir" and set(c.get("path", [])) & {".", ".."}:
            via.add("chdir-dots")
        if c["op"] == "write":
            via.add("write")
        if c["op"] == "setrlimit":
            via.add("rlimit")
        if c["op"] == "open" and "rlimit" in via and set(c.get("fl", [])) & {"C", "T"}:
            via.add("rlimit-creat")      # may have failed with EMFILE and still touched the file
    return via


def classify(sys_, call, target, exp, obs, via, last_main=None, main_target=""):
    """Names the shape of a deviating case (call + history), so that known
    findings can be keyed by it.  "" = no recognised shape."""
    op = call["op"]
    e, o = _fmt(exp), _fmt(obs)
    # a signal sent by the parent to a child that has terminated: `target` is
    # what had become of the child when kill was called (Kernel!TargetOf)
    if op == "killkid" and target in ("exited", "signaled") and e == "ok":
        return "signal-to-zombie"
    if op == "killkid" and target == "reaped" and e == "err:ESRCH" and o == "ok":
        return "signal-to-reaped-child"
    # ... and what wait reports right after it (the observation after the call)
    if target == "post" and op == "wait" and last_main is not None and last_main["op"] == "killkid":
        if main_target in ("exited", "signaled") and e == main_target and o == "signaled":
            return "signal-to-zombie"
        if main_target == "reaped" and e == "err:ECHILD" and o == "signaled":
            return "signal-to-reaped-child"
    if "path" in call and call["path"] == [] and e == "err:ENOENT":
        return "empty-path"
    if "path" in call and _has_symlink(call):
        return "symlink-in-path"
    if "symlink" in via and op == "open" and call.get("path") in ([".",], ["..",]):
        return "after-symlink-open"        # the working directory was entered through a symbolic link
    if op == "open" and target == "dir" and e == "err:EISDIR" and o == "fd":
        return "open-directory-for-writing"
    if op == "open" and "C" in call.get("fl", []) and target == "ENOENT" and o == "fd":
        return "creat-missing-parent"
    if op == "write" and target in ("pipe", "fifo") and e == "killed:PIPE" and o == "err:EPIPE":
        return "no-sigpipe"
    # ... and its later consequences: SIGPIPE is neither caught nor pending
    if "write" in via and op == "caught" and e == "sigs" and o == "sigs" \
            and set(exp.get("d", [])) - set(obs.get("d", [])) == {"PIPE"} and set(obs.get("d", [])) <= set(exp.get("d", [])):
        return "no-sigpipe"
    if "write" in via and op == "sigmask" and e == "killed:PIPE" and o == "sigs":
        return "no-sigpipe"
    if op == "getcwd" and via & {"chdir-dots", "symlink"} and e == "cwd" and o == "cwd":
        return "getcwd-not-canonical"
    # ... the unresolved working directory also breaks file creation below it
    if op == "open" and "chdir-dots" in via and "C" in call.get("fl", []) and e == "fd" and o == "err:ENOENT":
        return "getcwd-not-canonical"
    if op == "dup" and e == "err:EINVAL" and o == "err:EMFILE" and "rlimit" in via:
        return "dupfd-min-above-limit"
    # the observation after an open(O_CREAT / O_TRUNC) that failed for lack of a descriptor
    if target == "post" and op == "statat" and "rlimit" in via and last_main is not None \
            and last_main["op"] == "open" and set(last_main.get("fl", [])) & {"C", "T"}:
        return "open-emfile-side-effect"
    if "symlink" in via:
        return "after-symlink-open"
    if "rlimit-creat" in via:
        return "open-emfile-side-effect"
    if "opendir" in via and (target == "closed" or (exp.get("k") == obs.get("k") and exp.get("k") in ("fd", "pipe"))):
        return "after-opendir"
    return ""


def call_key(sys_, call, target, exp, obs, prefix, main_target=""):
    via = _via(prefix)
    # the call under test when `call` is one of the observation calls after it
    def observation(c):
        if c["op"] == "kid":
            return c["c"]["op"] == "getcwd" or observation(c["c"])
        return c["op"] in ("statat", "getfd", "pending") or (c["op"] == "lseek" and c.get("wh") == "CUR")
    main = [c for c in prefix if not observation(c)]
    last_main = main[-1] if main else None
    if call["op"] == "kid":
        key = call_key(sys_, call["c"], target, exp, obs, prefix, main_target)
        key["in"] = "child"
        return key
    key = {"level": "call", "sys": sys_, "call": call["op"], "target": TARGET.get(target, target),
           "exp": _fmt(exp), "obs": _fmt(obs), "shape": classify(sys_, call, target, exp, obs, via, last_main, main_target)}
    if call["op"] == "open":
        key["access"] = {"R": "read", "W": "write", "RW": "readwrite"}.get(call.get("acc"), "?")
    return key


class Agg:
    """Groups deviations by key; one Reporter.violation per distinct key."""

    def __init__(self):
        self.by_key = {}

    def add(self, key, detail, replay_obj):
        k = json.dumps(key, sort_keys=True)
        e = self.by_key.get(k)
        if e is None:
            self.by_key[k] = [key, detail, replay_obj, 1]
        else:
            e[3] += 1

    def report(self, rep):
        if os.environ.get("VERIF_C19_DUMP"):
            with open(os.environ["VERIF_C19_DUMP"], "w") as f:
                for key, detail, replay_obj, n in self.by_key.values():
                    f.write(json.dumps({"key": key, "n": n, "seq": replay_obj.get("seq"), "exp": replay_obj.get("exp"),
                                        "obs": replay_obj.get("obs")}) + "\n")
        for key, detail, replay_obj, n in self.by_key.values():
            replay_obj = dict(replay_obj, occurrences=n)
            rep.violation(key, f"{detail} ({n} case(s))", replay_obj)


def part_a_replay(tier, wd, agg, cov, header_holder):
    """P1 + P2 for every theme."""
    shards = 8
    for theme, (maxfd, hq, ht) in THEMES.items():
        maxh = hq if tier == "quick" else ht
        cfg = f"MC_Kernel_{theme}_{tier}.cfg"       # holds MaxFd = maxfd, MaxH = maxh
        fan = os.path.join(wd, f"fan_{theme}.ndjson")
        # With several workers TLC's breadth-first search is not strictly level by
        # level: a state is now and then first reached by a history of MaxH + 1
        # calls although a shorter one exists, and is then neither printed nor
        # extended (the number of cases varies from run to run).  The two small
        # fork themes run with one worker: the same cases in every run.
        r = vlib.tlc("Kernel", cfg, workers=1 if theme in ("fork", "forkfd") else WORKERS, json_out=fan, timeout=1500)
        vlib.tlc_must_pass(r, f"model check {cfg}")
        vlib.log(f"[tlc] {cfg}: {r.distinct} distinct states, {r.generated} generated, depth {r.depth}, {r.wall:.1f}s")
        cov["states"] += r.distinct
        cov["transitions"] += r.generated
        # shard the fan lines (each shard needs the line that holds the tree)
        header = None
        outs = [open(os.path.join(wd, f"fan_{theme}.{k}"), "w") for k in range(shards)]
        n = 0
        with open(fan) as f:
            for line in f:
                if header is None and '"tree"' in line:
                    v = json.loads(line)
                    if "tree" in v:
                        header = {"h": [], "fan": [], "tree": v["tree"], "um": v["um"]}
                outs[n % shards].write(line)
                n += 1
        for o in outs:
            o.close()
        if header is None:
            raise vlib.ToolError(f"no tree line in the output of {cfg}")
        header_holder["tree"] = {"tree": header["tree"], "um": header["um"]}
        for k in range(shards):
            p = os.path.join(wd, f"fan_{theme}.{k}")
            with open(p) as f:
                body = f.read()
            with open(p, "w") as f:
                f.write(json.dumps(header) + "\n" + body)
        os.remove(fan)
        t0 = time.time()

        def one(k):
            inp = os.path.join(wd, f"fan_{theme}.{k}")
            out = os.path.join(wd, f"rep_{theme}.{k}")
            vlib.run_harness(PKG, ["replay", "--in", inp, "--out", out], timeout=3000)
            os.remove(inp)
            return out

        vlib.build_harness(PKG)
        with ThreadPoolExecutor(max_workers=min(shards, WORKERS)) as ex:
            reports = list(ex.map(one, range(shards)))
        tstats = {"states_emitted": n}
        for rp in reports:
            for v in vlib.read_ndjson(rp):
                if v["kind"] == "stats":
                    for fld in ("cases", "undef", "agree_only", "diverged_prefix", "unjudged", "mismatch"):
                        tstats[fld] = tstats.get(fld, 0) + v.get(fld, 0)
                    for op, c in v["per_op"].items():
                        cov["per_op"][op] = cov["per_op"].get(op, 0) + c
                    for rk, c in v["per_result"].items():
                        cov["per_result"][rk] = cov["per_result"].get(rk, 0) + c
                elif v["kind"] == "mismatch":
                    seq = v["seq"]
                    key = call_key(v["sys"], v["call"], v["t"], v["exp"], v["obs"], seq[:-1], v.get("mt", ""))
                    agg.add(key, f"{v['sys']} system: result of {v['call']['op']} deviates from Kernel.tla",
                            {"level": "call", "tree": header_holder["tree"], "seq": seq, "sys": v["sys"],
                             "exp": v["exp"], "obs": v["obs"]})
                elif v["kind"] == "disagree":
                    seq = v["seq"]
                    key = call_key("both", v["call"], v["t"], v["virtual"], v["real"], seq[:-1])
                    key["level"] = "call-agree"
                    agg.add(key, f"the two systems disagree on {v['call']['op']} (no model prediction: {v['why']})",
                            {"level": "call", "tree": header_holder["tree"], "seq": seq, "sys": "both",
                             "virtual": v["virtual"], "real": v["real"]})
            os.remove(rp)
        cov["themes"][theme] = dict(tstats, tlc_distinct=r.distinct, tlc_generated=r.generated, max_calls=maxh + 1)
        cov["cases"] += tstats.get("cases", 0)
        cov["undef"] += tstats.get("undef", 0)
        vlib.log(f"[p2] {theme}: {tstats.get('cases', 0)} (state, call) cases x 2 systems in {time.time() - t0:.1f}s; "
                 f"{tstats.get('mismatch', 0)} deviating results, {tstats.get('undef', 0)} calls without prediction")


def validate_call_trace(trace, wd, tag, shards=8, timeout=1500):
    """Runs Trace_Kernel over a recorded trace (sharded at reset records).
    Returns (records, [ (record, verdict) ... ], undef_count)."""
    with open(trace) as f:
        lines = f.readlines()
    n = len(lines)
    if n == 0:
        return 0, [], 0
    target = (n + shards - 1) // shards
    pieces, start = [], 0
    while start < n:
        j = min(n, start + target)
        while j < n and '"ev":"reset"' not in lines[j]:
            j += 1
        pieces.append((start, j))
        start = j

    def one(k):
        a, b = pieces[k]
        p = os.path.join(wd, f"{tag}.shard{k}")
        with open(p, "w") as f:
            f.writelines(lines[a:b])
        r = vlib.tlc("Trace_Kernel", "Trace_Kernel.cfg", workers=1, timeout=timeout, env={"TRACE": p},
                     depth_first=True, want_lines=True, xmx="2g")
        os.remove(p)
        if not r.ok:
            raise vlib.ToolError(f"Trace_Kernel failed on {tag} shard {k}: {(r.error or r.violation or '')[:1500]}")
        return a, r.json

    with ThreadPoolExecutor(max_workers=shards) as ex:
        results = list(ex.map(one, range(len(pieces))))
    bad, undef = [], 0
    for a, js in results:
        for j in js:
            if "bad" in j:
                idx = a + j["bad"] - 1
                bad.append((idx, j))
            elif "undef" in j:
                undef += 1
    recs = {}
    for idx, j in bad:
        recs[idx] = json.loads(lines[idx])
    out = []
    for idx, j in bad:
        # the sequence up to the deviating call
        s = idx
        while s >= 0 and '"ev":"reset"' not in lines[s]:
            s -= 1
        prefix = [json.loads(x)["c"] for x in lines[s + 1:idx]]
        out.append((recs[idx], j, prefix))
    return n, out, undef


def part_a_random(tier, wd, agg, cov, header_holder):
    tree_path = os.path.join(wd, "tree.json")
    with open(tree_path, "w") as f:
        json.dump(header_holder["tree"], f)
    nseq, length = (640, 24) if tier == "quick" else (8000, 30)
    shards = 8
    t0 = time.time()

    def gen(k):
        out = os.path.join(wd, f"rand.{k}")
        vlib.run_harness(PKG, ["random", "--tree", tree_path, "--n", nseq // shards, "--len", length, "--shard", k,
                               "--out", out], timeout=3000)
        return out

    with ThreadPoolExecutor(max_workers=shards) as ex:
        parts = list(ex.map(gen, range(shards)))
    trace = os.path.join(wd, "rand.ndjson")
    with open(trace, "w") as f:
        for p in parts:
            with open(p) as g:
                f.write(g.read())
            os.remove(p)
    t1 = time.time()
    n, bad, undef = validate_call_trace(trace, wd, "rand", shards=4 if tier == "quick" else 8)
    for rec, j, prefix in bad:
        key = call_key(rec["sys"], rec["c"], j["t"], j["exp"], rec["r"], prefix)
        agg.add(key, f"{rec['sys']} system: result of {rec['c']['op']} in a random sequence deviates from Kernel.tla",
                {"level": "call", "tree": header_holder["tree"], "seq": prefix + [rec["c"]], "sys": rec["sys"],
                 "exp": j["exp"], "obs": rec["r"]})
    if not cov["samples"]:
        with open(trace) as f:
            cov["samples"] = [json.loads(x) for x in f.readlines()[1:4]]
    os.remove(trace)
    cov["random"] = {"sequences": nseq, "records": n, "deviating": len(bad), "without_prediction": undef,
                     "gen_s": round(t1 - t0, 1), "validate_s": round(time.time() - t1, 1)}
    vlib.log(f"[p3] random sequences: {nseq} x <= {length} calls on both systems, {n} records validated by "
             f"Trace_Kernel in {time.time() - t1:.1f}s (recording {t1 - t0:.1f}s); {len(bad)} deviating, "
             f"{undef} without prediction")


# ---------------------------------------------------------------------------
# part (b): scripts
# ---------------------------------------------------------------------------
import re

_SHAPES = [
    ("empty-path", re.compile(r'[<>]\s*""')),
    ("symlink-in-path", re.compile(r'[<>]\s*(l|ld|lx)(/\S*)?(\s|$|\))')),
    ("creat-missing-parent", re.compile(r'>\s*n/x')),
    ("open-directory-for-writing", re.compile(r'>\s*d(\s|$|\))')),
    # a signal sent to an asynchronous command the script has already waited for
    ("signal-to-reaped-child", re.compile(r'wait \$!; kill -s \w+ \$!')),
    # a writer and a reader in two processes meeting at the FIFO
    ("fifo-meeting", re.compile(r'> p & cat < p')),
]
_FORKS = re.compile(r'^\(|\||\$\(|&')


def script_shapes(steps):
    """The recognised shapes among the steps of a script, in order of first
    occurrence: a redirection to the empty name / through a symbolic link /
    into a missing directory / to a directory, a signal sent to a child that
    has been waited for, two processes meeting at the FIFO, a step that forks after the
    shell changed its working directory or umask (or that prints the umask in
    a child), a step that names a descriptor number after a pathname
    expansion."""
    moved = globbed = in_d = False
    found = []

    def add(name):
        if name not in found:
            found.append(name)

    for t in steps:
        for name, rx in _SHAPES:
            if rx.search(t):
                add(name)
        if in_d and re.search(r'>\s*d/n', t):
            add("creat-missing-parent")
        if _FORKS.search(t) and (moved or re.search(r'\(.*\bumask\b', t)):
            add("fork-after-cd-or-umask")
        if globbed and re.search(r'&[34]|exec [34]', t):
            add("descriptor-after-glob")
        if re.match(r'^(cd d|umask 0\d+)$', t):
            moved = True
        if t == "cd d":
            in_d = True
        if t == "cd ..":
            in_d = False
        if "echo ? l?" in t:
            globbed = True
    return found


def part_b(tier, wd, agg, cov):
    maxh, every = (1, 1) if tier == "quick" else (2, 4)
    cfg = f"MC_KernelScript_{tier}.cfg"            # holds MaxH = maxh
    fan = os.path.join(wd, "scripts.ndjson")
    r = vlib.tlc("KernelScript", cfg, workers=WORKERS, json_out=fan, timeout=1500)
    vlib.tlc_must_pass(r, f"model check {cfg}")
    vlib.log(f"[tlc] {cfg}: {r.distinct} distinct states, {r.generated} generated, depth {r.depth}, {r.wall:.1f}s")
    cov["states"] += r.distinct
    cov["transitions"] += r.generated
    shards = 8
    header = None
    outs = [open(os.path.join(wd, f"scripts.{k}"), "w") for k in range(shards)]
    n = 0
    with open(fan) as f:
        for line in f:
            if header is None and '"tree"' in line:
                v = json.loads(line)
                header = {"h": [], "fan": [], "tree": v["tree"]}
            outs[n % shards].write(line)
            n += 1
    for o in outs:
        o.close()
    os.remove(fan)
    if header is None:
        raise vlib.ToolError("no tree line in the output of " + cfg)
    t0 = time.time()

    def one(k):
        inp = os.path.join(wd, f"scripts.{k}")
        with open(inp) as f:
            body = f.read()
        with open(inp, "w") as f:
            f.write(json.dumps(header) + "\n" + body)
        out = os.path.join(wd, f"srep.{k}")
        vlib.run_harness(PKG, ["scripts", "--in", inp, "--out", out, "--every", every, "--offset", k % every],
                         timeout=3000)
        os.remove(inp)
        return out

    vlib.build_harness(PKG)
    with ThreadPoolExecutor(max_workers=min(shards, WORKERS)) as ex:
        reports = list(ex.map(one, range(shards)))
    st = {"scripts": 0, "unpredicted": 0, "deviating": 0, "abandoned": 0}
    for rp in reports:
        for v in vlib.read_ndjson(rp):
            if v["kind"] == "stats":
                for fld in st:
                    st[fld] += v.get(fld, 0)
            elif v["kind"] == "sample" and len(cov["script_samples"]) < 3:
                cov["script_samples"].append({"script": v["steps"], "stdout": v["sim"]["stdout"],
                                              "status": v["sim"]["status"], "files": v["sim"]["files"]})
            elif v["kind"] == "deviation":
                dev = v["dev"]
                who = "sim" if "sim_vs_model" in dev else "real" if "real_vs_model" in dev else "sim-vs-real"
                if "sim_vs_model" in dev and "real_vs_model" in dev:
                    who = "both"
                shapes = script_shapes(v["steps"])
                key = {"level": "script", "shapes": ",".join(shapes), "who": who}
                if not shapes:
                    key["step"] = v["steps"][-1]
                    key["fields"] = ",".join(sorted({f for d in dev.values() for f in (d if isinstance(d, (list, dict)) else [str(d)])}))
                elif {"signal-to-reaped-child", "fifo-meeting"} & set(shapes):
                    # which observations deviate (a finding of this shape is keyed by them)
                    key["fields"] = ",".join(sorted({f for d in dev.values() if isinstance(d, list) for f in d}))
                agg.add(key, f"script behaves differently ({who}): {' ; '.join(v['steps'])}",
                        {"level": "script", "tree": header["tree"], "steps": v["steps"], "pred": v["pred"], "dev": dev,
                         "sim": v["sim"], "real": v["real"]})
        os.remove(rp)
    cov["scripts"] = dict(st, tlc_distinct=r.distinct, tlc_generated=r.generated, max_steps=maxh + 1, sampled_every=every,
                          wall_s=round(time.time() - t0, 1))
    vlib.log(f"[b] scripts: {st['scripts']} scripts of <= {maxh + 1} steps on both systems in {time.time() - t0:.1f}s; "
             f"{st['deviating']} deviating, {st['unpredicted']} compared only with each other (no model prediction)")


def run(tier):
    t0 = time.time()
    wd = vlib.workdir(PID)
    rep = vlib.Reporter(PID)
    agg = Agg()
    cov = {"states": 0, "transitions": 0, "cases": 0, "undef": 0, "per_op": {}, "per_result": {}, "themes": {},
           "samples": [], "script_samples": []}
    holder = {}
    only = os.environ.get("VERIF_C19_ONLY", "ab")      # development aid
    if os.environ.get("VERIF_C19_THEMES"):
        for t in list(THEMES):
            if t not in os.environ["VERIF_C19_THEMES"].split(","):
                del THEMES[t]
    if "a" in only:
        part_a_replay(tier, wd, agg, cov, holder)
        part_a_random(tier, wd, agg, cov, holder)
    if "b" in only:
        part_b(tier, wd, agg, cov)
    agg.report(rep)
    rc = rep.finish()
    ops_all = ["open", "close", "dup", "dup2", "pipe", "tmp", "read", "write", "lseek", "getfd", "setfd", "access",
               "setnb", "fstat", "statat", "umask", "chdir", "getcwd", "opendir", "sigaction", "getsigaction",
               "sigmask", "kill", "caught", "setrlimit", "getrlimit", "pending", "fork", "kid", "wait", "killkid"]
    vlib.write_evidence(PID, tier, {
        "states": cov["states"],
        "transitions": cov["transitions"],
        "traces_validated_against_impl": cov["cases"] * 2 + cov.get("random", {}).get("records", 0)
                                         + 2 * cov.get("scripts", {}).get("scripts", 0),
        "samples": cov["samples"],
        "evaluations": cov["cases"] * 2 + cov.get("random", {}).get("records", 0),
        "distinct_nontrivial": cov["cases"],
        "rule": "one case per (history, call) pair printed by TLC whose result the model prescribes, run on both "
                "systems; random-sequence records counted separately",
        "exhaustive": True,
        "themes": cov["themes"],
        "calls_without_prediction": cov["undef"],
        "model_calls_exercised": cov["per_op"],
        "model_calls_not_exercised": [o for o in ops_all if cov["per_op"].get(o, 0) == 0],
        "model_results_exercised": cov["per_result"],
        "random": cov.get("random", {}),
        "scripts": cov.get("scripts", {}),
        "script_samples": cov["script_samples"],
        "known_finding_hits": {fid: n for fid, (f, n) in rep.known_hits.items()},
    }, time.time() - t0, violations=len(rep.violations), assumptions=[
        "the Linux kernel of this machine implements POSIX for the modelled calls (it is one of the two systems under test)",
        "pipe() returns the read end in the lower of the two lowest descriptors",
        "permission-denied paths are excluded (the sandbox runs as root)",
        "TLC 1.8.0 and the JSON community module are trusted",
    ])
    return rc


def replay(path):
    with open(path) as f:
        obj = json.load(f)
    rec = obj["replay"]
    wd = vlib.workdir(PID + "-replay")
    if rec.get("level") == "call":
        src = os.path.join(wd, "case.json")
        with open(src, "w") as f:
            json.dump({"tree": rec["tree"]["tree"], "um": rec["tree"]["um"], "seq": rec["seq"]}, f)
        trace = os.path.join(wd, "trace.ndjson")
        vlib.run_harness(PKG, ["redo", "--in", src, "--out", trace])
        n, bad, undef = validate_call_trace(trace, wd, "redo", shards=1)
        for r_, j, prefix in bad:
            print(f"deviation: {r_['sys']} {json.dumps(r_['c'])} -> {json.dumps(r_['r'])}, prescribed {json.dumps(j['exp'])}")
        if bad:
            print(f"VIOLATION property={PID} replay={path}")
            return 1
        print(f"accepted ({n} records, {undef} without prediction)")
        return 0
    if rec.get("level") == "script":
        src = os.path.join(wd, "one.ndjson")
        with open(src, "w") as f:
            f.write(json.dumps({"h": rec["steps"][:-1], "fan": [{"t": rec["steps"][-1], "p": rec["pred"]}],
                                "tree": rec["tree"]}) + "\n")
        out = os.path.join(wd, "one.rep")
        vlib.run_harness(PKG, ["scripts", "--in", src, "--out", out])
        bad = [v for v in vlib.read_ndjson(out) if v["kind"] == "deviation"]
        for v in bad:
            print(f"deviation: {v['dev']}\n  sim : {json.dumps(v['sim'])}\n  real: {json.dumps(v['real'])}")
        if bad:
            print(f"VIOLATION property={PID} replay={path}")
            return 1
        print("accepted")
        return 0
    print("unknown replay level")
    return 2
