"""C08 — nothing done in a subshell environment leaks into the parent shell
(DESIGN.md section 6, C08; spec/Subshell.tla, spec/Trace_Subshell.tla).

P1  TLC checks on spec/Subshell.tla (every mutator sequence up to the bound x
    subshell kind x interleaving of child / sibling / parent steps) that no
    child step changes the parent's or a sibling's map, that the entry view is
    the Fork image (trap rule, shared open file descriptions), and prints the
    scenario catalogue; a negative configuration (state shared by reference)
    must be refuted.
P3  harness/c08 renders every scenario into a script, runs the real shell on
    the simulated OS under every turn plan (interleaving of the commands of
    parent / child / sibling) x explored scheduler choices, and records flat
    snapshots (before / entry / end / after) as differences;
    Trace_Subshell.tla judges every record: entry == ForkImage(before),
    after == before modulo the parent's own steps, and the child's mutations
    did happen in the child.  Random scenarios beyond the bound come from TLC's
    simulation mode on the same specification.
"""
import json
import os
import time
from concurrent.futures import ThreadPoolExecutor

import vlib

PID = "C08"
PKG = "yv-c08"

TIERS = {
    # cfgs: exhaustive catalogues; sim: (num per worker, workers, depth); harness exploration options
    "quick": {"cfgs": ["MC_Subshell_quick.cfg", "MC_Subshell_all1.cfg", "MC_Subshell_trap1.cfg",
                       "MC_Subshell_wide1.cfg", "MC_Subshell_ends1.cfg"], "sim": (100, 4, 40),
              "explore": ["--plans", "6", "--dfs-max", "2", "--random", "0"],
              "explore_sim": ["--plans", "8", "--dfs-max", "2", "--random", "1"]},
    "thorough": {"cfgs": ["MC_Subshell_all2.cfg", "MC_Subshell_core3.cfg", "MC_Subshell_trap2.cfg",
                          "MC_Subshell_wide2.cfg", "MC_Subshell_ends2.cfg"], "sim": (2000, 4, 40),
                 "explore": ["--plans", "12", "--dfs-max", "3", "--random", "1"],
                 "explore_sim": ["--plans", "16", "--dfs-max", "3", "--random", "2"]},
}

MODEL_ACTIONS = ["PreStep", "Fork", "ChildStep", "ParentStep", "Finish"]


def _judge(trace, shards=8, timeout=1500):
    """Runs Trace_Subshell over the records (sharded); returns
    (number of records judged, list of (global index, verdict list))."""
    with open(trace) as f:
        lines = f.readlines()
    n = len(lines)
    if n == 0:
        return 0, [], 0.0
    shards = max(1, min(shards, (n + 1999) // 2000))
    size = (n + shards - 1) // shards
    parts = []
    for k in range(shards):
        a, b = k * size, min(n, (k + 1) * size)
        if a >= b:
            break
        p = f"{trace}.shard{k}"
        # lossless compression: an `init` map equal to that of the shard's first record is
        # replaced by {"same": "1"} (Trace_Subshell reads Rec[1].init then)
        first = None
        with open(p, "w") as f:
            for line in lines[a:b]:
                j = json.loads(line)
                if first is None:
                    first = j["init"]
                elif j["init"] == first:
                    j["init"] = {"same": "1"}
                f.write(json.dumps(j) + "\n")
        parts.append((a, b, p))
    t0 = time.time()

    def one(part):
        a, b, p = part
        r = vlib.tlc("Trace_Subshell", "Trace_Subshell.cfg", workers=1, timeout=timeout, env={"TRACE": p},
                     depth_first=True, xmx="2g")
        return part, r

    with ThreadPoolExecutor(max_workers=len(parts)) as ex:
        results = list(ex.map(one, parts))
    verdicts = []
    judged = 0
    for (a, b, p), r in results:
        try:
            os.remove(p)
        except OSError:
            pass
        if not r.ok:
            vlib.log(f"[trace] shard {a}..{b}: {(r.error or r.violation or '')[:3000]}")
            raise vlib.ToolError("Trace_Subshell did not judge every record")
        judged += r.distinct - 1
        for j in r.json:
            verdicts.append((a + j["line"] - 1, j["v"]))
    if judged != n:
        raise vlib.ToolError(f"Trace_Subshell judged {judged} of {n} records")
    return n, verdicts, time.time() - t0


def _report(rep, trace, verdicts, what, tool_problems, counts):
    """entry / leak verdicts are violations of the property; drift / end /
    abnormal mean that the comparison itself is not meaningful (tool error)."""
    if not verdicts:
        return
    with open(trace) as f:
        lines = f.readlines()
    for idx, vs in verdicts:
        rec = json.loads(lines[idx])
        for v in vs:
            check, key, expected, observed = v
            counts[check] = counts.get(check, 0) + 1
            if check in ("entry", "leak"):
                k = {"check": check, "key": key, "kind": rec["sc"]["kind"], "expected": expected,
                     "observed": observed}
                rep.violation(k, f"{what}: {check} snapshot, key {key}: the specification gives "
                                 f"{expected!r}, the shell shows {observed!r}", rec)
            else:
                if len(tool_problems) < 10:
                    tool_problems.append(f"{what}: {check} {key}: expected {expected!r} observed {observed!r} "
                                         f"in {json.dumps(rec['sc'])} outcome={rec['outcome']} miss={rec['miss']}")


def _harness(cat, out, opts):
    rc, _, err = vlib.run_harness(PKG, ["run", "--in", cat, "--out", out, "--threads", "8"] + opts, timeout=3000)
    stats = {}
    for line in err.splitlines():
        if line.startswith("{"):
            try:
                stats = json.loads(line)
            except ValueError:
                pass
    return stats


def _dedup(path, cap=None):
    seen, out = set(), []
    with open(path) as f:
        for line in f:
            if line.strip() and line not in seen:
                seen.add(line)
                out.append(line)
    if cap:
        out = out[:cap]
    with open(path, "w") as f:
        f.writelines(out)
    return len(out)


def run(tier):
    t0 = time.time()
    cfg = TIERS[tier]
    wd = vlib.workdir(PID)
    rep = vlib.Reporter(PID)
    vlib.build_harness(PKG)
    states = transitions = 0
    coverage_actions = {}
    scenarios = records = shell_runs = turn_plans = 0
    tool_problems = []
    counts = {}
    samples = []
    per_cfg = {}

    # negative model: state shared by reference must be refuted by TLC
    r = vlib.tlc("Subshell", "MC_Subshell_neg.cfg", workers=2, timeout=300)
    if not (r.violation and "Isolation" in r.violation):
        vlib.log((r.error or "")[:2000])
        raise vlib.ToolError("negative configuration MC_Subshell_neg.cfg was not refuted by TLC")
    vlib.log(f"[tlc] MC_Subshell_neg.cfg: Isolation refuted as required ({r.wall:.1f}s)")

    for c in cfg["cfgs"]:
        cat = os.path.join(wd, c + ".catalogue.ndjson")
        r = vlib.tlc("Subshell", c, workers=8, json_out=cat, coverage=(c in ("MC_Subshell_quick.cfg", "MC_Subshell_all2.cfg")), timeout=3000)
        vlib.tlc_must_pass(r, f"model check {c}")
        n = vlib.count_lines(cat)
        vlib.log(f"[tlc] {c}: {r.distinct} distinct states, {r.generated} generated, depth {r.depth}, "
                 f"{n} scenarios, {r.wall:.1f}s")
        states += r.distinct
        transitions += r.generated
        for a, k in r.coverage.items():
            coverage_actions[a] = coverage_actions.get(a, 0) + k
        rec = os.path.join(wd, c + ".records.ndjson")
        t1 = time.time()
        st = _harness(cat, rec, cfg["explore"])
        vlib.log(f"[p3] {c}: {st} in {time.time() - t1:.1f}s")
        n_rec, verdicts, wall = _judge(rec)
        vlib.log(f"[p3] {c}: {n_rec} records judged by Trace_Subshell in {wall:.1f}s, "
                 f"{len(verdicts)} with a non-empty verdict")
        _report(rep, rec, verdicts, f"catalogue {c}", tool_problems, counts)
        scenarios += st.get("scenarios", 0)
        records += n_rec
        shell_runs += st.get("shell_runs", 0)
        turn_plans += st.get("turn_plans", 0)
        per_cfg[c] = {"scenarios": st.get("scenarios", 0), "records": n_rec, "shell_runs": st.get("shell_runs", 0)}
        if not samples:
            with open(rec) as f:
                for i, line in enumerate(f):
                    if i in (3, 1500, 4000):
                        j = json.loads(line)
                        j.pop("init", None)
                        samples.append(j)
        os.remove(cat)
        os.remove(rec)

    # random scenarios beyond the bound, from the same specification
    num, workers, depth = cfg["sim"]
    cat = os.path.join(wd, "sim.catalogue.ndjson")
    r = vlib.tlc("Subshell", "MC_Subshell_sim.cfg", workers=workers, json_out=cat, simulate=num, depth=depth,
                 tool_seed=vlib.seed(), timeout=1200)
    vlib.tlc_must_pass(r, "simulation MC_Subshell_sim.cfg")
    n_sim = _dedup(cat, cap=(600 if tier == "quick" else 12000))
    rec = os.path.join(wd, "sim.records.ndjson")
    t1 = time.time()
    st = _harness(cat, rec, cfg["explore_sim"])
    vlib.log(f"[p3] random scenarios: {n_sim} distinct from TLC -simulate ({r.wall:.1f}s); {st} in {time.time() - t1:.1f}s")
    n_rec, verdicts, wall = _judge(rec)
    vlib.log(f"[p3] random scenarios: {n_rec} records judged in {wall:.1f}s, {len(verdicts)} with a non-empty verdict")
    _report(rep, rec, verdicts, "random scenario", tool_problems, counts)
    with open(rec) as f:
        for i, line in enumerate(f):
            if i == 5:
                j = json.loads(line)
                j.pop("init", None)
                samples.append(j)
    sim_records = n_rec
    sim_runs = st.get("shell_runs", 0)
    os.remove(cat)
    os.remove(rec)

    rc = rep.finish()
    unexercised = [a for a in MODEL_ACTIONS if coverage_actions.get(a, 0) == 0]
    vlib.write_evidence(PID, tier, {
        "states": states,
        "transitions": transitions,
        "traces_validated_against_impl": records + sim_records,
        "samples": samples,
        "evaluations": shell_runs + sim_runs,
        "distinct_nontrivial": scenarios + n_sim,
        "rule": "distinct scenarios (kind, parent prelude, mutator sequence of each subshell, parent steps after "
                "the fork) rendered as scripts and run on the real shell; evaluations = shell runs over turn plans "
                "and scheduler choices; one record per distinct observation, each judged by Trace_Subshell",
        "exhaustive": True,
        "bounds": per_cfg,
        "configs": cfg["cfgs"],
        "random_scenarios": n_sim,
        "random_records": sim_records,
        "turn_plans_explored": turn_plans,
        "tlc_action_coverage": coverage_actions,
        "actions_not_exercised": unexercised,
        "verdict_counts": counts,
        "negative_model_refuted": True,
    }, time.time() - t0, violations=len(rep.violations), assumptions=[
        "the shell runs non-interactively without job control on the simulated OS (VirtualSystem) as `-c` script",
        "preemption points are command boundaries (a `pause` probe before every mutator of every process)",
        "`trap` on SIGINT/SIGQUIT inside an asynchronous list is left out (POSIX leaves it open)",
        "TLC 1.8.0 and the JSON community module are trusted",
    ])
    if unexercised:
        raise vlib.ToolError(f"model actions never exercised: {unexercised}")
    if tool_problems:
        for p in tool_problems:
            vlib.log("[tool] " + p)
        raise vlib.ToolError("some observations could not be judged (drift / mutation without effect / abnormal run): "
                             f"{ {k: v for k, v in counts.items() if k not in ('entry', 'leak')} }")
    return rc


def replay(path):
    with open(path) as f:
        obj = json.load(f)
    rec = obj["replay"]
    wd = vlib.workdir(PID + "-replay")
    t = os.path.join(wd, "one.ndjson")
    # re-run the scenario on the current tree under the recorded turn plan and schedule
    vlib.run_harness(PKG, ["one", "--scenario", json.dumps(rec), "--out", t])
    n, verdicts, _ = _judge(t, shards=1)
    bad = False
    findings = [f for f in vlib.load_findings() if f.get("property") == PID and f.get("kind") == "finding"]
    with open(t) as f:
        kind = json.loads(f.readline())["sc"]["kind"]
    for _, vs in verdicts:
        for v in vs:
            print("verdict:", v)
            if v[0] in ("entry", "leak"):
                key = {"check": v[0], "key": v[1], "kind": kind, "expected": v[2], "observed": v[3]}
                known = [f for f in findings if f.get("match") and
                         all(vlib._match_field(key.get(k), x) for k, x in f["match"].items())]
                if known:
                    print(f"KNOWN-FINDING: property={PID} {known[0]['id']}: {known[0]['what']}")
                else:
                    bad = True
    if not verdicts:
        print("accepted")
    if bad:
        print(f"VIOLATION property={PID} replay={path}")
    return 1 if bad else 0
