"""C13 — children are started, awaited and reaped correctly under every schedule
(DESIGN.md section 6, C13).

P1  TLC checks spec/Procs.tla (process lifecycle + the shell-side wait/SIGCHLD
    protocol + an interpreter of the script shapes that start children) on
    every interleaving of every script of a catalogue: no deadlock (deadlock
    checking ON), termination under weak fairness, each child reaped exactly
    once by its parent, recorded status = exit status, no foreground child
    left, and the operational outcome equals the denotation of the script
    (`$?` of a pipeline / pipefail, `wait`, 127 for unknown pids) for EVERY
    schedule.  Negative configurations (named wrong orders) MUST fail.
    The same run prints the catalogue {script id, text, expected outcome,
    deterministic?}.  The model includes stop / continue of live processes:
    every kind of foreground child (pipeline member, subshell, command
    substitution, nested ones) is stopped and continued by a background
    signaller while its parent waits; with job control off the wait ends only
    at termination (negative configurations stop_is_finish, fg_stop_is_finish).
    In the quick tier a few of the larger stop/continue scripts are only listed
    by TLC (state constraint ModelChecked) and decided by P3 alone; the
    thorough tier model-checks them as well.
P3  For every script of that catalogue the harness runs the REAL shell on the
    simulated OS under the controllable scheduler: depth-first over the first
    N choice points, then seeded random schedules.  Every distinct run is
    validated by TLC against Procs (spec/Trace_Procs.tla); for scripts the
    spec classifies deterministic every run's outcome must equal the
    TLC-computed prediction (hence be identical across all schedules).
"""
import json
import os
import re
import time
from concurrent.futures import ThreadPoolExecutor

import vlib

PID = "C13"
PKG = "yv-c13"

TIERS = {
    "quick": dict(cfg="MC_Procs_quick.cfg", live="MC_Procs_live_quick.cfg", depth=6, max_dfs=400, random=40,
                  shards=4, threads=6, p1_workers=4, tlc_timeout=1500),
    "thorough": dict(cfg="MC_Procs_thorough.cfg", live="MC_Procs_live_thorough.cfg", depth=10, max_dfs=6000,
                     random=600, shards=8, threads=8, p1_workers=8, tlc_timeout=3000),
}

# negative configurations: variant -> what TLC must report
NEGATIVE = {
    "enable_late": "Deadlock reached",
    "nonatomic_select": "Deadlock reached",
    "no_loop": r"Invariant Inv\w+ is violated",
    "wait_last_only": r"Invariant InvNoFgLeft is violated",
    "leak_writer": "Deadlock reached",
    "leak_reader": "Deadlock reached",
    "unblock_no_sigchld": "Deadlock reached",
    "stop_is_finish": r"Invariant Inv\w+ is violated",
    "fg_stop_is_finish": r"Invariant Inv\w+ is violated",
}

ACTIONS = ["ASimple", "AProbe", "ARead", "AWrite", "ABigWrite", "AKill", "APubGet", "AAck", "AUnblock", "AForkSub", "AForkCs", "AForkBg", "AForkStage", "AReadEof",
           "AEnable", "APollFg", "AReapFg", "APollAny", "AReapAny", "AWake", "APick", "AWaitChk", "AExit", "ACollect"]


def _pkey(path):
    return json.dumps(path, separators=(",", ":"))


def _expected(entry):
    """Prediction printed by TLC for one script, in the shape of a run digest."""
    procs = {}
    for p in entry["procs"]:
        procs[_pkey(p["path"])] = {"pr": p["pr"], "xs": p["xs"]}
    return {"status": entry["status"], "gl": entry["gl"], "procs": procs}


def _m(e, o):
    """Procs!Match: -2 = any status (a race in the script), -1 = some non-zero status,
    -3 = terminated by a signal (> 128)."""
    return e == -2 or e == o or (e == -1 and o != 0) or (e == -3 and o > 128)


def _digest_equal(exp, dig):
    if dig["outcome"] != "completed" or not _m(exp["status"], dig["status"]) or len(dig["gl"]) != len(exp["gl"]):
        return False
    for e, d in zip(exp["gl"], dig["gl"]):
        if e[0] != d[0] or e[1] != d[1] or not _m(e[2], d[2]) or e[3] != d[3]:
            return False
    if set(dig["procs"]) != set(exp["procs"]):
        return False
    for k, e in exp["procs"].items():
        d = dig["procs"][k]
        if len(d["pr"]) != len(e["pr"]):
            return False
        for ep, dp in zip(e["pr"], d["pr"]):
            if ep[0] != dp[0] or not _m(ep[1], dp[1]) or ep[2] != dp[2]:
                return False
        if k != "[]" and not _m(e["xs"], d["xs"]):      # the main process never calls exit in the harness
            return False
    return True


def _model_runs(tier, wd):
    """P1: model checking, liveness and the negative configurations, in parallel."""
    t = TIERS[tier]
    cat_path = os.path.join(wd, "catalogue.ndjson")

    def main():
        d = os.path.join(wd, "p1")
        os.makedirs(d, exist_ok=True)
        return vlib.tlc("Procs", t["cfg"], workdir=d, workers=t["p1_workers"], timeout=t["tlc_timeout"], deadlock=True,
                        json_out=cat_path, coverage=(tier == "quick"))

    def live():
        d = os.path.join(wd, "live")
        os.makedirs(d, exist_ok=True)
        return vlib.tlc("Procs", t["live"], workdir=d, workers=4, timeout=t["tlc_timeout"], deadlock=True)

    def neg(v):
        d = os.path.join(wd, "neg-" + v)
        os.makedirs(d, exist_ok=True)
        return vlib.tlc("Procs", f"MC_Procs_neg_{v}.cfg", workdir=d, workers=1, timeout=900, deadlock=True)

    with ThreadPoolExecutor(max_workers=4) as ex:
        fm = ex.submit(main)
        fl = ex.submit(live)
        fn = {v: ex.submit(neg, v) for v in NEGATIVE}
        rm, rl = fm.result(), fl.result()
        rn = {v: f.result() for v, f in fn.items()}
    vlib.tlc_must_pass(rm, f"model check {t['cfg']}")
    vlib.log(f"[tlc] {t['cfg']}: {rm.distinct} distinct states, {rm.generated} generated, depth {rm.depth}, "
             f"no deadlock, {rm.wall:.1f}s")
    vlib.tlc_must_pass(rl, f"liveness {t['live']}")
    vlib.log(f"[tlc] {t['live']}: termination under weak fairness holds ({rl.distinct} states, {rl.wall:.1f}s)")
    neg_found = {}
    for v, r in rn.items():
        text = r.violation or ""
        if r.ok or not re.search(NEGATIVE[v], text):
            vlib.log((r.error or text or "passed")[:1500])
            raise vlib.ToolError(f"negative configuration {v}: TLC did not report '{NEGATIVE[v]}' "
                                 "(the model would be vacuous)")
        neg_found[v] = re.search(NEGATIVE[v], text).group(0)
    vlib.log("[tlc] negative configurations fail as required: " + ", ".join(f"{v}: {m}" for v, m in neg_found.items()))
    return rm, rl, rn, neg_found, cat_path


def _validate(trace, wd, shards, timeout=1500):
    """P3: Trace_Procs over the recorded runs, sharded at `reset` records.
    Returns (list of BAD payloads, records, states, wall)."""
    trace, wd = os.path.abspath(trace), os.path.abspath(wd)
    with open(trace) as f:
        lines = f.readlines()
    n = len(lines)
    if n == 0:
        return [], 0, 0, 0.0
    target = max(1, (n + shards - 1) // shards)
    pieces, start, i = [], 0, target
    while start < n:
        j = min(n, i)
        while j < n and '"ev":"reset"' not in lines[j]:
            j += 1
        pieces.append((start, j))
        start, i = j, j + target
    paths = []
    for k, (a, b) in enumerate(pieces):
        p = os.path.join(wd, f"trace.shard{k}.ndjson")
        with open(p, "w") as f:
            f.writelines(lines[a:b])
        paths.append(p)
    t0 = time.time()

    def one(kp):
        k, p = kp
        d = os.path.join(wd, f"tv{k}")
        os.makedirs(d, exist_ok=True)
        r = vlib.tlc("Trace_Procs", "Trace_Procs.cfg", workdir=d, workers=1, timeout=timeout, env={"TRACE": p},
                     depth_first=True, want_lines=True, xmx="3g")
        if not r.ok:
            rej = [l for l in r.lines if "REJECT" in l][:2]
            raise vlib.ToolError(f"trace validation did not run to the end of shard {k}: "
                                 f"{(r.error or r.violation or '')[:1500]} {rej}")
        return r

    with ThreadPoolExecutor(max_workers=shards) as ex:
        results = list(ex.map(one, enumerate(paths)))
    bad = []
    for (a, b), r in zip(pieces, results):
        for j in r.json:
            if isinstance(j, dict) and "bad" in j:
                j["line"] = a + j["bad"]
                bad.append(j)
    for p in paths:
        os.remove(p)
    return bad, n, sum(r.distinct for r in results), time.time() - t0


def _key_of(entry, d):
    left = d.get("left", {})
    pr = left.get("pr") or []
    return {
        "script": entry["text"],
        "why": d.get("why"),
        "next": d.get("next"),
        "phase": d.get("phase"),
        "mode": d.get("mode"),
        "shape_last_child_dead": d.get("shape"),
        "obs_st": pr[0]["st"] if pr else None,
        "inv": ",".join(k for k, v in sorted(d.get("inv", {}).items()) if not v),
    }


def run(tier):
    t0 = time.time()
    t = TIERS[tier]
    wd = vlib.workdir(PID)
    rep = vlib.Reporter(PID)
    vlib.build_harness(PKG)
    rm, rl, rn, neg_found, cat_path = _model_runs(tier, wd)
    cat = list(vlib.read_ndjson(cat_path))
    if not cat:
        raise vlib.ToolError("TLC printed no catalogue")
    if tier == "quick":
        missing = [a for a in ACTIONS if rm.coverage.get(a, 0) == 0]
    else:
        missing = []
    # P3: explore schedules of every catalogue script on the real shell
    trace = os.path.join(wd, "runs.trace.ndjson")
    summ = os.path.join(wd, "runs.summary.ndjson")
    th = time.time()
    vlib.run_harness(PKG, ["explore", "--catalogue", cat_path, "--depth", t["depth"], "--max-dfs", t["max_dfs"],
                           "--random", t["random"], "--threads", t["threads"], "--out-trace", trace,
                           "--out-summary", summ], timeout=2400)
    runs = {}          # representative run of every distinct trace -> summary (with multiplicity)
    per_script = {}    # script idx -> stats
    outcomes = {}
    total_runs = 0
    for j in vlib.read_ndjson(summ):
        if "run" in j:
            runs[j["run"]] = j
            oc = j["digest"]["outcome"]
            outcomes[oc] = outcomes.get(oc, 0) + j["mult"]
            total_runs += j["mult"]
        else:
            per_script[j["script"]] = j
    vlib.log(f"[p3] {total_runs} runs of {len(cat)} scripts explored in {time.time() - th:.1f}s "
             f"(outcomes {outcomes}); {len(runs)} distinct traces")
    # expected outcome per script (TLC) vs digest of every run
    mismatch = {}      # representative run -> number of runs with that trace
    mult = {}
    distinct_digests = {}
    for rr, r in runs.items():
        mult[rr] = r["mult"]
        e = cat[r["script"]]
        dd = distinct_digests.setdefault(r["script"], set())
        dd.add(json.dumps(r["digest"], sort_keys=True))
        if e["det"] and not _digest_equal(_expected(e), r["digest"]):
            mismatch[rr] = r["mult"]
    # validation of every distinct run against Procs
    bad, nrec, tstates, tw = _validate(trace, wd, t["shards"])
    vlib.log(f"[p3] {nrec} records of {len(runs)} distinct runs validated against Procs in {tw:.1f}s; "
             f"{len(bad)} run(s) rejected")
    bad_runs = {b["run"]: b for b in bad}
    for rr, cnt in mismatch.items():
        if rr not in bad_runs:
            raise vlib.ToolError(f"run {rr} ({cat[runs[rr]['script']]['text']!r}) deviates from the predicted outcome "
                                 f"but Trace_Procs accepted it: specification and digest disagree")
    for rr, b in sorted(bad_runs.items()):
        r = runs[rr]
        e = cat[r["script"]]
        key = _key_of(e, b["d"])
        rep.violation(key, f"run rejected by Trace_Procs at record {b['line']} of the trace: {b['d'].get('why')}; "
                           f"{mult.get(rr, 1)} explored schedule(s) give this trace",
                      {"sid": e["sid"], "text": e["text"], "choices": r["choices"], "diag": b["d"],
                       "expected": _expected(e), "digest": r["digest"]})
    rc = rep.finish()
    # evidence
    det_scripts = [i for i, e in enumerate(cat) if e["det"]]
    samples = []
    with open(trace) as f:
        for i, line in enumerate(f):
            if i < 5:
                samples.append(json.loads(line))
    samples.append({"catalogue_entry": cat[0]})
    dfs_exh = sum(1 for s in per_script.values() if s.get("dfs_exhausted"))
    vlib.write_evidence(PID, tier, {
        "states": rm.distinct + rl.distinct + sum(r.distinct for r in rn.values()),
        "transitions": rm.generated + rl.generated + sum(r.generated for r in rn.values()),
        "states_main_model": rm.distinct,
        "depth_main_model": rm.depth,
        "liveness_states": rl.distinct,
        "negative_configs": neg_found,
        "traces_validated_against_impl": len(runs),
        "trace_records_validated": nrec,
        "samples": samples,
        "evaluations": total_runs,
        "distinct_nontrivial": len(runs),
        "rule": "one run = one script of the TLC-generated catalogue under one schedule of the simulated processes; "
                "distinct = distinct sequences of (actor, probes, forks, reaps, exit) batches; every distinct run is "
                "validated by TLC against Procs.tla, every run of a deterministic script is compared with the "
                "TLC-computed prediction",
        "exhaustive": False,
        "scripts": len(cat),
        "scripts_deterministic": len(det_scripts),
        "scripts_validated_on_real_runs_only_in_this_tier": sum(1 for e in cat if e.get("px")) if tier == "quick" else 0,
        "scripts_dfs_exhausted_within_depth": dfs_exh,
        "scripts_with_all_schedules_enumerated": sum(1 for s in per_script.values() if s.get("all_schedules")),
        "max_choice_points_of_a_run": max([s.get("max_choice_points", 0) for s in per_script.values()] or [0]),
        "dfs_depth": t["depth"],
        "random_schedules_per_script": t["random"],
        "run_outcomes": outcomes,
        "runs_deviating_from_prediction": sum(mismatch.values()),
        "runs_rejected": len(bad_runs),
        "max_distinct_outcomes_of_a_deterministic_script": max([len(distinct_digests.get(i, ())) for i in det_scripts] or [0]),
        "tlc_action_coverage": {a: rm.coverage.get(a, 0) for a in ACTIONS} if tier == "quick" else {},
        "actions_not_exercised": missing,
        "known_finding_hits": {k: v[1] for k, v in rep.known_hits.items()},
    }, time.time() - t0, violations=len(rep.violations), assumptions=[
        "processes interleave at the granularity of the simulator (blocking points); the model interleaves finer",
        "the monitor option is off in every script shape (job-controlled foreground jobs are C12/G-module business); "
        "signals in the scripts: SIGCHLD, TERM (with and without a command trap), STOP and CONT sent by other processes",
        "external commands cannot run on the simulated OS: the foreground children are subshells, command "
        "substitutions and pipeline members running built-ins",
        "pids are allocated max+1 by the simulator; the model identifies processes by the same numbering",
        "TLC 1.8.0 and the JSON community module are trusted",
    ])
    if missing:
        raise vlib.ToolError(f"model actions never exercised: {missing}")
    for f in (trace, summ):
        try:
            os.remove(f)
        except OSError:
            pass
    return rc


def replay(path):
    with open(path) as f:
        obj = json.load(f)
    rp = obj["replay"]
    wd = vlib.workdir(PID + "-replay")
    out = os.path.join(wd, "one.ndjson")
    _, stdout, _ = vlib.run_harness(PKG, ["one", "--sid", json.dumps(rp["sid"]), "--text", rp["text"], "--prefix",
                                          ",".join(str(c) for c in rp["choices"]), "--out", out])
    print(stdout.strip()[:2000])
    bad, nrec, _, _ = _validate(out, wd, 1)
    if bad:
        print(f"rejected: {json.dumps(bad[0])[:2000]}")
        print(f"VIOLATION property={PID} replay={path}")
        return 1
    print("accepted")
    return 0
