"""G05 — the `read` built-in (specification-growth module; spec/ReadBuiltin.tla).

The oracle is the TLA+ definition spec/ReadBuiltin.tla (over spec/Split.tla of C01),
written from POSIX.1-2024 XCU `read` and docs/src/builtins/read.md: the logical
line (delimiter of -d, line continuation and escapes unless -r), the assignment
(IFS splitting, remainder to the last variable, surplus variables empty), the exit
status (0 / 1 at end of input with the partial line assigned / 2 or more on errors)
and the exact number of bytes consumed from descriptor 0.

 0. Calib_ReadBuiltin: the examples of the manual and the cases of read-p.sh /
    read-y.sh hold for the oracle (ASSUMEs; failure = tool error).
 1. Gen_ReadBuiltin + Laws: theorems of the definition (agrees with C01's
    ReadAllowed, locality of the consumed prefix, -r without backslashes changes
    nothing, empty IFS, a continuation joins, surplus variables empty) on every
    enumerated input.
 2. spec -> impl: TLC (Gen_ReadBuiltin) enumerates inputs per family and prints,
    for each, the fan raw x IFS x operands with what the specification demands;
    harness/g05 runs every case on the real shell (simulated OS) with the input as
    a regular file, as a pipe written in chunks with the reader running dry, and
    as a here-document; `after` records status, variables and what is left on
    descriptor 0.
 3. impl -> spec: seeded random scenarios (longer inputs, more IFS values and
    delimiters, up to five variables) plus a sample of the observations of step 2
    are judged by TLC (Trace_ReadBuiltin: ReadBuiltin!Conforms).
"""
import json
import os
import time

import vlib

PID = "G05"
PKG = "yv-g05"

TIERS = {
    "quick": dict(gen="Gen_ReadBuiltin_quick.cfg", laws="Gen_ReadBuiltin_lawsq.cfg", nrandom=40000, timeout=600),
    "thorough": dict(gen="Gen_ReadBuiltin_thorough.cfg", laws="Gen_ReadBuiltin_laws.cfg", nrandom=300000, timeout=2400),
}

SHARD = 60000       # records per Trace_ReadBuiltin run

REQUIRED = ["scan/cont", "scan/esc", "scan/escdelim", "scan/escnul", "scan/orphan", "assign/fields<vars",
            "assign/fields=vars", "assign/fields>vars", "assign/two-allowed", "status/0", "status/1", "opt/-r", "opt/-d"]
CLASSES = ["ok", "nul", "open", "ronly", "usage", "unreadable"]


def _summary(out):
    line = [l for l in out.strip().splitlines() if l.startswith("{")][-1]
    return json.loads(line)


def _command(rec):
    ifs = "IFS=%r" % rec["ifs"]["v"] if rec["ifs"]["set"] else "unset IFS"
    return "%s; read%s%s %s  <%s %r" % (ifs, " -r" if rec["raw"] else "",
                                          "" if rec["d"] == "none" else " -d %r" % rec["d"], rec["k"],
                                          rec["feed"], "".join(rec["inp"]))


def _key(rec, why, direction):
    return {"dir": direction, "symptom": why, "d": rec["d"], "raw": rec["raw"],
            "ifs": rec["ifs"]["v"] if rec["ifs"]["set"] else "<unset>", "vars": rec["k"], "inp": "|".join(rec["inp"])}


def _validate(rep, trace, timeout, totals, what, stage=None):
    """Run Trace_ReadBuiltin over `trace` (in shards); report every rejected record."""
    extra = {"stage": stage} if stage else {}
    with open(trace) as f:
        lines = f.readlines()
    n = len(lines)
    verdicts = {}
    wall = 0.0
    for a in range(0, n, SHARD):
        part = lines[a:a + SHARD]
        p = f"{trace}.shard"
        with open(p, "w") as f:
            f.writelines(part)
        r = vlib.tlc("Trace_ReadBuiltin", "Trace_ReadBuiltin.cfg", workers=8, timeout=timeout,
                     env={"TRACE": os.path.abspath(p)})
        os.remove(p)
        vlib.tlc_must_pass(r, f"trace validation (Trace_ReadBuiltin, {what})")
        if r.distinct != 2 * len(part) - 1:
            raise vlib.ToolError(f"trace validation judged {r.distinct} states for {len(part)} records")
        wall += r.wall
        totals["states"] += r.distinct
        totals["transitions"] += r.generated
        nok = len(part)
        for j in r.json:
            nok -= 1
            if j["v"] == "ok":
                k = "accepted:" + j["class"]
                verdicts[k] = verdicts.get(k, 0) + 1
                continue
            verdicts["reject"] = verdicts.get("reject", 0) + 1
            rec = json.loads(part[j["i"] - 1])
            rep.violation(dict(_key(rec, j["v"], "impl->spec"), **extra),
                          f"{what}: {j['v']} not what ReadBuiltin.tla allows (class {j['class']}): {_command(rec)} "
                          f"-> {json.dumps(rec['obs'])}", dict({"rec": rec, "why": j["v"], "dir": "impl->spec"}, **extra))
        verdicts["accepted:ok"] = verdicts.get("accepted:ok", 0) + nok
    vlib.log(f"[p4<-] {what}: {n} records judged by TLC in {wall:.1f}s: {verdicts}")
    return n, verdicts


def run(tier):
    t0 = time.time()
    T = TIERS[tier]
    wd = vlib.workdir(PID)
    rep = vlib.Reporter(PID)
    totals = {"states": 0, "transitions": 0}

    # 0. calibration
    r = vlib.tlc("Calib_ReadBuiltin", "Calib_ReadBuiltin.cfg", workers=1, timeout=300)
    vlib.tlc_must_pass(r, "calibration examples (Calib_ReadBuiltin)")
    vlib.log(f"[calib] Calib_ReadBuiltin: all ASSUMEs hold ({r.wall:.1f}s)")

    # 1. theorems of the definition
    r = vlib.tlc("Gen_ReadBuiltin", T["laws"], workers=8, timeout=T["timeout"])
    vlib.tlc_must_pass(r, f"theorems of the definition ({T['laws']})")
    laws_states = r.distinct
    totals["states"] += r.distinct
    totals["transitions"] += r.generated
    vlib.log(f"[laws] {T['laws']}: Laws hold on {r.distinct} inputs ({r.wall:.1f}s)")

    # 2. spec -> impl
    gen = os.path.join(wd, "gen.ndjson")
    r = vlib.tlc("Gen_ReadBuiltin", T["gen"], workers=8, timeout=T["timeout"], json_out=gen)
    vlib.tlc_must_pass(r, f"enumeration {T['gen']}")
    ngen = vlib.count_lines(gen)
    if ngen != r.distinct or ngen == 0:
        raise vlib.ToolError(f"enumeration printed {ngen} lines for {r.distinct} states")
    totals["states"] += r.distinct
    totals["transitions"] += r.generated
    vlib.log(f"[p4->] {T['gen']}: {r.distinct} inputs enumerated by TLC in {r.wall:.1f}s")
    samples = []
    with open(gen) as f:
        for i, line in enumerate(f):
            if i % 3989 == 1777 and len(samples) < 4:
                e = json.loads(line)
                c = e["cases"][(i // 7) % len(e["cases"])]
                samples.append({"family": e["fam"], "d": e["d"], "input": e["inp"], "raw": c["r"],
                                "ifs": e["ifs"][c["f"] - 1], "operands": c["k"], "class": c["c"], "status": c["s"],
                                "allowed_values": c["o"], "consumed": [c["lo"], c["hi"]]})
    mism = os.path.join(wd, "mismatch.ndjson")
    sample = os.path.join(wd, "sample.ndjson")
    t1 = time.time()
    _, out, _ = vlib.run_harness(PKG, ["replay", "--in", gen, "--out", mism, "--sample", sample, "--threads", "8"],
                                 timeout=T["timeout"])
    st1 = _summary(out)
    vlib.log(f"[p4->] replayed on the real shell in {time.time() - t1:.1f}s: {st1['cases']} cases in "
             f"{st1['shell_runs']} shell runs; classes {st1['by_class']}; feeds {st1['by_feed']}; "
             f"{st1['mismatches']} mismatches")
    if st1["lines"] != ngen:
        raise vlib.ToolError("harness did not replay every enumerated input")
    missing = [f for f in REQUIRED if not st1["features"].get(f)] + \
              ["class/" + c for c in CLASSES if not st1["by_class"].get(c)]
    if missing:
        raise vlib.ToolError(f"enumeration does not exercise: {missing}")
    for m in vlib.read_ndjson(mism):
        rep.violation(m["key"], m["detail"], {"rec": m["rec"], "dir": "spec->impl"})
    os.remove(gen)

    # 3. impl -> spec
    nsmp, vs = _validate(rep, sample, T["timeout"], totals, "sample of the replayed cases")
    if vs.get("reject", 0) == 0 and st1["mismatches"] == 0:
        pass
    trace = os.path.join(wd, "random.ndjson")
    _, out, _ = vlib.run_harness(PKG, ["random", "--n", T["nrandom"], "--out", trace, "--threads", "8"],
                                 timeout=T["timeout"])
    st2 = _summary(out)
    nrec, verdicts = _validate(rep, trace, T["timeout"], totals, "random scenario")
    with open(trace) as f:
        for i, line in enumerate(f):
            if i % 7919 == 77 and len(samples) < 7:
                samples.append(json.loads(line))
    os.remove(trace)
    os.remove(sample)

    rc = rep.finish()
    vlib.write_evidence(PID, tier, {
        "states": totals["states"],
        "transitions": totals["transitions"],
        "traces_validated_against_impl": nrec + nsmp,
        "samples": samples,
        "evaluations": st1["cases"] + st2["cases"],
        "distinct_nontrivial": st1["nontrivial"] + verdicts.get("accepted:ok", 0),
        "rule": "enumerated cases of class ok with a non-empty input (each under 2-3 feeds: file, chunked pipe, "
                "here-document), plus random scenarios of class ok accepted by Trace_ReadBuiltin",
        "exhaustive": True,
        "exhaustive_bound": f"all inputs of the families of {T['gen']} (see spec/Gen_ReadBuiltin.tla) x raw x IFS "
                            "x operands; random beyond",
        "config": T["gen"],
        "enumerated_inputs": ngen,
        "enumerated_inputs_by_family": st1["by_family"],
        "cases_replayed": st1["cases"],
        "cases_by_class": st1["by_class"],
        "cases_by_feed": st1["by_feed"],
        "rules_exercised_by_enumeration": st1["features"],
        "laws_checked_on_inputs": laws_states,
        "shell_runs": st1["shell_runs"] + st2["shell_runs"],
        "random_records": nrec,
        "random_by_feed": st2["by_feed"],
        "random_verdicts": verdicts,
        "sampled_replay_records_judged_by_TLC": nsmp,
        "sampled_verdicts": vs,
        "mismatches_spec_to_impl": st1["mismatches"],
    }, time.time() - t0, violations=len(rep.violations), assumptions=[
        "`after K` and `feed C` are built-ins registered by the harness: `after` records $?, v1..v5 and reads "
        "descriptor 0 to end of file; `feed` writes the input into the pipe in chunks, sleeping in virtual time "
        "between chunks; runs are on the simulated OS only",
        "where POSIX and the manual differ the manual decides (line continuation is always backslash-newline; an "
        "escaped delimiter is literal; with a backslash as delimiter no escape is recognised); for the last variable "
        "when the line has exactly as many fields as variables and ends with a non-white-space separator both the "
        "POSIX and the manual reading are allowed (as in C01)",
        "ill-formed byte sequences in the line and an escaped null byte under -d '' are left open by both documents "
        "(class open): only termination without panic and 'no byte beyond the delimiter consumed' are demanded",
        "a null byte in the line (class nul), read-only variables, invalid names, invalid delimiters, no operand, "
        "unreadable input: status 2 or more is demanded (and that non-operand variables keep their values, and the "
        "bound on consumed bytes); what the other variables hold then is not specified",
        "the texts of diagnostics, the -p / interactive prompt and the portable-option syntax errors are not modelled",
        "TLC and the JSON community module are trusted",
    ])
    return rc


STAGES = {
    # reduced slices run inside other checks: enumeration cfg per tier
    "c14": {"quick": "Gen_ReadBuiltin_c14q.cfg", "thorough": "Gen_ReadBuiltin_c14t.cfg"},
}


def run_stage(tier, rep, budget="c14"):
    """A reduced slice of G05 run as a stage of another check (C14: the bytes that `read`
    takes from a PIPE arrive complete and in order however the writer's chunks and the
    reader's requests interleave): TLC enumerates the family `pipe` of Gen_ReadBuiltin
    (default delimiter; letters, space, newline and characters of two, three and four
    bytes) with the fan raw x IFS x one / two variables; harness/g05 feeds every input
    through a pipe written in chunks of 1, 2 and 3 bytes with the reader running dry in
    between, and compares status, variables and the rest of descriptor 0 with what
    ReadBuiltin.tla demands; a sample of the observations is judged by Trace_ReadBuiltin.
    Violations go to `rep` (keys and replay objects carry "stage": "g05"); returns
    coverage numbers."""
    t0 = time.time()
    cfg = STAGES[budget][tier]
    timeout = TIERS[tier]["timeout"]
    wd = vlib.workdir(PID + "-stage-" + budget)
    vlib.build_harness(PKG)
    totals = {"states": 0, "transitions": 0}
    gen = os.path.join(wd, "gen.ndjson")
    r = vlib.tlc("Gen_ReadBuiltin", cfg, workers=4, timeout=timeout, json_out=gen)
    vlib.tlc_must_pass(r, f"enumeration {cfg}")
    ngen = vlib.count_lines(gen)
    if ngen != r.distinct or ngen == 0:
        raise vlib.ToolError(f"enumeration printed {ngen} lines for {r.distinct} states")
    totals["states"] += r.distinct
    totals["transitions"] += r.generated
    mism = os.path.join(wd, "mismatch.ndjson")
    sample = os.path.join(wd, "sample.ndjson")
    _, out, _ = vlib.run_harness(PKG, ["replay", "--in", gen, "--out", mism, "--sample", sample, "--threads", "4",
                                       "--feeds", "pipe"], timeout=timeout)
    st1 = _summary(out)
    if st1["lines"] != ngen:
        raise vlib.ToolError("harness did not replay every enumerated input")
    for m in vlib.read_ndjson(mism):
        rep.violation(dict(m["key"], stage="g05"), m["detail"], {"stage": "g05", "rec": m["rec"], "dir": "spec->impl"})
    nsmp, vs = _validate(rep, sample, timeout, totals, "g05-stage sample of the replayed cases", stage="g05")
    vlib.log(f"[g05-stage] {cfg}: {ngen} inputs enumerated by TLC ({r.wall:.1f}s), {st1['cases']} cases through a pipe "
             f"(feeds {st1['by_feed']}, classes {st1['by_class']}), {st1['mismatches']} mismatches, "
             f"{nsmp} sampled records judged by TLC, {time.time() - t0:.1f}s")
    for p in (gen, mism, sample):
        os.remove(p)
    return {"config": cfg, "states": totals["states"], "transitions": totals["transitions"], "enumerated_inputs": ngen,
            "cases_replayed": st1["cases"], "cases_by_feed": st1["by_feed"], "cases_by_class": st1["by_class"],
            "nontrivial": st1["nontrivial"], "mismatches": st1["mismatches"],
            "sampled_records_judged_by_TLC": nsmp, "sampled_verdicts": vs, "wall_s": round(time.time() - t0, 1)}


def replay(path):
    with open(path) as f:
        obj = json.load(f)
    rec = obj["replay"]["rec"]
    wd = vlib.workdir(PID + "-replay")
    src = os.path.join(wd, "sc.json")
    with open(src, "w") as f:
        json.dump(rec, f)
    t = os.path.join(wd, "one.ndjson")
    vlib.run_harness(PKG, ["one", "--in", src, "--out", t])
    r = vlib.tlc("Trace_ReadBuiltin", "Trace_ReadBuiltin.cfg", workers=1, timeout=300, env={"TRACE": os.path.abspath(t)})
    vlib.tlc_must_pass(r, "replay validation")
    now = json.loads(open(t).read())
    print(_command(now))
    print("observed:", json.dumps(now["obs"]))
    bad = [j for j in r.json if j["v"] != "ok"]
    if bad:
        print(f"rejected: {bad[0]}")
        print(f"VIOLATION property={obj.get('property', PID)} replay={path}")
        return 1
    print("accepted" + (f" ({r.json[0]})" if r.json else ""))
    return 0
