"""G01 (specification growth) - the `cd` and `pwd` built-ins and the shell's
notion of the working directory.

Oracle: spec/CdPwd.tla, written from POSIX XCU `cd` (steps 1-10), `pwd`, `sh`
(initialisation of PWD) and docs/src/builtins/cd.md, pwd.md.

P1  TLC checks the theorems of CdPwd.tla on every explored state and step
    (spec/Gen_CdPwd.tla, invariant Emit) and the calibration examples from the
    manual and cd-p.sh / cd-y.sh (spec/Calib_CdPwd.tla).
P4  enumeration, spec -> impl: TLC explores trees x starts of the shell x
    states reachable by successful cd commands and prints, per state, the
    outcome the specification allows for every step of a fan of cd / pwd
    commands; harness/g01 drives the real shell into each state and runs every
    step there, on the real file system (chroot into a scratch directory) and,
    for trees without symbolic links, on the simulated file system.
P4  validation, impl -> spec: seeded random trees and long random cd / pwd
    sequences run by the real shell, recorded and judged by TLC
    (spec/Trace_CdPwd.tla).
"""
import json
import os
import threading
import time

import vlib

PID = "G01"
PKG = "yv-g01"

TIERS = {
    "quick": {"gen": "Gen_CdPwd_quick.cfg", "random": (400, 16), "timeout": 600},
    "thorough": {"gen": "Gen_CdPwd_thorough.cfg", "random": (1500, 24), "timeout": 3000},
}


def _step_text(e):
    pre = " ".join(f"{n}={v!r}" for n, v in e.get("pre", []))
    cmd = " ".join([e.get("k", "?")] + list(e.get("opts", [])) + [repr(a) for a in e.get("args", [])])
    return (pre + " " + cmd).strip()


def _key(direction, mode, links, field, step):
    return {"dir": direction, "mode": mode, "links": links, "field": field, "k": step.get("k", ""),
            "opts": " ".join(step.get("opts", [])), "args": "|".join(step.get("args", [])),
            "pre": " ".join(f"{n}={v}" for n, v in step.get("pre", []))}


def _validate(trace, timeout, workers=6):
    """Run Trace_CdPwd over `trace`; returns ({1-based record index: verdict}, records, wall)."""
    n = vlib.count_lines(trace)
    if n == 0:
        return {}, 0, 0.0
    r = vlib.tlc("Trace_CdPwd", "Trace_CdPwd.cfg", workers=workers, timeout=timeout, env={"TRACE": os.path.abspath(trace)})
    vlib.tlc_must_pass(r, "trace validation Trace_CdPwd")
    if r.distinct != 2 * n - 1:
        raise vlib.ToolError(f"trace validation reached {r.distinct} of {2 * n - 1} index ranges")
    return {j["i"]: j for j in r.json}, n, r.wall


def run(tier):
    t0 = time.time()
    cfgs = TIERS[tier]
    wd = vlib.workdir(PID)
    rep = vlib.Reporter(PID)
    vlib.build_harness(PKG)
    seed = vlib.seed()

    side = {}

    def do_calib():
        try:
            side["c"] = vlib.tlc("Calib_CdPwd", "Calib_CdPwd.cfg", workers=1, timeout=cfgs["timeout"])
        except Exception as e:  # reported below
            side["e"] = e

    th = threading.Thread(target=do_calib)
    th.start()
    try:
        return _run(tier, cfgs, wd, rep, seed, side, th, t0)
    finally:
        th.join()


def _run(tier, cfgs, wd, rep, seed, side, th, t0):
    # ---- spec -> impl -------------------------------------------------------
    gen = os.path.join(wd, "gen.ndjson")
    r = vlib.tlc("Gen_CdPwd", cfgs["gen"], workers=8, timeout=cfgs["timeout"], json_out=gen)
    vlib.tlc_must_pass(r, f"enumeration and theorems {cfgs['gen']}")
    states, transitions = r.distinct, r.generated
    vlib.log(f"[tlc] {cfgs['gen']}: {r.distinct} states (theorems hold on every one), {r.generated} transitions, "
             f"depth {r.depth}, {r.wall:.1f}s")
    nlines = vlib.count_lines(gen)
    if nlines != r.distinct:
        raise vlib.ToolError(f"TLC printed {nlines} state lines for {r.distinct} states")
    mis = os.path.join(wd, "mismatch.ndjson")
    _, out, _ = vlib.run_harness(PKG, ["replay", "--in", gen, "--out", mis], timeout=cfgs["timeout"])
    summ = json.loads(out.strip().splitlines()[-1])
    if summ["states"] != r.distinct or summ["real"]["cases"] == 0:
        raise vlib.ToolError(f"replay covered {summ['states']} of {r.distinct} states")
    vlib.log(f"[p4] replay: {summ['real']['cases']} cases on the real fs, {summ['sim']['cases']} on the simulated fs "
             f"({summ['sim'].get('sim_dirty', 0)} skipped there: simulated cwd not canonical; "
             f"{summ['sim_skipped_links']} not run there: symbolic links); "
             f"{summ['real'].get('mismatches', 0) + summ['sim'].get('mismatches', 0)} deviation(s)")
    for m in vlib.read_ndjson(mis):
        e = m["exp"]
        if m["field"] == "state":
            detail = (f"{m['mode']} file system, tree {m['tid']}: after start {m['start']} and "
                      f"{[_step_text(x) for x in m['w']]} the shell is in {m['seen']}, the specification in {m['s']}")
            step = m["w"][-1] if m["w"] else {"k": "start", "opts": [], "args": [m["start"]["env"]["pwd"]], "pre": []}
        else:
            detail = (f"{m['mode']} file system, tree {m['tid']}, state {m['s']}: `{_step_text(e)}` -> observed {m['seen']}; "
                      f"allowed status {e['st']}, stdout {e['out']}, PWD {e['pwd']}, OLDPWD {e['oldpwd']}, cwd {e['cwd']}, "
                      f"pwd -L {e['pl']}, pwd -P {e['pp']} (deviating: {m['field']})")
            step = e
        rep.violation(_key("spec->impl", m["mode"], m["links"], m["field"], step), detail, m)
    os.remove(gen)
    os.remove(mis)

    # ---- impl -> spec -------------------------------------------------------
    runs, length = cfgs["random"]
    trace = os.path.join(wd, "random.ndjson")
    _, out, _ = vlib.run_harness(PKG, ["random", "--runs", str(runs), "--len", str(length), "--out", trace],
                                 timeout=cfgs["timeout"])
    rsumm = json.loads(out.strip().splitlines()[-1])
    verdicts, nrec, wall = _validate(trace, cfgs["timeout"])
    recs = list(vlib.read_ndjson(trace))
    counts = {"ok": 0, "unspec": 0, "reject": 0}
    judged_steps = 0
    for i, rec in enumerate(recs, start=1):
        v = verdicts.get(i)
        if v is None:
            counts["ok"] += 1
            judged_steps += len(rec["steps"])
            continue
        if v["v"] == "bad-input":
            raise vlib.ToolError(f"random record {i} is not a well-formed case")
        counts[v["v"]] += 1
        judged_steps += max(0, v["k"] - 1)
        if v["v"] == "reject":
            links = any(n["k"] == "l" for n in rec["nodes"])
            if v["k"] == 0:
                step = {"k": "start", "opts": [], "args": [rec["env"]["pwd"]], "pre": []}
                seen = rec["s0"]
            else:
                step = rec["steps"][v["k"] - 1]
                seen = {k: step[k] for k in ("st", "out", "pwd", "oldpwd", "cwd")}
            rep.violation(_key("impl->spec", rec["mode"], links, v["f"], step),
                          f"random sequence {rec['id']} on the {rec['mode']} file system, step {v['k']} "
                          f"`{_step_text(step)}`: observed {seen} is not allowed by CdPwd.tla ({v['f']})",
                          dict(rec, reject_step=v["k"]))
    vlib.log(f"[p4] random: {nrec} sequences ({rsumm['steps']} steps, {judged_steps} judged) validated by Trace_CdPwd "
             f"in {wall:.1f}s: {counts}; {rsumm['sim_steps_cut_dirty']} simulated steps cut (simulated cwd not canonical)")
    samples = list(summ["samples"][:4])
    for rec in recs[:2]:
        samples.append({"random": [_step_text(s) + f" -> {s['st']} PWD={s['pwd']}" for s in rec["steps"][:4]],
                        "mode": rec["mode"]})
    os.remove(trace)

    th.join()
    if "e" in side:
        raise side["e"]
    vlib.tlc_must_pass(side["c"], "calibration examples Calib_CdPwd")

    rc = rep.finish()
    cases = summ["real"]["cases"] + summ["sim"]["cases"]
    vlib.write_evidence(PID, tier, {
        "states": states,
        "transitions": transitions,
        "traces_validated_against_impl": cases + nrec,
        "samples": samples,
        "evaluations": cases + rsumm["steps"],
        "distinct_nontrivial": summ["real"].get("nontrivial", 0),
        "rule": "distinct (tree, state, step) cases on the real file system in which the specification requires a "
                "successful cd (working directory, PWD and OLDPWD change), each confirmed on the real shell",
        "exhaustive": True,
        "bounds": {"cfg": cfgs["gen"], "depth": r.depth, "tlc_wall_s": round(r.wall, 1)},
        "enumeration": {"real": summ["real"], "sim": summ["sim"], "sim_not_run_symlinks": summ["sim_skipped_links"]},
        "random": dict(rsumm, verdicts=counts, judged_steps=judged_steps),
        "known_finding_hits": {fid: n for fid, (_, n) in rep.known_hits.items()},
        "not_covered": ["directories without search permission, removed working directory (cd -P unable to determine "
                        "PWD, -e exit status 1): the sandbox runs as root",
                        "read-only PWD / OLDPWD, PWD assigned or unset by the script (manual: unspecified)",
                        "pathnames longer than PATH_MAX (cd step 9), two leading slashes (implementation-defined)",
                        "write errors on standard output, long options, the portable option",
                        "symbolic-link trees on the simulated file system (known findings C05-F2, C19)"],
    }, time.time() - t0, violations=len(rep.violations), assumptions=[
        "the real Linux file system (chroot into a scratch directory) is the reference for pathname resolution",
        "exit statuses 2-5 as documented in docs/src/builtins/cd.md (POSIX: > 0)",
        "unset and empty HOME / OLDPWD / CDPATH are equivalent (every clause treats them alike)",
        "TLC 1.8.0 and the JSON community module are trusted",
    ])
    return rc


def replay(path):
    with open(path) as f:
        obj = json.load(f)
    rec = obj["replay"]
    wd = vlib.workdir(PID + "-replay")
    src = os.path.join(wd, "in.ndjson")
    with open(src, "w") as f:
        f.write(json.dumps(rec) + "\n")
    res = os.path.join(wd, "out.ndjson")
    _, out, _ = vlib.run_harness(PKG, ["redo", "--in", src, "--out", res])
    if "steps" in rec:      # a rejected random sequence: run it again and let TLC judge
        verdicts, n, _ = _validate(res, 300, workers=1)
        bad = 0
        for i, r in enumerate(vlib.read_ndjson(res), start=1):
            v = verdicts.get(i)
            print(f"{r['mode']}: sequence {r['id']}: {('ok' if v is None else json.dumps(v))}")
            if v is not None and v["v"] == "reject":
                st = r["steps"][v["k"] - 1] if v["k"] > 0 else r["s0"]
                print("  " + json.dumps(st))
                bad += 1
    else:                   # a deviation found by the enumeration
        for r in vlib.read_ndjson(res):
            print(r["script"].rstrip())
            print(f"  -> {r['verdict']}")
        bad = json.loads(out.strip().splitlines()[-1])["bad"]
    if bad:
        print(f"VIOLATION property={PID} replay={path}")
    return 1 if bad else 0
