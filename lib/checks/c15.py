"""C15 — the executor never loses a wake-up and never polls a finished task
(DESIGN.md section 6, C15).

P1  TLC checks, on every reachable state of the implementation-shaped driver
    spec/Executor.tla (FIFO wake queue of yash-executor + lazy task scripts):
    the queue holds exactly the woken tasks, each once (no lost wake-up, no
    duplicate), the body of a finished task is never entered, FIFO overtakes
    a woken task at most once, relays move forward, a stall implies every
    unfinished task is genuinely waiting; that every driver step is a step of
    the abstract contract spec/ExecutorAbs.tla (any woken task may be polled,
    bounded overtaking); the contract's own invariants on its own graph; and
    under weak fairness that a woken task is eventually polled although the
    others re-wake themselves forever (and that a LIFO variant fails this).
P2  every between-steps state of the driver graph (thorough: every
    TRANSITION of the base graph, i.e. every (state, action) pair; for the
    larger graphs every stalled state) yields a behaviour (task scripts +
    external schedule); the harness runs it on the real
    yash_executor with instrumented futures.  Behaviours whose observed event
    sequence equals the driver's prediction need no further judgement (the
    driver refines the contract, TLC-checked); every other one is validated
    by TLC against ExecutorAbs (Trace_Executor): accepted = model drift
    (noted), rejected = VIOLATION.  A sample of the equal ones is validated
    too, to keep trace spec and driver in step.
P3  seeded random larger systems (8 tasks x 10 actions, 3 channels) recorded
    by the instrumented futures and validated by TLC against ExecutorAbs.
"""
import json
import os
import time

import vlib

PID = "C15"
PKG = "yv-c15"

# (cfg, channels of the config, coverage?)
GEN = {
    "quick": [("Gen_Executor_quick.cfg", 2, True), ("Gen_Executor_rewake.cfg", 1, False)],
    "thorough": [("Gen_Executor_trans.cfg", 2, True), ("Gen_Executor_rewake.cfg", 1, False),
                 ("Gen_Executor_pinned.cfg", 2, False),
                 ("Gen_Executor_b3.cfg", 2, False), ("Gen_Executor_t4.cfg", 2, False),
                 ("Gen_Executor_t4b3.cfg", 1, False)],
}
ABS = {"quick": "MC_ExecutorAbs_quick.cfg", "thorough": "MC_ExecutorAbs.cfg"}
RANDOM = {
    # runs, tasks, chans, budget, steps
    "quick": dict(runs=500, tasks=8, chans=3, budget=10, steps=400),
    "thorough": dict(runs=6000, tasks=8, chans=3, budget=10, steps=600),
}


def _is_reset(line):
    return '"ev":"reset"' in line


def _runs_of(path):
    """[(first_line_no (1-based), reset_record, [event records])]"""
    runs = []
    with open(path) as f:
        for i, line in enumerate(f, 1):
            line = line.strip()
            if not line:
                continue
            r = json.loads(line)
            if r["ev"] == "reset":
                runs.append((i, r, []))
            else:
                runs[-1][2].append(r)
    return runs


def _subsample_runs(path, n):
    """Keep about n runs of a file of runs: the first n/5 (shortest histories,
    BFS order), the last n/5 (deepest) and an even spread in between."""
    starts = []
    with open(path) as f:
        lines = f.readlines()
    for i, line in enumerate(lines):
        if _is_reset(line):
            starts.append(i)
    m = len(starts)
    if m <= n:
        return m
    k = n // 5
    keep = set(range(k)) | set(range(m - k, m))
    rest = n - 2 * k
    keep |= {k + (j * (m - 2 * k)) // rest for j in range(rest)}
    starts.append(len(lines))
    with open(path, "w") as f:
        for j in sorted(keep):
            f.writelines(lines[starts[j]:starts[j + 1]])
    return len(keep)


def _validate(rep, trace, what, mk_replay, shards=8, timeout=1500):
    """Validate a file of runs with Trace_Executor.  Rejections become
    violations.  Returns (info, rejected_run_count)."""
    if vlib.count_lines(trace) == 0:
        return {"events": 0, "wall": 0.0, "shards": 0}, 0
    ok, info = vlib.validate_trace_sharded("Trace_Executor", trace, shards=shards, boundary=_is_reset,
                                           timeout=timeout)
    bad = 0
    if not ok:
        runs = _runs_of(trace)
        for f in info.get("failures", []):
            if f.get("line") is None:
                # an invariant / forward clause broke on a matched prefix
                if f.get("violation"):
                    rep.violation({"kind": what, "ev": "invariant"},
                                  f"{what}: invariant of ExecutorAbs violated on a recorded trace: "
                                  + f["violation"][:600], {"kind": "text", "text": f["violation"][:3000]})
                    bad += 1
                    continue
                raise vlib.ToolError(f"trace rejected without a record: {str(f)[:1500]}")
            rec = json.loads(f["record"])
            run = [r for r in runs if r[0] <= f["line"]][-1]
            upto = f["line"] - run[0]
            key = {"kind": run[1]["r"], "ev": rec["ev"], "r": rec["r"], "b": rec["b"]}
            rep.violation(key, f"{what}: event #{upto} of run {run[1]['v']} is not allowed by ExecutorAbs: {rec}",
                          mk_replay(run[1], run[2], upto))
            bad += 1
    return info, bad


def run(tier):
    t0 = time.time()
    wd = vlib.workdir(PID)
    rep = vlib.Reporter(PID)
    vlib.build_harness(PKG)
    states = transitions = 0
    cov = {}
    per_cfg = []
    samples = []
    notes = []

    # ---- P1: liveness under fairness, and the negative (LIFO) configuration
    r = vlib.tlc("Executor", "MC_Executor_live.cfg", workers=4, timeout=900)
    vlib.tlc_must_pass(r, "FIFO no-starvation under weak fairness (MC_Executor_live)")
    vlib.log(f"[tlc] liveness NoStarvation holds: {r.distinct} states, {r.wall:.1f}s")
    live_states = r.distinct
    states += r.distinct
    transitions += r.generated
    r = vlib.tlc("Executor", "MC_Executor_live_neg.cfg", workers=4, timeout=900)
    txt = (r.violation or "") + (r.error or "")
    if r.ok or "Temporal property NoStarvation was violated" not in txt:
        raise vlib.ToolError("negative configuration (LIFO wake) was not refuted by TLC: "
                             + (r.error or "passed")[:800])
    vlib.log(f"[tlc] negative config (woken task pushed to the front) refuted as expected, {r.wall:.1f}s")

    # ---- P1: the abstract contract on its own graph (any woken task may be polled)
    r = vlib.tlc("ExecutorAbs", ABS[tier], workers=8, timeout=1500)
    vlib.tlc_must_pass(r, f"abstract contract {ABS[tier]}")
    vlib.log(f"[tlc] {ABS[tier]}: {r.distinct} distinct states, {r.generated} generated, {r.wall:.1f}s")
    abs_states = r.distinct
    states += r.distinct
    transitions += r.generated

    # ---- P1 + P2: driver model, behaviours replayed on the real executor
    behaviours = matched = drift = p2_events = validated_events = 0
    kinds = {}
    for cfg, nchan, want_cov in GEN[tier]:
        gen = os.path.join(wd, cfg + ".beh.ndjson")
        r = vlib.tlc("Executor", cfg, workers=8, timeout=3000, json_out=gen, coverage=want_cov)
        vlib.tlc_must_pass(r, f"model check {cfg}")
        vlib.log(f"[tlc] {cfg}: {r.distinct} distinct states, {r.generated} generated, depth {r.depth}, {r.wall:.1f}s")
        states += r.distinct
        transitions += r.generated
        for a, c in r.coverage.items():
            cov[a] = cov.get(a, 0) + c
        mm = os.path.join(wd, cfg + ".mismatch.ndjson")
        sm = os.path.join(wd, cfg + ".sample.ndjson")
        nb = vlib.count_lines(gen)
        every = max(1, nb // (150 if tier == "quick" else 400))
        _, out, _ = vlib.run_harness(PKG, ["replay", "--in", gen, "--chans", nchan, "--mismatch", mm, "--sample", sm,
                                           "--sample-every", every, "--max-mismatch", 400000])
        stt = json.loads(out)
        behaviours += stt["behaviours"]
        matched += stt["matched"]
        p2_events += stt["events"]
        for k, v in stt["event_kinds"].items():
            kinds[k] = kinds.get(k, 0) + v
        vlib.log(f"[p2] {cfg}: {stt['behaviours']} behaviours ({stt['events']} events) run on the real executor, "
                 f"{stt['matched']} equal to the driver's prediction, {stt['mismatched']} not")

        with open(gen) as f:
            gen_lines = None if stt["mismatched"] == 0 else f.readlines()

        def mk_replay(reset, evs, upto, gen_lines=gen_lines, nchan=nchan, cfg=cfg):
            h = json.loads(gen_lines[reset["v"] - 1]) if gen_lines else [
                [e["ev"], e["t"], e["a"], e["r"], e["b"], e["v"], e["wc"]] for e in evs]
            return {"kind": "p2", "cfg": cfg, "chans": nchan, "h": h, "observed": evs[:upto + 1]}

        if stt["mismatched"]:
            for fm in stt["first_mismatch"]:
                vlib.log(f"[p2] first difference: {json.dumps(fm)[:400]}")
            n_mm = _subsample_runs(mm, 1200)
            info, bad = _validate(rep, mm, f"replay of {cfg}", mk_replay)
            validated_events += info["events"]
            drift += max(0, n_mm - bad)
            if bad == 0:
                notes.append(f"NOTE: {stt['mismatched']} behaviours of {cfg} differ from the driver model but "
                             f"are allowed by ExecutorAbs (model drift)")
                vlib.log(notes[-1])
        # the sample of equal behaviours must be accepted (keeps trace spec and driver in step)
        tmp = vlib.Reporter(PID)
        info, bad = _validate(tmp, sm, f"sample of {cfg}", mk_replay, shards=4)
        if bad:
            raise vlib.ToolError(f"a behaviour equal to the driver's prediction was rejected by Trace_Executor "
                                 f"(driver and trace spec disagree): {tmp.violations[:1]}")
        validated_events += info["events"]
        vlib.log(f"[p2] {cfg}: sample of {stt['sampled']} equal behaviours ({info['events']} events) accepted by "
                 f"ExecutorAbs in {info['wall']:.1f}s")
        if not samples:
            for _, rs, evs in _runs_of(sm)[3:5]:
                samples.append({"kind": "p2", "cfg": cfg, "events": [f"{e['ev']}:{e['t']}:{e['a']}:{e['r']}:{int(e['b'])}:wc{e['wc']}" for e in evs]})
        per_cfg.append({"cfg": cfg, "states": r.distinct, "transitions": r.generated, "behaviours": stt["behaviours"],
                        "equal": stt["matched"], "different": stt["mismatched"]})
        for p in (gen, mm, sm):
            os.remove(p)

    # ---- P3: random larger systems
    rp = RANDOM[tier]
    trace = os.path.join(wd, "random.trace.ndjson")
    _, out, _ = vlib.run_harness(PKG, ["random", "--runs", rp["runs"], "--tasks", rp["tasks"], "--chans", rp["chans"],
                                       "--budget", rp["budget"], "--steps", rp["steps"], "--out", trace])
    rst = json.loads(out)

    def mk_replay3(reset, evs, upto):
        return {"kind": "p3", "seed": reset["v"], "tasks": rp["tasks"], "chans": rp["chans"],
                "budget": rp["budget"], "steps": rp["steps"], "observed": evs[:upto + 1]}

    info, bad = _validate(rep, trace, "random system", mk_replay3)
    vlib.log(f"[p3] {rst['runs']} random systems, {info['events']} events validated against ExecutorAbs in "
             f"{info['wall']:.1f}s, {bad} rejected")
    rs = _runs_of(trace)
    if rs:
        longest = max(rs, key=lambda x: len(x[2]))
        samples.append({"kind": "p3", "seed": longest[1]["v"], "events": len(longest[2]),
                        "head": [f"{e['ev']}:{e['t']}:{e['a']}:{e['r']}:wc{e['wc']}" for e in longest[2][:25]]})
    os.remove(trace)

    rc = rep.finish()
    unexercised = sorted(a for a, c in cov.items() if c == 0)
    vlib.write_evidence(PID, tier, {
        "states": states,
        "transitions": transitions,
        "traces_validated_against_impl": behaviours + rst["runs"],
        "samples": samples,
        "evaluations": p2_events + rst["events"],
        "distinct_nontrivial": behaviours,
        "rule": "one behaviour (external schedule + task scripts) per distinct between-steps state of the driver "
                "graph (Gen_*_trans: per transition; pinned/b3/t4b3: per stalled state), each run on the real executor and compared event by event (incl. wake_count) with the "
                "TLC-checked driver; unequal ones and all random systems validated by TLC against ExecutorAbs",
        "exhaustive": True,
        "configs": per_cfg,
        "abstract_contract_states": abs_states,
        "liveness_states": live_states,
        "negative_config_refuted": True,
        "behaviours_equal_to_driver": matched,
        "drift": drift,
        "events_validated_by_tlc": validated_events + info["events"],
        "random_systems": rst["runs"],
        "random_events": rst["events"],
        "random_event_kinds": rst["event_kinds"],
        "replayed_event_kinds": kinds,
        "tlc_action_coverage": cov,
        "actions_not_exercised": unexercised,
        "notes": notes,
    }, time.time() - t0, violations=len(rep.violations), assumptions=[
        "task bodies are the harness's instrumented futures (yield / wait / signal / spawn / kick / await / "
        "complete); tasks never call step() re-entrantly and never drop the executor",
        "bounded overtaking with MaxOver = 2 is the finitely checkable form of starvation freedom",
        "TLC 1.8.0 and the JSON community module are trusted",
    ])
    return rc


def replay(path):
    with open(path) as f:
        obj = json.load(f)
    if obj.get("replay", {}).get("kind") == "text":
        print(obj["replay"]["text"])
        return 1
    wd = vlib.workdir(PID + "-replay")
    t = os.path.join(wd, "one.ndjson")
    vlib.run_harness(PKG, ["redo", "--in", path, "--out", t])
    ok, info = vlib.validate_trace("Trace_Executor", t)
    print("accepted" if ok else f"rejected: {str(info)[:1500]}")
    if not ok:
        print(f"VIOLATION property={PID} replay={path}")
    return 0 if ok else 1
