"""G08 (specification growth) - process attributes: the built-ins `ulimit`,
`umask`, `times` and the system calls getrlimit / setrlimit / umask below them.

Oracle: spec/Limits.tla, written from POSIX (XSH getrlimit / setrlimit / umask /
times, XCU ulimit / umask / times, chmod's symbolic modes) and
docs/src/builtins/{ulimit,umask,times}.md.  One model, two systems: the
simulated system and the real kernel are both replayed against it; what differs
is the platform record (`yv-g08 platform`).

P1  TLC checks the theorems of Gen_Limits.tla on every explored state (the
    symbolic-mode algebra, set-then-show, failures change nothing, hard limits
    only go down) and the calibration examples (spec/Calib_Limits.tla).
P4  enumeration, spec -> impl: per system and family (ulimit / umask / calls)
    TLC prints, per reachable state, the allowed alternatives for every entry
    of a fan of commands; harness/g08 drives the shell (or the system object)
    into the state and runs every entry there.  Exact matches are accepted,
    everything else goes to the judge.
P4  validation, impl -> spec: seeded random command and call sequences, and the
    cases the replay could not accept by equality, are judged by TLC
    (spec/Trace_Limits.tla).
"""
import json
import os
import re
import threading
import time

import vlib

PID = "G08"
PKG = "yv-g08"

TIERS = {
    "quick": {"level": "quick", "random": (240, 14), "timeout": 900},
    "thorough": {"level": "thorough", "random": (2400, 20), "timeout": 3000},
}
FAMILIES = ("ulimit", "umask", "calls")
SYSTEMS = ("sim", "real")


def _is_observer(c):
    if c[0] in ("getrlimit", "sys_getumask", "times"):
        return True
    if c[0] in ("umask", "ulimit"):
        ops = []
        seen_dd = False
        for a in c[1:]:
            if seen_dd or not a.startswith("-") or a == "-":
                ops.append(a)
            elif a == "--":
                seen_dd = True
        return not ops
    return False


def _blame(steps, k):
    """The step a rejected observation is attributed to: the rejected step, or,
    if that one only observes, the nearest earlier step that sets something."""
    if k <= 0:
        return None, "start"
    c = steps[k - 1]["c"]
    if _is_observer(c):
        for j in range(k - 2, -1, -1):
            if not _is_observer(steps[j]["c"]):
                return steps[j]["c"], "readback"
    return c, "step"


def _key(direction, sysname, layer, cmd, at, field):
    key = {"dir": direction, "sys": sysname, "layer": layer, "cmd": cmd[0] if cmd else "", "args": " ".join(cmd[1:]) if cmd else "",
           "at": at, "f": field}
    if cmd and cmd[0] == "umask" and len(cmd) > 1:
        key["mode"] = cmd[-1]
    return key


def _judge(trace, plat, timeout, workers=4):
    """Trace_Limits over `trace`; returns ({1-based index: verdict}, records, wall)."""
    n = vlib.count_lines(trace)
    if n == 0:
        return {}, 0, 0.0
    r = vlib.tlc("Trace_Limits", "Trace_Limits.cfg", workers=workers, timeout=timeout,
                 env={"TRACE": os.path.abspath(trace), "PLATFORM": os.path.abspath(plat)})
    vlib.tlc_must_pass(r, f"trace validation Trace_Limits ({os.path.basename(trace)})")
    if r.distinct != 2 * n - 1:
        raise vlib.ToolError(f"trace validation reached {r.distinct} of {2 * n - 1} index ranges")
    return {j["i"]: j for j in r.json}, n, r.wall


def _platform(wd, sysname):
    _, out, _ = vlib.run_harness(PKG, ["platform", "--sys", sysname])
    p = os.path.join(wd, f"{sysname}.json")
    plat = json.loads(out.strip().splitlines()[-1])
    with open(p, "w") as f:
        json.dump(plat, f)
    return p, plat


def _pipeline(sysname, wd, cfgs, res):
    """Everything for one system; results into res[sysname]."""
    try:
        res[sysname] = _pipeline_inner(sysname, wd, cfgs)
    except Exception as e:  # re-raised by the caller
        res[sysname] = e


def _pipeline_inner(sysname, wd, cfgs):
    plat_path, plat = _platform(wd, sysname)
    out = {"plat": plat, "plat_path": plat_path, "gen": {}, "replay": {}, "states": 0, "transitions": 0}
    records = os.path.join(wd, f"records-{sysname}.ndjson")
    open(records, "w").close()
    for fam in FAMILIES:
        cfg = f"Gen_Limits_{fam}_{cfgs['level']}.cfg"
        gen = os.path.join(wd, f"gen-{fam}-{sysname}.ndjson")
        r = vlib.tlc("Gen_Limits", cfg, workers=8 if fam == "umask" else 4, timeout=cfgs["timeout"], json_out=gen,
                     env={"PLATFORM": plat_path})
        vlib.tlc_must_pass(r, f"enumeration and theorems {cfg} ({sysname})")
        if vlib.count_lines(gen) != r.distinct:
            raise vlib.ToolError(f"TLC printed {vlib.count_lines(gen)} state lines for {r.distinct} states ({cfg}, {sysname})")
        vlib.log(f"[tlc] {sysname} {cfg}: {r.distinct} states (theorems hold on every one), {r.generated} transitions, "
                 f"depth {r.depth}, {r.wall:.1f}s")
        out["states"] += r.distinct
        out["transitions"] += r.generated
        out["gen"][fam] = {"states": r.distinct, "transitions": r.generated, "depth": r.depth, "tlc_wall_s": round(r.wall, 1)}
        judge = os.path.join(wd, f"judge-{fam}-{sysname}.ndjson")
        summ_path = os.path.join(wd, f"sum-{fam}-{sysname}.json")
        vlib.run_harness(PKG, ["replay", "--sys", sysname, "--platform", plat_path, "--in", gen, "--judge", judge,
                               "--out", summ_path], timeout=cfgs["timeout"])
        with open(summ_path) as f:
            summ = json.loads(f.read().strip().splitlines()[-1])
        if summ["states"] != r.distinct or summ["cases"] == 0:
            raise vlib.ToolError(f"replay covered {summ['states']} of {r.distinct} states ({fam}, {sysname})")
        out["replay"][fam] = summ
        vlib.log(f"[p4] {sysname} {fam}: {summ['cases']} cases, {summ['exact']} equal to an allowed alternative, "
                 f"{summ['to_judge']} to the judge ({summ['open_text']} without canonical text, {summ['lost']} without "
                 f"observation), {summ['unspec']} entries not judged (unspecified)")
        with open(records, "a") as f, open(judge) as g:
            for line in g:
                f.write(line)
        os.remove(gen)
        os.remove(judge)
    runs, length = cfgs["random"]
    rnd = os.path.join(wd, f"random-{sysname}.ndjson")
    _, o, _ = vlib.run_harness(PKG, ["random", "--sys", sysname, "--platform", plat_path, "--runs", str(runs if sysname == "sim" else runs // 2),
                                     "--len", str(length), "--out", rnd], timeout=cfgs["timeout"])
    out["random"] = json.loads(o.strip().splitlines()[-1])
    with open(records, "a") as f, open(rnd) as g:
        for line in g:
            f.write(line)
    os.remove(rnd)
    verdicts, n, wall = _judge(records, plat_path, cfgs["timeout"])
    out["records"] = records
    out["verdicts"] = verdicts
    out["judged"] = n
    out["judge_wall"] = wall
    return out


def _report(rep, sysname, out):
    counts = {"ok": 0, "unspec": 0, "reject": 0}
    by_from = {}
    samples = []
    for i, rec in enumerate(vlib.read_ndjson(out["records"]), start=1):
        v = out["verdicts"].get(i)
        src = rec.get("from", "?")
        c = by_from.setdefault(src, {"ok": 0, "unspec": 0, "reject": 0})
        if v is None:
            counts["ok"] += 1
            c["ok"] += 1
            if src == "random" and len(samples) < 2:
                samples.append({"sys": sysname, "random": [" ".join(s["c"]) + f" -> {s['st']} {s['out'][:40]!r}" for s in rec["steps"][:5]]})
            continue
        if v["v"] == "bad-input":
            raise vlib.ToolError(f"{sysname}: record {i} is not a well-formed case: {json.dumps(rec)[:400]}")
        counts[v["v"]] += 1
        c[v["v"]] += 1
        if v["v"] != "reject":
            continue
        direction = "spec->impl" if src == "fan" else "impl->spec"
        for k, field in zip(v["k"], v["f"]):
            cmd, at = _blame(rec["steps"], k)
            seen = rec["steps"][k - 1] if k > 0 else {}
            rep.violation(_key(direction, sysname, rec.get("layer", "sh"), cmd, at, field),
                          f"{sysname} system, {rec.get('layer')} layer ({src}): in the sequence "
                          f"{[' '.join(s['c']) for s in rec['steps'][:max(k, 1)]]} step {k} was observed as "
                          f"{json.dumps(seen)}, which Limits.tla does not allow ({field})",
                          dict(rec, reject_steps=v["k"], sys=sysname))
    return counts, by_from, samples


def run(tier):
    t0 = time.time()
    cfgs = TIERS[tier]
    wd = vlib.workdir(PID)
    rep = vlib.Reporter(PID)
    vlib.build_harness(PKG)

    side = {}

    def do_calib():
        try:
            side["c"] = vlib.tlc("Calib_Limits", "Calib_Limits.cfg", workers=1, timeout=cfgs["timeout"])
        except Exception as e:  # reported below
            side["e"] = e

    res = {}
    threads = [threading.Thread(target=do_calib)]
    threads += [threading.Thread(target=_pipeline, args=(s, wd, cfgs, res)) for s in SYSTEMS]
    for th in threads:
        th.start()
    for th in threads:
        th.join()
    if "e" in side:
        raise side["e"]
    vlib.tlc_must_pass(side["c"], "calibration examples Calib_Limits")
    for s in SYSTEMS:
        if isinstance(res.get(s), Exception):
            raise res[s]

    coverage = {"states": 0, "transitions": 0, "systems": {}}
    cases = nontrivial = judged = steps = 0
    samples = []
    kinds = {}
    for s in SYSTEMS:
        out = res[s]
        counts, by_from, smp = _report(rep, s, out)
        vlib.log(f"[judge] {s}: {out['judged']} sequences judged by Trace_Limits in {out['judge_wall']:.1f}s: {counts} "
                 f"(by origin: {by_from})")
        coverage["states"] += out["states"]
        coverage["transitions"] += out["transitions"]
        c = sum(x["cases"] for x in out["replay"].values())
        cases += c
        nontrivial += sum(x["nontrivial"] for x in out["replay"].values())
        judged += out["judged"]
        steps += out["random"]["steps"]
        for x in out["replay"].values():
            samples.extend(x.pop("samples", [])[:1])
            for k, n in x.get("outcome_kinds", {}).items():
                kinds[k] = kinds.get(k, 0) + n
        samples.extend(smp[:1])
        coverage["systems"][s] = {"platform": {k: out["plat"][k] for k in ("sup", "priv", "inf", "times", "had_cap_sys_resource")},
                                  "enumeration": out["gen"], "replay": out["replay"], "random": out["random"],
                                  "judge": {"sequences": out["judged"], "verdicts": counts, "by_origin": by_from}}
        os.remove(out["records"])
    rc = rep.finish()
    coverage.update({
        "traces_validated_against_impl": cases + sum(res[s]["random"]["runs"] for s in SYSTEMS),
        "samples": samples[:8],
        "evaluations": cases + steps,
        "distinct_nontrivial": nontrivial,
        "rule": "distinct (system, state, command) cases in which the specification requires a successful change of a "
                "limit or of the mask, each confirmed on the real code by the read-back through the built-in and "
                "through the system call",
        "exhaustive": True,
        "bounds": {"level": cfgs["level"], "random": cfgs["random"]},
        "outcome_kinds_exercised": kinds,
        "known_finding_hits": {fid: n for fid, (_, n) in rep.known_hits.items()},
        "not_covered": [
            "a privileged process raising hard limits (this sandbox has no CAP_SYS_RESOURCE; the harness gives it up "
            "where it exists): the priv = TRUE branch of the model is checked by TLC and the calibration only",
            "the effect of the limits (RLIMIT_NOFILE on descriptor allocation is C09's; RLIMIT_FSIZE, CPU, ...)",
            "on the real kernel: small values of -f -n -t -d -s -v -u (they act on the test process) and file size "
            "limits of 2^63 bytes or more (Linux takes them for negative offsets)",
            "times: only the format, and non-decreasing values within one shell process; exact values only on the "
            "simulated system (values chosen by the harness)",
            "abbreviated long options, option-like words after the first operand, the numeral of RLIM_INFINITY, "
            "operands with leading zeros or a plus sign, umask modes with the t permission or octal digits beyond "
            "0777, `umask -w`-like operands (unspecified: counted, not judged)",
            "write errors on standard output; the portable option for umask",
        ],
    })
    vlib.write_evidence(PID, tier, coverage, time.time() - t0, violations=len(rep.violations), assumptions=[
        "rlim_t has 64 bits and RLIM_INFINITY is its largest value (asserted by the harness)",
        "X in a symbolic mode: both readings of chmod's 'current (unmodified) file mode bits' are allowed (the mask "
        "before the operand, or as the previous actions left it)",
        "an error means: non-zero status, a diagnostic on standard error, nothing on standard output, no change",
        "umask without -S prints any octal numeral of the mask; ulimit -a prints one line per supported resource "
        "with the option first and the value last (the manual's example); the description in between is not judged",
        "on the real side the harness's own libc calls (getrlimit, umask) are the reference for the kernel state",
        "TLC 1.8.0 and the JSON community module are trusted",
    ])
    return rc


def replay(path):
    with open(path) as f:
        obj = json.load(f)
    rec = obj["replay"]
    sysname = rec.get("sys", "sim")
    wd = vlib.workdir(PID + "-replay")
    vlib.build_harness(PKG)
    plat_path, _ = _platform(wd, sysname)
    src = os.path.join(wd, "in.ndjson")
    with open(src, "w") as f:
        f.write(json.dumps(rec) + "\n")
    res = os.path.join(wd, "out.ndjson")
    vlib.run_harness(PKG, ["redo", "--platform", plat_path, "--in", src, "--out", res])
    verdicts, _, _ = _judge(res, plat_path, 300, workers=1)
    bad = 0
    for i, r in enumerate(vlib.read_ndjson(res), start=1):
        v = verdicts.get(i)
        print(f"{sysname}: " + "; ".join(" ".join(s["c"]) for s in r["steps"]))
        print("  -> " + ("ok" if v is None else json.dumps(v)))
        if v is not None and v["v"] == "reject":
            for k in v["k"]:
                if k > 0:
                    print("  " + json.dumps(r["steps"][k - 1]))
            bad += 1
    if bad:
        print(f"VIOLATION property={PID} replay={path}")
    return 1 if bad else 0
