"""C10 — the script aborts exactly when errexit or a shell error says so
(DESIGN.md section 6, "C02 ... C10").

Base part.  Same specification (spec/Semantics.tla) and same harness binary
(yv-c02) as C02; it enumerates the programs with one failing command of every
category of XCU 2.8.1 planted at every position, with errexit on/off, with and
without an EXIT trap, and with a syntax error on a later line.  See
lib/checks/c02.py for the machinery.

Nested-errors stage (runs next to the base part; one reporter, one evidence
file, one exit code).  Oracle: spec/NestedExec.tla (the module of G07: eval,
dot scripts, functions, subshells, EXIT trap) extended with the leaf `fail c`,
c one of the nine categories of XCU 2.8.1 "Consequences of Shell Errors" /
docs/src/termination.md "Shell errors":
    shall exit      sp (special built-in error), spr (redirection error on a
                    special built-in), asg / asgc (assignment error without /
                    with a command name), exp (expansion error)
    shall not exit  reg (error of another utility), cmdsp (special built-in
                    error through `command`), regr / cmpr (redirection error
                    on another utility / on a compound command): $? is set,
                    -e applies unless ignored
The consequence of an error is decided by the failing command alone, also when
another built-in (eval, dot) executes it.

Calib  spec/Calib_NestedExec.tla: error-p.sh, command-p.sh, termination.md.
Laws   spec/Gen_NestedExec.tla INVARIANT LawsC10 (and Laws of G07) on every
       program of a bounded enumeration x errexit x EXIT trap: the outcome
       depends only on the class of the error; a "shall exit" error equals a
       syntax error found by eval; in a subshell it is an ordinary failure of
       the subshell; wrapping the failing command in eval or in a dot script
       changes nothing; "shall not exit" errors never end a run without -e;
       after a "shall exit" error nothing runs but the EXIT trap, once.
S->I   INVARIANT EmitC10: every enumerated command P holding a failing
       command, as `P; probe`, with the prescribed probe trace, exit status and
       EXIT-trap run per (errexit, trap) option; harness/g07 renders `fail c`
       as one of 148 documented error invocations of 33 built-ins
       (harness/g07/src/failtab.rs, seeded draw), runs the real shell on the
       simulated OS and a sample through yash_cli::main() on the real OS.
Table  every invocation of the catalogue once directly, in eval, in a dot
       script, in a subshell, as an if condition and in a function called by
       eval, with and without -e (simulated OS; directly and in eval on the
       real OS); recorded and judged by spec/Trace_NestedExec.tla.
I->S   seeded random larger programs of the G07 generator with planted failing
       commands, recorded from the shell and judged by Trace_NestedExec.
"""
import json
import os
import threading
import time
from concurrent.futures import ThreadPoolExecutor

import vlib
from checks import c02 as base
from checks import g07

PID = "C10"
STAGE = "nested-errors"

# gen: (configuration, K, mode, replay every n-th program, variants)
NPLAN = {
    "quick": {
        "laws": ("MC_NestedExec_c10laws.cfg", 3),
        "gen": [("c10err", 4, "sim", 1, 2), ("c10nest", 6, "sim", 1, 2), ("c10err", 3, "real", 3, 1)],
        "table": {"sim": (6, 2), "real": (2, 1)},
        "random": (4000, 30, 25), "random_real": (200, 20, 25), "jobs": 6, "workers": 4,
    },
    "thorough": {
        "laws": ("MC_NestedExec_c10laws.cfg", 4),
        "gen": [("c10err", 5, "sim", 1, 2), ("c10nest", 7, "sim", 1, 2), ("c10nest2", 6, "sim", 1, 2),
                ("c10err", 4, "real", 8, 1), ("c10nest", 5, "real", 4, 1)],
        "table": {"sim": (6, 2), "real": (6, 2)},
        "random": (40000, 40, 25), "random_real": (2000, 30, 25), "jobs": 8, "workers": 6,
    },
}

_CTX = ("top", "eval", "dot", "fn", "sub")
_CATS = ("sp", "spr", "asg", "asgc", "exp", "reg", "cmdsp", "regr", "cmpr")
# the rules of NestedExec.tla this stage is about: each must be exercised by a replayed or judged run
STAGE_TAGS = ([f"fail:{c}@{x}" for c in _CATS for x in _CTX] + ["fail-soft-exempt"]
              + [f"errexit@{x}" for x in _CTX] + ["trap-after-error", "trap-after-errexit", "trap-after-eof"])


class _Counting:
    """Reporter wrapper: counts what this stage reported (known findings included)."""

    def __init__(self, rep):
        self._rep = rep
        self.reported = 0
        self.new = 0
        self._lock = threading.Lock()

    def violation(self, key, detail, replay_obj):
        new = self._rep.violation(key, detail, replay_obj)
        with self._lock:
            self.reported += 1
            self.new += 1 if new else 0
        return new

    def __getattr__(self, name):
        return getattr(self._rep, name)


def nested_stage(tier, rep):
    t0 = time.time()
    plan = NPLAN[tier]
    wd = vlib.workdir(PID + "-nested")
    rep = _Counting(rep)
    st = g07.Stats()
    vlib.build_harness(g07.PKG)
    g07.calibrate()
    jobs = plan["jobs"]
    laws = {}
    judged = {"ok": 0, "skip": 0}
    lock = g07._LOCK   # (the lock under which g07's functions update `st`)

    def check_laws():
        cfg, k = plan["laws"]
        r = vlib.tlc("Gen_NestedExec", g07._cfg_with_k(cfg, k, wd), workers=plan["workers"], timeout=2400)
        vlib.tlc_must_pass(r, f"laws of the specification ({cfg} K={k})")
        with lock:
            st.states += r.distinct
            st.transitions += r.generated
        laws.update({"cfg": cfg, "K": k, "program_prefixes": r.distinct, "tlc_s": round(r.wall, 1)})
        vlib.log(f"[nested] laws of NestedExec.tla with failing commands ({cfg} K={k}) hold on {r.distinct} program "
                 f"prefixes x 4 run options ({r.wall:.1f}s)")

    def recorded(n, size, mode, shards, label, extra):
        ok, sk = g07.random_and_validate(rep, wd, n, size, mode, st, jobs=jobs, shards=shards, stage=STAGE, label=label,
                                         extra=extra)
        with lock:
            judged["ok"] += ok
            judged["skip"] += sk

    def chain_sim():
        # spec -> impl on the simulated OS
        check_laws()
        for name, kk, mode, every, variants in plan["gen"]:
            if mode == "sim":
                g07.gen_and_replay(rep, wd, name, kk, mode, every, st, variants, workers=plan["workers"], jobs=jobs,
                                   stage=STAGE)

    def chain_rec():
        # the catalogue of failing commands, every entry in every context; the real OS; impl -> spec
        for mode, (ctxs, eopts) in plan["table"].items():
            recorded(0, 0, mode, 2, "catalogue", ["--table", 1, "--ctxs", ctxs, "--eopts", eopts])
        for name, kk, mode, every, variants in plan["gen"]:
            if mode == "real":
                g07.gen_and_replay(rep, wd, name, kk, mode, every, st, variants, workers=plan["workers"], jobs=jobs,
                                   stage=STAGE)
        n, size, pct = plan["random"]
        recorded(n, size, "sim", 4, "planted", ["--fail", pct])
        n, size, pct = plan["random_real"]
        recorded(n, size, "real", 2, "planted", ["--fail", pct])

    with ThreadPoolExecutor(max_workers=2) as ex:
        for f in [ex.submit(chain_sim), ex.submit(chain_rec)]:
            f.result()
    validated, skipped = judged["ok"], judged["skip"]
    never = sorted(t for t in STAGE_TAGS if not st.tags.get(t) and not st.rtags.get(t))
    if never and rep.new == 0:
        raise vlib.ToolError(f"nested-errors stage: rules of NestedExec.tla never exercised: {never}")
    wall = time.time() - t0
    vlib.log(f"[nested] nested-errors stage: {st.programs} programs replayed, {st.pairs_ok} (program, option) pairs, "
             f"{st.runs} runs, {validated} recorded runs judged by Trace_NestedExec, {rep.reported} disagreement(s) "
             f"reported, {wall:.1f}s")
    return {
        "name": "nested_errors_stage",
        "states": st.states, "transitions": st.transitions, "validated": st.pairs_ok + validated,
        "evaluations": st.runs, "distinct_nontrivial": st.pairs_ok,
        "samples": st.samples[:4],
        "coverage": {
            "oracle": "spec/NestedExec.tla (leaf `fail c`), spec/Gen_NestedExec.tla (EmitC10, LawsC10), "
                      "spec/Trace_NestedExec.tla, spec/Calib_NestedExec.tla",
            "laws": laws,
            "states": st.states, "transitions": st.transitions,
            "programs_enumerated_and_replayed": st.programs,
            "program_option_pairs": st.pairs_ok,
            "runs": st.runs,
            "recorded_runs_judged_by_Trace_NestedExec": validated,
            "recorded_runs_skipped_unspecified_or_diverging": skipped,
            "option_runs_skipped_unspecified": st.unspec, "option_runs_skipped_diverging": st.div,
            "option_runs_not_renderable_in_mode": st.unsupported,
            "disagreements_reported": rep.reported,
            "per_configuration": st.per_cfg,
            "token_kinds_replayed": st.kinds,
            "spec_rule_tags_required": len(STAGE_TAGS),
            "spec_rule_tags_replayed": {t: c for t, c in st.tags.items() if t in STAGE_TAGS},
            "spec_rule_tags_in_accepted_recorded_runs": {t: c for t, c in st.rtags.items() if t in STAGE_TAGS},
            "wall_s": round(wall, 1),
        },
        "assumptions": [
            "nested-errors stage: each entry of harness/g07/src/failtab.rs is an error of the category it is listed "
            "under (the clause of the manual / of POSIX is given per entry); the statuses of the failing commands "
            "are only required to be non-zero (symbols bound consistently per run)",
            "nested-errors stage: on the simulated OS a pathname that cannot be opened for writing is the working "
            "directory (the simulator creates missing directories on O_CREAT); /nx-yv/f on the real OS",
            "nested-errors stage: the assumptions of G07 about the probe built-ins, symbolic statuses and skipped "
            "unspecified programs apply",
        ],
    }


def run(tier):
    return base.run_property(PID, tier, stage=nested_stage)


def replay(path):
    with open(path) as f:
        obj = json.load(f)
    rec = obj.get("replay")
    if not (isinstance(rec, dict) and rec.get("stage") == STAGE):
        return base.replay_property(PID, path)
    wd = vlib.workdir(PID + "-replay")
    src = os.path.join(wd, "in.json")
    with open(src, "w") as f:
        json.dump(rec, f)
    rc, out, _ = vlib.run_harness(g07.PKG, ["redo", "--in", src, "--tick", 2])
    res = json.loads(out.strip().splitlines()[-1])
    obs = res["observed"]
    print("text:\n" + res["text"])
    for fl in res.get("files", []):
        print(f"file {fl['name']}:\n{fl['content']}")
    if rec.get("inv"):
        print("failing commands:", rec["inv"])
    print("observed:", json.dumps(obs))
    one = os.path.join(wd, "one.ndjson")
    with open(one, "w") as f:
        f.write(json.dumps({"p": rec["p"], "e": max(0, rec["e"]), "t": max(0, rec["t"]),
                            "oc": obs["oc"], "tr": obs["tr"], "st": obs["st"]}) + "\n")
    v = g07._judge(one, 1)[0]
    if "reject" in v:
        print("rejected by Trace_NestedExec; the specification prescribes:", json.dumps(v))
        print(f"VIOLATION property={PID} replay={path}")
        return 1
    print("accepted by Trace_NestedExec" + (f" (skipped: {v['skip']})" if "skip" in v else ""))
    return 0
