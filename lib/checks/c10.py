"""C10 — the script aborts exactly when errexit or a shell error says so
(DESIGN.md section 6, "C02 ... C10").  Same specification (spec/Semantics.tla)
and same harness binary (yv-c02) as C02; this check enumerates the programs
with one failing command of every category of XCU 2.8.1 planted at every
position, with errexit on/off, with and without an EXIT trap, and with a
syntax error on a later line.  See lib/checks/c02.py for the machinery.
"""
from checks import c02 as base

PID = "C10"


def run(tier):
    return base.run_property(PID, tier)


def replay(path):
    return base.replay_property(PID, path)
