"""C20 — built-ins accept every equivalent spelling of an invocation, and only
those (DESIGN.md section 6, C20).

Specification: spec/OptParse.tla (generative Spellings, functional Parse),
spec/OptParseMachine.tla (left-to-right machine in the shape of
common/syntax.rs), spec/OptTables.tla (bounded domain), spec/OptCatalogue.tla
(option tables of the built-ins transcribed from docs/src/builtins/*.md and
catalogue of invocations).

P1  TLC: machine == functional definition on every (table, mode, vector) of the
    bounded domain, every accepted vector is a spelling of what it parses to
    (OptParseMachine), every spelling parses back to its invocation
    (MC_OptSpell).
P4a enumeration (spec -> impl): Gen_OptParse enumerates (table, mode, vector)
    with the prescribed outcome; harness `enum` runs the real parse_arguments
    on every vector and compares.
P4b validation (impl -> spec): harness `random` records longer random vectors
    over a richer alphabet; Trace_OptParse validates every record.
P4c getopts: Gen_Getopts enumerates (option string, vector) with the loop of
    reports Getopts!GOLoop prescribes (and checks the ungrouping theorem);
    harness `getopts` drives getopts::model::next and a real `while getopts`
    loop in the simulated shell and compares.
P2  class replay: Gen_OptSpell prints, for every catalogue invocation of every
    built-in (and the shell's command line, and a getopts loop), all equivalent
    spellings and malformed vectors; harness `classes` runs each in a fresh
    simulated shell; observations must be equal within a class, malformed
    vectors must be rejected (diagnostic, non-zero status, state unchanged).
"""
import json
import os
import random
import time

import vlib

PID = "C20"
PKG = "yv-c20"

RADIX = (3, 3, 3, 6, 4, 3, 2, 4, 2)   # fa fb fo ls hl hs hk ex ord  (OptTables.tla)
NTABLES = 31104


def tid(fa=0, fb=0, fo=0, ls=0, hl=0, hs=0, hk=0, ex=0, order=0):
    n, mul = 0, 1
    for v, r in zip((fa, fb, fo, ls, hl, hs, hk, ex, order), RADIX):
        assert 0 <= v < r
        n += v * mul
        mul *= r
    return n


# hand-picked core of the family: (table id, modes)
CORE = [
    (tid(1, 1, 1, 1, 0), (7, 0)),                          # a b o: long
    (tid(1, 1, 1, 1, 3), (7,)),                            # long is the name of o:
    (tid(2, 1, 1, 2, 1, 2), (7, 0)),                       # a: ; long: ; lo = b
    (tid(1, 1, 2, 3, 2, 0, 1), (7, 5)),                    # long = a, lock: -> --lo, --l ambiguous
    (tid(1, 0, 1, 4, 1, 0, 0, 2), (7, 0, 3)),              # long (extension), lo, lock
    (tid(1, 2, 1, 5, 0, 1, 0, 1, 1), (7, 6)),              # only lo:, b:, first spec extension, reversed
    (0, (7,)),                                             # empty table
    (tid(1, 1, 1, 1, 3, 0, 0, 3, 1), (7, 2)),              # o: = long is an extension, reversed
]


def cases_for(tier, rng):
    cases = [8 * t + m for t, ms in CORE for m in ms]
    extra = 16 if tier == "quick" else 24
    for _ in range(extra):
        t = rng.randrange(NTABLES)
        m = 7 if rng.random() < 0.6 else rng.randrange(8)
        cases.append(8 * t + m)
    return sorted(set(cases))


def write_cfg(path, text):
    with open(path, "w") as f:
        f.write(text)
    return path


def set_lit(xs):
    return "{" + ", ".join(str(x) for x in xs) + "}"


def specs_str(specs):
    out = []
    for s in specs:
        name = (("-" + s["s"]) if s["s"] else "") + (("/--" + "".join(s["l"])) if s["l"] else "")
        out.append(name + (":" if s["a"] else "") + ("!" if s["x"] else ""))
    return " ".join(out)


# --------------------------------------------------------------------------
def model_check(tier, wd, ev):
    """P1: machine == Parse, accepted vectors are spellings, spellings parse back."""
    tabs = [c[0] for c in CORE[:6]] if tier == "quick" else [c[0] for c in CORE]
    maxlen = 3 if tier == "quick" else 4
    cfg = write_cfg(os.path.join(wd, "mc_machine.cfg"), f"""SPECIFICATION Spec
CONSTANTS
  TableIds = {set_lit(tabs)}
  ModeIds = {{0, 7}}
  MaxLen = {maxlen}
  CheckSpellings = TRUE
INVARIANT TablesOK
INVARIANT Agree
INVARIANT OnlySpellings
""")
    r = vlib.tlc("OptParseMachine", cfg, workers=8, timeout=1500, deadlock=True, coverage=True)
    vlib.tlc_must_pass(r, "machine == functional definition (OptParseMachine)")
    vlib.log(f"[tlc] OptParseMachine: {r.distinct} distinct states, {r.generated} generated, "
             f"{len(tabs)} tables x 2 modes x vectors <= {maxlen}, {r.wall:.1f}s")
    ev["states"] += r.distinct
    ev["transitions"] += r.generated
    ev["machine_action_coverage"] = r.coverage
    ev["machine_actions_not_exercised"] = sorted(a for a, c in r.coverage.items() if c == 0)
    deep_tabs, deep_len = ([CORE[2][0]], 4) if tier == "quick" else ([c[0] for c in CORE[2:4]], 5)
    cfg = write_cfg(os.path.join(wd, "mc_machine_deep.cfg"), f"""SPECIFICATION Spec
CONSTANTS
  TableIds = {set_lit(deep_tabs)}
  ModeIds = {{7}}
  MaxLen = {deep_len}
  CheckSpellings = FALSE
INVARIANT Agree
""")
    r = vlib.tlc("OptParseMachine", cfg, workers=8, timeout=2400, deadlock=True)
    vlib.tlc_must_pass(r, f"machine == functional definition, vectors <= {deep_len}")
    vlib.log(f"[tlc] OptParseMachine (<= {deep_len}, {len(deep_tabs)} tables): {r.distinct} distinct states, {r.wall:.1f}s")
    ev["states"] += r.distinct
    ev["transitions"] += r.generated
    spell_tabs = [c[0] for c in CORE[:4]] if tier == "quick" else [c[0] for c in CORE[:6]]
    max_opts = 2 if tier == "quick" else 3
    cfg = write_cfg(os.path.join(wd, "mc_spell.cfg"), f"""SPECIFICATION Spec
CONSTANTS
  TableIds = {set_lit(spell_tabs)}
  ModeIds = {{0, 7}}
  MaxOpts = {max_opts}
  MaxOps = 1
INVARIANT SpellingsParseBack
INVARIANT SomeSpelling
""")
    r = vlib.tlc("MC_OptSpell", cfg, workers=8, timeout=1500)
    vlib.tlc_must_pass(r, "spellings parse back (MC_OptSpell)")
    vlib.log(f"[tlc] MC_OptSpell: {r.distinct} invocations, all spellings parse back, {r.wall:.1f}s")
    ev["states"] += r.distinct
    ev["transitions"] += r.generated
    ev["invocations_checked_spellings"] = r.distinct


# --------------------------------------------------------------------------
def report_enum_mismatches(rep, path, ev, what):
    summary = None
    for o in vlib.read_ndjson(path):
        if o.get("summary"):
            summary = o
            continue
        key = {"phase": "enum", "specs": specs_str(o["specs"]), "mode": o["m"], "argv": " ".join(o["argv"])}
        rep.violation(key, f"{what}: parse_arguments differs from OptParse!Parse "
                           f"(expected code {o['expected']}, observed {json.dumps(o['obs'])[:600]})",
                      {"phase": "enum", "specs": o["specs"], "m": o["m"], "text": o["argv"]})
    if summary is None:
        raise vlib.ToolError("harness enum produced no summary")
    return summary


def enumeration(tier, wd, rep, ev, rng):
    """P4a: exhaustive (table, mode, vector) enumeration replayed on parse_arguments."""
    cases = cases_for(tier, rng)
    maxlen = 4 if tier == "quick" else 5
    batches = [cases] if tier == "quick" else [cases[i:i + 10] for i in range(0, len(cases), 10)]
    totals = {"vectors": 0, "accepted": 0, "rejected": 0, "mismatches": 0, "lines": 0, "accepted_with_options": 0}
    errors = {}
    for bi, batch in enumerate(batches):
        gen = os.path.join(wd, f"gen{bi}.ndjson")
        cfg = write_cfg(os.path.join(wd, f"gen{bi}.cfg"),
                        f"SPECIFICATION Spec\nCONSTANTS\n  Cases = {set_lit(batch)}\n  MaxLen = {maxlen}\nINVARIANT Emit\n")
        r = vlib.tlc("Gen_OptParse", cfg, workers=8, json_out=gen, timeout=2400)
        vlib.tlc_must_pass(r, f"Gen_OptParse batch {bi}")
        res = os.path.join(wd, f"enum{bi}.ndjson")
        vlib.run_harness(PKG, ["enum", "--in", gen, "--out", res])
        s = report_enum_mismatches(rep, res, ev, f"enumeration (<= {maxlen} arguments)")
        for k in totals:
            totals[k] += s.get(k, 0)
        for k, v in s["errors"].items():
            errors[k] = errors.get(k, 0) + v
        ev["gen_states"] += r.distinct
        if not ev["samples"]:
            ev["samples"] += s["samples"][:2]
        vlib.log(f"[p4a] batch {bi}: {len(batch)} (table, mode) cases, {s['vectors']} vectors <= {maxlen} replayed on "
                 f"parse_arguments, {s['mismatches']} mismatches (TLC {r.wall:.1f}s)")
        os.remove(gen)
        os.remove(res)
    if tier == "thorough":
        # every table of the family, both principal modes, vectors of length <= 2
        step = 2592
        for lo in range(0, NTABLES, step):
            batch = [8 * t + m for t in range(lo, min(NTABLES, lo + step)) for m in (0, 7)]
            gen = os.path.join(wd, "genall.ndjson")
            cfg = write_cfg(os.path.join(wd, "genall.cfg"),
                            f"SPECIFICATION Spec\nCONSTANTS\n  Cases = {set_lit(batch)}\n  MaxLen = 2\nINVARIANT Emit\n")
            r = vlib.tlc("Gen_OptParse", cfg, workers=8, json_out=gen, timeout=2400)
            vlib.tlc_must_pass(r, f"Gen_OptParse all tables from {lo}")
            res = os.path.join(wd, "enumall.ndjson")
            vlib.run_harness(PKG, ["enum", "--in", gen, "--out", res])
            s = report_enum_mismatches(rep, res, ev, "enumeration (all tables, <= 2 arguments)")
            for k in totals:
                totals[k] += s.get(k, 0)
            for k, v in s["errors"].items():
                errors[k] = errors.get(k, 0) + v
            ev["gen_states"] += r.distinct
            ev["all_tables_vectors"] = ev.get("all_tables_vectors", 0) + s["vectors"]
            os.remove(gen)
            os.remove(res)
        vlib.log(f"[p4a] all {NTABLES} tables x modes {{0,7}} x vectors <= 2: {ev['all_tables_vectors']} vectors")
    ev["enum"] = dict(totals, cases=len(cases), maxlen=maxlen, errors_by_class=errors)
    return totals


# --------------------------------------------------------------------------
def random_validation(tier, wd, rep, ev):
    """P4b: random longer vectors recorded from the real parser, validated by TLC."""
    n, maxlen = (12000, 8) if tier == "quick" else (200000, 10)
    trace = os.path.join(wd, "random.ndjson")
    _, _, err = vlib.run_harness(PKG, ["random", "--n", n, "--maxlen", maxlen, "--out", trace])
    try:
        info0 = json.loads(err.strip().splitlines()[-1])
    except Exception:
        info0 = {}
    ok, info = vlib.validate_trace_sharded("Trace_OptParse", trace, shards=8, timeout=1500)
    if not ok:
        for f in info.get("failures", []):
            rec = json.loads(f["record"]) if f.get("record") else None
            if rec is None:
                raise vlib.ToolError(f"trace rejected without a record: {f}")
            key = {"phase": "random", "specs": specs_str(rec["specs"]), "mode": rec["m"], "argv": " ".join(rec["text"])}
            rep.violation(key, "random vector: observed outcome is not the one OptParse!Parse prescribes: "
                          + json.dumps(rec["obs"])[:600],
                          {"phase": "random", "specs": rec["specs"], "m": rec["m"], "text": rec["text"]})
    want = {"accepted": 1, "rejected": 1}
    with open(trace) as f:
        for line in f:
            if not any(want.values()):
                break
            rec = json.loads(line)
            o = rec["obs"]
            kind = "accepted" if o["ok"] and len(o["opts"]) >= 3 else ("rejected" if not o["ok"] and len(rec["text"]) >= 3 else "")
            if kind and want[kind]:
                want[kind] -= 1
                ev["samples"].append({"specs": specs_str(rec["specs"]), "mode": rec["m"], "argv": rec["text"],
                                      "obs": {k: o[k] for k in ("ok", "err")},
                                      "options": [[x["i"], "".join(x["arg"])] for x in o["opts"]],
                                      "operands": ["".join(x) for x in o["operands"]]})
    vlib.log(f"[p4b] {info['events']} random records (<= {maxlen} arguments) validated by Trace_OptParse in {info['wall']:.1f}s")
    ev["random"] = {"records": info["events"], "maxlen": maxlen,
                    "unspecified_empty_long_name": info0.get("with_empty_long_name", 0)}
    os.remove(trace)
    return info["events"]


# --------------------------------------------------------------------------
def class_replay(tier, wd, rep, ev):
    """P2: every spelling of every catalogue invocation through the real built-ins."""
    gen = os.path.join(wd, "classes.ndjson")
    r = vlib.tlc("Gen_OptSpell", "Gen_OptSpell.cfg", workers=8, json_out=gen, timeout=1500)
    vlib.tlc_must_pass(r, "Gen_OptSpell (catalogue consistent, classes generated)")
    res = os.path.join(wd, "classes.res.ndjson")
    vlib.run_harness(PKG, ["classes", "--in", gen, "--out", res], timeout=1500)
    lines = {}
    for c in vlib.read_ndjson(gen):
        lines[(c["kind"], c["b"], c["e"])] = c
    stats = {"classes": 0, "vectors": 0, "malformed_vectors": 0, "builtins": set(), "largest_class": 0,
             "diverging_classes": 0, "accepted_malformed": 0}
    for x in vlib.read_ndjson(res):
        stats["builtins"].add(x["b"])
        src = lines.get(("pvalid" if x["kind"] == "pbad" else x["kind"], x["b"], x["e"]), {})
        base = {k: src.get(k, "") for k in ("cmd", "prelude", "pre", "post")}
        if x["kind"] in ("valid", "getopts", "sh", "pvalid"):
            stats["classes"] += 1
            stats["vectors"] += x["n"]
            stats["largest_class"] = max(stats["largest_class"], x["n"])
            if x["groups"] != 1:
                stats["diverging_classes"] += 1
                ref = x["detail"][0]
                for g in x["detail"][1:]:
                    vec = g["vectors"][0]
                    key = {"phase": "class", "kind": x["kind"], "builtin": x["b"], "entry": x["e"],
                           "vector": " ".join(vec)}
                    diff = {k: (ref["obs"].get(k), g["obs"].get(k)) for k in g["obs"]
                            if ref["obs"].get(k) != g["obs"].get(k) and k != "end"}
                    if ref["obs"].get("end") != g["obs"].get("end"):
                        diff["end"] = "state snapshots differ"
                    rep.violation(key, f"`{x['b']} {' '.join(vec)}` is a spelling of `{x['b']} {' '.join(x['plain'])}` "
                                       f"but behaves differently: {json.dumps(diff)[:700]}; stderr: {g['stderr'][:300]!r}",
                                  {"phase": "class", "line": dict(base, kind=x["kind"], b=x["b"], e=x["e"],
                                                                  plain=x["plain"], vecs=[x["plain"], vec])})
            if len(ev["samples"]) < 6 and x["n"] >= 6 and x["kind"] == "valid":
                ev["samples"].append({"builtin": x["b"], "invocation": x["plain"], "spellings": x["n"],
                                      "some": x["detail"][0]["vectors"], "status": x["detail"][0]["obs"].get("cmd_status")})
        else:
            stats["malformed_vectors"] += x["n"]
            for y in x["results"]:
                if not y["rejected"]:
                    stats["accepted_malformed"] += 1
                    key = {"phase": "malformed", "kind": x["kind"], "builtin": x["b"], "cls": y["cls"],
                           "vector": " ".join(y["v"])}
                    why = []
                    if not y["stderr"]:
                        why.append("no diagnostic")
                    if y["status"] == 0:
                        why.append("status 0")
                    if y["state_changed"]:
                        why.append("state changed")
                    if y["outcome"] != "completed":
                        why.append(str(y["outcome"]))
                    rep.violation(key, f"malformed `{x['b']} {' '.join(y['v'])}` ({y['cls']}) not rejected: {', '.join(why)}",
                                  {"phase": "malformed", "line": dict(base, kind="bad" if x["kind"] != "shbad" else "shbad",
                                                                     b=x["b"], e=0, bad=[{"cls": y["cls"], "v": y["v"]}])})
    stats["builtins"] = sorted(stats["builtins"])
    vlib.log(f"[p2] {stats['classes']} classes / {stats['vectors']} spellings and {stats['malformed_vectors']} malformed "
             f"vectors run through {len(stats['builtins'])} utilities; {stats['diverging_classes']} diverging classes, "
             f"{stats['accepted_malformed']} malformed vectors not rejected (TLC {r.wall:.1f}s)")
    ev["classes"] = stats
    ev["gen_states"] += r.distinct
    os.remove(gen)
    os.remove(res)
    return stats["vectors"] + stats["malformed_vectors"]


# --------------------------------------------------------------------------
def getopts_enumeration(tier, wd, rep, ev, only=None):
    """P4a for the getopts built-in: every vector over Gen_Getopts!GTokens x option strings
    on getopts::model::next (exhaustive) and through a real `while getopts` loop."""
    maxlen, shelllen = (4, 3) if tier == "quick" else (5, 3)
    gen = os.path.join(wd, "getopts.ndjson")
    cfg = write_cfg(os.path.join(wd, "getopts.cfg"),
                    f"SPECIFICATION Spec\nCONSTANTS\n  MaxLen = {maxlen}\n  ShellLen = {shelllen}\nINVARIANT Emit\n")
    r = vlib.tlc("Gen_Getopts", cfg, workers=8, json_out=gen, timeout=2400)
    vlib.tlc_must_pass(r, "Gen_Getopts (ungrouping theorem, enumeration)")
    res = os.path.join(wd, "getopts.res.ndjson")
    vlib.run_harness(PKG, ["getopts", "--in", gen, "--out", res], timeout=2400)
    summary, found = None, False
    for o in vlib.read_ndjson(res):
        if o.get("summary"):
            summary = o
            continue
        if only is not None:
            found = found or (o["os"] == only["os"] and o["argv"] == only["argv"] and o["level"] == only["level"])
            continue
        key = {"phase": "getopts", "level": o["level"], "optstring": o["os"], "argv": " ".join(o["argv"])}
        rep.violation(key, f"getopts {o['os']!r} over {o['argv']}: {o['level']} differs from Getopts!GOLoop: expected "
                           f"{json.dumps(o['expected'])[:500]}, observed {json.dumps(o['observed'])[:500]}",
                      {"phase": "getopts", "os": o["os"], "argv": o["argv"], "level": o["level"]})
    if summary is None:
        raise vlib.ToolError("harness getopts produced no summary")
    os.remove(gen)
    os.remove(res)
    if only is not None:
        return found
    vlib.log(f"[p4a-getopts] {summary['vectors']} vectors <= {maxlen} x {len(summary['optstrings'])} option strings on "
             f"getopts::model::next ({summary['reports']} reports, {summary['error_reports']} of them `?`/`:`), "
             f"{summary['shell_runs']} `while getopts` loops in the simulated shell; {summary['mismatches']} mismatches "
             f"(TLC {r.wall:.1f}s)")
    ev["gen_states"] += r.distinct
    ev["samples"] += summary["samples"][:1]
    ev["getopts"] = {k: summary[k] for k in ("vectors", "shell_runs", "mismatches", "reports", "error_reports", "optstrings")}
    ev["getopts"]["maxlen"] = maxlen
    return summary["vectors"] + summary["shell_runs"]


# --------------------------------------------------------------------------
def run(tier):
    t0 = time.time()
    wd = vlib.workdir(PID)
    rep = vlib.Reporter(PID)
    rng = random.Random(vlib.seed() * 7919 + 20)
    vlib.build_harness(PKG)
    ev = {"states": 0, "transitions": 0, "gen_states": 0, "samples": []}
    model_check(tier, wd, ev)
    totals = enumeration(tier, wd, rep, ev, rng)
    nrand = random_validation(tier, wd, rep, ev)
    nclass = class_replay(tier, wd, rep, ev)
    ngetopts = getopts_enumeration(tier, wd, rep, ev)
    rc = rep.finish()
    evaluations = totals["vectors"] + nrand + nclass + ngetopts
    vlib.write_evidence(PID, tier, {
        "states": ev["states"],
        "transitions": ev["transitions"],
        "traces_validated_against_impl": evaluations,
        "samples": ev["samples"],
        "evaluations": evaluations,
        "distinct_nontrivial": totals["vectors"] - (totals["accepted"] - totals["accepted_with_options"])
                               + ev["classes"]["vectors"] + ev["classes"]["malformed_vectors"]
                               + ev["getopts"]["vectors"] + ev["getopts"]["shell_runs"],
        "rule": "enumerated (table, mode, vector) triples that are rejected or contain at least one option, "
                "plus every spelling / malformed vector run through a real built-in, plus every getopts vector "
                "(model and shell loop)",
        "exhaustive": True,
        "enumeration": ev["enum"],
        "generator_states": ev["gen_states"],
        "random": ev["random"],
        "class_replay": ev["classes"],
        "getopts": ev["getopts"],
        "tlc_action_coverage": ev.get("machine_action_coverage", {}),
        "actions_not_exercised": ev.get("machine_actions_not_exercised", []),
        "invocations_checked_spellings": ev.get("invocations_checked_spellings", 0),
        "all_tables_vectors": ev.get("all_tables_vectors", 0),
    }, time.time() - t0, violations=len(rep.violations), assumptions=[
        "error class of a rejected vector: any class whose documented condition holds for the first malformed "
        "argument (left to right) is allowed",
        "option tables with two options of the same name and the empty long name `--=x` are outside the contract",
        "class replay: stdout, emptiness of stderr, $?, probe trace and state snapshot are compared; "
        "the text of diagnostics is not",
        "set: `-` separator and `set --` clearing the parameters (documented) are excluded from the classes; "
        "kill, set and the shell command line are excluded from the portable-mode pass",
        "getopts: arguments of the form --x... (not exactly --) are outside the Utility Syntax Guidelines and not generated; "
        "the exit status at the end of options is only observed through the loop ending",
        "TLC 1.8.0 and the JSON community module are trusted",
    ])
    return rc


def replay(path):
    with open(path) as f:
        obj = json.load(f)
    rp = obj["replay"]
    wd = vlib.workdir(PID + "-replay")
    if rp["phase"] == "getopts":
        still = getopts_enumeration("quick", wd, None, {"gen_states": 0, "samples": []}, only=rp)
        print("still differs" if still else "no longer differs (or vector outside the quick bounds)")
        ok = not still
    elif rp["phase"] in ("enum", "random"):
        src = os.path.join(wd, "in.ndjson")
        with open(src, "w") as f:
            f.write(json.dumps({"specs": rp["specs"], "m": rp["m"], "text": rp["text"]}) + "\n")
        t = os.path.join(wd, "one.ndjson")
        vlib.run_harness(PKG, ["redo", "--in", src, "--out", t])
        ok, info = vlib.validate_trace("Trace_OptParse", t)
        print("accepted" if ok else f"rejected: {str(info)[:3000]}")
    else:
        src = os.path.join(wd, "in.ndjson")
        with open(src, "w") as f:
            f.write(json.dumps(rp["line"]) + "\n")
        t = os.path.join(wd, "one.ndjson")
        vlib.run_harness(PKG, ["classes", "--in", src, "--out", t])
        x = next(vlib.read_ndjson(t))
        if "groups" in x:
            ok = x["groups"] == 1
        else:
            ok = all(y["rejected"] for y in x["results"])
        print(json.dumps(x)[:4000])
    if not ok:
        print(f"VIOLATION property={PID} replay={path}")
    return 0 if ok else 1
