"""C09 — redirections apply in order, last one command, leave no descriptor behind
(DESIGN.md section 6, C09).

P1  TLC checks the driver model spec/Redir.tla (one action per step of
    redir.rs `perform` / RedirGuard, written from the intended protocol) over
    every scenario of the bounded families: each complete behaviour, turned
    into an observation record, must be allowed by the oracle
    spec/RedirAbs.tla (invariant Conforms); a negative configuration with a
    named wrong action must be caught.  Besides the non-interactive shell the
    scenarios include the interactive shell (which survives the errors of
    special built-ins: the table must be restored) and `exec` WITH operands
    whose utility cannot be executed (not found / no such path / not executable
    / a directory / refused by the system): the redirections persist exactly as
    without operands, observable where the shell survives (interactive); a
    non-interactive shell ends, observed through its status, the files and the
    table it ended with.
P2  every scenario enumerated by TLC (initial table, noclobber, limit, command
    kind, redirection list) is run by the real shell on the simulated OS
    (harness/c09 `replay`); the observation records are judged by TLC with the
    oracle (spec/Trace_Redir.tla).  Differences from the driver's own
    prediction that the oracle allows are drift (counted, not reported).
    Fault injection: besides every RLIMIT_NOFILE value, the n-th call of open /
    open_tmpfile / F_DUPFD / write / lseek made for the command fails
    (harness/c09/src/faulty.rs wraps the simulated OS); the driver models each
    call as a step that may fail after the previous ones succeeded.
P3  seeded random longer scripts (nesting, pipelines, command substitution,
    here-documents, exec, changing options/limits) are recorded per command
    and judged by the same oracle.
"""
import json
import os
import re
import time
from concurrent.futures import ThreadPoolExecutor

import vlib

PID = "C09"
PKG = "yv-c09"

FAMILY = {"quick": "quick", "thorough": "thorough"}       # union families of spec/Redir.tla (q1..q4 / t1..t4)
NEGATIVE = {"quick": ["leak", "movenoclose", "hereleak", "dropop"],
            "thorough": ["leak", "movenoclose", "hereleak", "dropop", "fwd", "savelow", "savenocx", "noclobberall",
                         "closesrc", "keepall", "clobber"]}
RANDOM_RUNS = {"quick": 1200, "thorough": 8000}
FILE_OPS = ("in", "out", "clob", "app", "rw")


def _judge(path, shards=8, timeout=1500):
    """Run Trace_Redir over an ndjson file of records, sharded; returns
    (number judged, list of verdict dicts {id, clauses, fail})."""
    with open(path) as f:
        lines = f.readlines()
    n = len(lines)
    if n == 0:
        return 0, [], 0.0
    shards = max(1, min(shards, (n + 199) // 200))
    size = (n + shards - 1) // shards
    parts = []
    for k in range(shards):
        chunk = lines[k * size:(k + 1) * size]
        if not chunk:
            continue
        p = f"{path}.shard{k}"
        with open(p, "w") as f:
            f.writelines(chunk)
        parts.append(p)
    t0 = time.time()

    def one(p):
        return vlib.tlc("Trace_Redir", "Trace_Redir.cfg", workers=1, timeout=timeout, env={"TRACE": p},
                        depth_first=True, xmx="3g")

    with ThreadPoolExecutor(max_workers=len(parts)) as ex:
        results = list(ex.map(one, parts))
    verdicts = []
    for p, r in zip(parts, results):
        os.remove(p)
        if not r.ok:
            msg = (r.violation or r.error or "unknown")[:3000]
            vlib.log(f"[judge] {os.path.basename(p)} FAILED\n{msg}")
            raise vlib.ToolError("trace validation (Trace_Redir) did not complete")
        verdicts.extend(r.json)
    return n, verdicts, time.time() - t0


def _operand_class(rec, k):
    """Describes the operand of the k-th redirection (1-based) for finding keys."""
    if k <= 0 or k > len(rec["list"]):
        return "", "", -1
    r = rec["list"][k - 1]
    op = r["op"]
    if op in FILE_OPS:
        kind = next((f["kind"] for f in rec["files0"] if f["path"] == r["path"]), "none")
        if kind == "none" and any(q["path"] == r["path"] and q["op"] in ("out", "clob", "app", "rw")
                                  for q in rec["list"][:k - 1]):
            kind = "reg"
        return op, kind, r["t"]
    if op in ("dupin", "dupout"):
        e = next((e for e in rec["before"] if e["fd"] == r["n"]), None)
        if e is None:
            cls = "closed"
        elif e["cx"]:
            cls = "internal"
        else:
            cls = ("r" if e["r"] else "") + ("w" if e["w"] else "")
        return op, cls, r["t"]
    return op, "", r["t"]


def _leaked(rec):
    """Shell-internal descriptors present after the command but not before."""
    b = {(e["fd"], e["id"]) for e in rec["before"]}
    return {(e["fd"], e["id"]) for e in rec["after"] if (e["fd"], e["id"]) not in b and e["fd"] >= 10 and e["cx"]}


def _key(rec, verdict, nested_leak=""):
    op, operand, target = _operand_class(rec, verdict["fail"])
    target_open = any(e["fd"] == target for e in rec["before"]) if target >= 0 else False
    clauses = set(verdict["clauses"])
    if nested_leak:
        clauses.discard("after_leak")
    b = {(e["fd"], e["id"], e["cx"]) for e in rec["before"]}
    a = {(e["fd"], e["id"], e["cx"]) for e in rec["after"]}
    extra = sorted({e["path"] for e in rec["after"] if (e["fd"], e["id"], e["cx"]) not in b})
    missing = sorted({e["path"] for e in rec["before"] if (e["fd"], e["id"], e["cx"]) not in a})
    return {
        "clauses": "+".join(sorted(clauses)),
        "kind": rec["kind"],
        "interactive": bool(rec.get("inter", False)),
        "fail_op": op,
        "fail_operand": operand,
        "target_open": target_open,
        "limited": rec["lim"] != 9999,
        "nested_leak": nested_leak,
        "extra": ",".join(extra),
        "missing": ",".join(missing),
        "outcome": rec.get("oc", ""),
    }


def _report(rep, recs_path, verdicts, what, scripts=None):
    """Turns the oracle's rejections into violations.  A saved copy leaked by a
    command nested inside an observed compound command / function is still
    open when the outer command ends: such an outer `after_leak` is attributed
    to the inner command (key field nested_leak) instead of being reported as
    a leak of the outer command itself."""
    if not verdicts:
        return
    want = {v["id"]: v for v in verdicts}
    recs = [rec for rec in vlib.read_ndjson(recs_path) if rec["id"] in want]
    by_run = {}
    for rec in recs:
        if "run" in rec:
            by_run.setdefault(rec["run"], {})[rec["cmd"]] = rec
    for rec in recs:
        v = want[rec["id"]]
        nested = ""
        if "after_leak" in v["clauses"] and rec.get("inner"):
            mine = _leaked(rec)
            inner = set()
            for letter in rec["inner"]:
                r2 = by_run.get(rec["run"], {}).get(letter)
                if r2 is not None and "after_leak" in want[r2["id"]]["clauses"]:
                    inner |= _leaked(r2)
            if mine <= inner:
                nested = "inner"
            elif rec["exited"]:
                nested = "inner-exit"      # the shell exited inside: the inner records are not available
        key = _key(rec, v, nested)
        detail = f"{what}: observation not allowed by RedirAbs (clauses {'+'.join(sorted(v['clauses']))})"
        replay = {"record": rec, "verdict": v}
        if scripts is not None and "run" in rec:
            replay["script"] = scripts.get(rec["run"])
        rep.violation(key, detail, replay)


def _samples(path, idx=(1500, 12000, 30000, 68000)):
    out = []
    with open(path) as f:
        for i, line in enumerate(f):
            if i in idx:
                r = json.loads(line)
                out.append({k: r[k] for k in ("kind", "inter", "nc", "lim", "list", "ran", "st", "exited", "after")})
    return out


def run(tier):
    t0 = time.time()
    wd = vlib.workdir(PID)
    rep = vlib.Reporter(PID)
    vlib.build_harness(PKG)

    # P1 negative configurations: the named wrong action must be caught
    neg_caught = {}
    with ThreadPoolExecutor(max_workers=4) as ex:
        neg_results = list(ex.map(lambda bug: vlib.tlc("Redir", f"Redir_neg_{bug}.cfg", workers=3, timeout=900,
                                                       deadlock=True), NEGATIVE[tier]))
    for bug, r in zip(NEGATIVE[tier], neg_results):
        caught = bool(r.violation) and "Conforms" in r.violation
        neg_caught[bug] = caught
        if not caught:
            vlib.log((r.error or r.violation or "")[:2000])
            raise vlib.ToolError(f"negative configuration {bug}: TLC did not report the Conforms violation")
    vlib.log(f"[tlc] negative configurations caught: {sorted(neg_caught)}")

    # P1 action coverage on a small family touching every action
    r = vlib.tlc("Redir", "Redir_cov.cfg", workers=4, timeout=900, deadlock=True, coverage=True,
                 json_out=os.path.join(wd, "cov.ndjson"))
    vlib.tlc_must_pass(r, "model check Redir_cov.cfg (coverage)")
    coverage_actions = dict(r.coverage)
    states, transitions = r.distinct, r.generated
    os.remove(os.path.join(wd, "cov.ndjson"))
    unexercised = [a for a, c in coverage_actions.items() if c == 0 and a != "LeakSave"]
    if unexercised:
        raise vlib.ToolError(f"actions of Redir.tla not exercised: {unexercised}")

    # P1 with the choices POSIX leaves open resolved the other way (EMFILE before
    # open's side effects, the subshell keeps the limit): the oracle must allow both
    if tier == "thorough":
        r = vlib.tlc("Redir", "Redir_posix.cfg", workers=8, timeout=1800, deadlock=True)
        vlib.tlc_must_pass(r, "model check Redir_posix.cfg")
        vlib.log(f"[tlc] posix choices: {r.distinct} distinct states, {r.wall:.1f}s")
        states += r.distinct
        transitions += r.generated

    # P1 + P2: model check every scenario of the tier's families, emit them
    fam = FAMILY[tier]
    gen = os.path.join(wd, f"{fam}.scen.ndjson")
    r = vlib.tlc("Redir", f"Redir_{fam}.cfg", workers=8, timeout=3000 if tier == "quick" else 14000, json_out=gen, deadlock=True,
                 xmx="8g")
    vlib.tlc_must_pass(r, f"model check Redir_{fam}.cfg")
    scenarios = vlib.count_lines(gen)
    vlib.log(f"[tlc] {fam}: {r.distinct} distinct states, {r.generated} generated, depth {r.depth}, "
             f"{scenarios} scenarios, {r.wall:.1f}s")
    states += r.distinct
    transitions += r.generated

    recs = os.path.join(wd, f"{fam}.rec.ndjson")
    t1 = time.time()
    vlib.run_harness(PKG, ["replay", "--in", gen, "--out", recs, "--threads", "12"])
    if vlib.count_lines(recs) != scenarios:
        raise vlib.ToolError(f"harness produced {vlib.count_lines(recs)} records for {scenarios} scenarios")
    vlib.log(f"[p2] {scenarios} scenarios run on the real shell in {time.time() - t1:.1f}s")
    os.remove(gen)

    # P3 random scripts (ids continue after the scenarios')
    rrecs = os.path.join(wd, "random.rec.ndjson")
    scr = os.path.join(wd, "random.scripts.ndjson")
    vlib.run_harness(PKG, ["random", "--runs", str(RANDOM_RUNS[tier]), "--out", rrecs, "--scripts", scr,
                           "--id-base", str(scenarios)])
    random_records = vlib.count_lines(rrecs)
    allrecs = os.path.join(wd, "all.rec.ndjson")
    with open(allrecs, "w") as out:
        for p in (recs, rrecs):
            with open(p) as f:
                for line in f:
                    out.write(line)
    cnt, verdicts, wall = _judge(allrecs, shards=8 if tier == "quick" else 12)
    v2 = [v for v in verdicts if v["id"] <= scenarios]
    v3 = [v for v in verdicts if v["id"] > scenarios]
    vlib.log(f"[judge] {cnt} records judged by Trace_Redir in {wall:.1f}s: {len(v2)} of {scenarios} scenario "
             f"records and {len(v3)} of {random_records} random-script command records rejected")
    bad = {v["id"] for v in verdicts}
    drift = {}
    faults = {"scenarios_with_fault": 0, "fault_fired": 0}
    shells = {"interactive": 0, "exec_with_operands_interactive": 0, "exec_with_operands_noninteractive": 0}
    for rec in vlib.read_ndjson(recs):
        if rec.get("inter"):
            shells["interactive"] += 1
        if rec["kind"].startswith("exec") and rec["kind"] != "exec":
            shells["exec_with_operands_interactive" if rec.get("inter") else "exec_with_operands_noninteractive"] += 1
        if rec["drift"] and rec["id"] not in bad:
            drift[rec["drift"]] = drift.get(rec["drift"], 0) + 1
        if rec.get("flt"):
            faults["scenarios_with_fault"] += 1
            faults["fault_fired"] += 1 if rec.get("fired") else 0
    _report(rep, recs, v2, "enumerated scenario")
    scripts = {s["run"]: s["script"] for s in vlib.read_ndjson(scr)} if v3 else None
    _report(rep, rrecs, v3, "random script", scripts)
    kinds = {}
    faults.update({"random_records_with_fault": 0, "random_fault_fired": 0})
    shells["random_records_interactive"] = 0
    for rec in vlib.read_ndjson(rrecs):
        kinds[rec["kind"]] = kinds.get(rec["kind"], 0) + 1
        shells["random_records_interactive"] += 1 if rec.get("inter") else 0
        if rec.get("flt"):
            faults["random_records_with_fault"] += 1
            faults["random_fault_fired"] += 1 if rec.get("fired") else 0
    vlib.log(f"[faults] {faults}")
    vlib.log(f"[shells] {shells}")
    samples = _samples(recs)
    for p in (recs, rrecs, scr, allrecs):
        os.remove(p)

    rc = rep.finish()
    if drift:
        vlib.log(f"NOTE: drift from the driver model allowed by the oracle: {drift}")
    vlib.write_evidence(PID, tier, {
        "states": states,
        "transitions": transitions,
        "traces_validated_against_impl": cnt,
        "samples": samples,
        "evaluations": cnt,
        "distinct_nontrivial": scenarios,
        "rule": "one record per enumerated scenario (initial table, noclobber, limit, command kind, "
                "redirection list) executed by the real shell; random-script command records counted separately",
        "exhaustive": True,
        "family": fam,
        "negative_configs_caught": neg_caught,
        "tlc_action_coverage": coverage_actions,
        "actions_not_exercised": unexercised,
        "random_scripts": RANDOM_RUNS[tier],
        "random_command_records": random_records,
        "random_records_by_kind": kinds,
        "records_rejected_by_oracle": len(verdicts),
        "known_finding_hits": {k: v[1] for k, v in rep.known_hits.items()},
        "drift": drift,
        "fault_injection": faults,
        "shells": shells,
    }, time.time() - t0, violations=len(rep.violations), assumptions=[
        "the shell runs on yash-env's VirtualSystem (simulated OS); descriptor numbers >= 10 are never opened "
        "by the scripts themselves, so every descriptor >= 10 is the shell's own",
        "diagnostic text is unspecified: files that descriptor 2 refers to when a diagnostic is printed are "
        "not compared",
        "under a lowered RLIMIT_NOFILE a redirection may fail for lack of descriptors (allowed, not required)",
        "fault injection (harness/c09 Faulty system): one call of open / open_tmpfile / F_DUPFD / write / lseek / "
        "pipe made for the command fails; dup2 and close are not made to fail (dup2 is also what restores the "
        "table, and the shell ignores close errors)",
        "the interactive shell is `-i +m` (no job control, no terminal) reading a command string or a script "
        "file through yash-semantics' interactive read-eval loop; the table a non-interactive shell ends with "
        "after a failed `exec utility` is recorded but not prescribed (nobody can observe it)",
        "TLC 1.8.0 and the JSON community module are trusted",
    ])
    return rc


def replay(path):
    with open(path) as f:
        obj = json.load(f)
    rec = obj["replay"]["record"]
    wd = vlib.workdir(PID + "-replay")
    src = os.path.join(wd, "in.ndjson")
    out = os.path.join(wd, "rec.ndjson")
    if rec.get("init") == "random":
        # a random-script record: judge the stored observation again
        with open(out, "w") as f:
            f.write(json.dumps(rec) + "\n")
        if obj["replay"].get("script"):
            print(obj["replay"]["script"])
    else:
        sc = {k: rec[k] for k in ("kind", "nc", "lim", "bst", "list", "init")}
        sc["inter"] = rec.get("inter", False)
        with open(src, "w") as f:
            f.write(json.dumps({"sc": sc}) + "\n")
        _, script, _ = vlib.run_harness(PKG, ["script", "--in", src])
        print(script)
        vlib.run_harness(PKG, ["replay", "--in", src, "--out", out, "--threads", "1"])
    _, verdicts, _ = _judge(out, shards=1)
    for v in verdicts:
        print(f"rejected: clauses={v['clauses']} failing redirection={v['fail']}")
    if verdicts:
        print(f"VIOLATION property={PID} replay={path}")
        return 1
    print("accepted")
    return 0
