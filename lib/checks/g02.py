"""G02 - job-control built-ins (jobs, wait, bg, fg, kill, asynchronous lists)
over the job table and the simulated process table (specification growth).

P1  TLC checks on the bounded model spec/JobCtl.tla: the JobListAbs consistency
    invariants after every command, the shape of the `jobs` listing (exactly the
    jobs of the table, in number order, `+`/`-` on the current/previous job), a
    finished job is reported once and then gone, `wait %n`/`wait pid` returns the
    true status, job numbers of surviving jobs never change.
P2  for every distinct state of that model TLC emits a witness script and the
    commands usable in it; harness/g02 runs every script+command on the REAL
    shell (yvcommon::shell, simulated OS) under explored schedules (bounded
    depth-first over the scheduling choice points + seeded random schedules) and
    records, after every command, `$?`, `$!`, the job table as the public API
    shows it, the parsed output of jobs/bg/fg, and the final process table;
P3  Trace_JobCtl validates every distinct record against JobCtl.StepCmd
    (membership where the schedule or the documents leave a choice).
Reverse direction: TLC simulation produces longer random scripts, which are run
and validated the same way.
"""
import json
import os
import subprocess
import time
from concurrent.futures import ThreadPoolExecutor

import vlib

PID = "G02"
PKG = "yv-g02"

TIERS = {
    # cfg files explored exhaustively, simulation (cfg, traces, depth), harness exploration parameters
    "quick": {"mc": ["MC_JobCtl_quick.cfg", "MC_JobCtl_quick3.cfg"], "sim": ("MC_JobCtl_sim.cfg", 100, 12),
              "dfs_depth": 6, "max_dfs": 8, "random": 2, "shards": 8},
    "thorough": {"mc": ["MC_JobCtl_thorough.cfg", "MC_JobCtl_thorough3.cfg"], "sim": ("MC_JobCtl_simlong.cfg", 600, 16),
                 "dfs_depth": 8, "max_dfs": 24, "random": 4, "shards": 8},
}


def _cmd_text(c):
    return " ".join(x for x in [c["k"], str(c["j"] or ""), c["sig"], c["opt"]] + list(c["ops"]) if x)


def _explore(gen, trace, t):
    """Runs the harness over the generated scripts; returns its summary."""
    exe = vlib.harness_bin(PKG)
    p = subprocess.run([exe, "explore", "--in", gen, "--out", trace, "--threads", "8",
                        "--dfs-depth", str(t["dfs_depth"]), "--max-dfs", str(t["max_dfs"]),
                        "--random", str(t["random"])],
                       capture_output=True, text=True, timeout=3000, env=dict(os.environ, VERIF_SEED=str(vlib.seed())))
    if p.returncode != 0:
        raise vlib.ToolError(f"{PKG} explore failed ({p.returncode}): {p.stderr[-1500:]}")
    try:
        return json.loads(p.stderr.strip().splitlines()[-1])
    except Exception:
        raise vlib.ToolError(f"{PKG} explore: no summary: {p.stderr[-500:]}")


def _validate(trace, shards, timeout=2400):
    """Validates an ndjson file of records with Trace_JobCtl in parallel JVMs.
    Returns (number of records, list of (record, verdict))."""
    n = vlib.count_lines(trace)
    if n == 0:
        return 0, []
    # at most 20000 records per JVM (the whole piece is deserialized at once)
    k = max(1, min(shards, (n + 1999) // 2000), (n + 19999) // 20000)
    size = (n + k - 1) // k
    pieces = []
    with open(trace) as f:
        for i in range(k):
            a, b = i * size, min(n, (i + 1) * size)
            if a >= b:
                break
            p = f"{trace}.shard{i}"
            with open(p, "w") as g:
                for _ in range(b - a):
                    g.write(f.readline())
            pieces.append((a, b, p))

    def one(piece):
        a, b, p = piece
        r = vlib.tlc("Trace_JobCtl", "Trace_JobCtl.cfg", workers=1, timeout=timeout, env={"TRACE": os.path.abspath(p)},
                     depth_first=True, xmx="3g")
        if not r.ok or r.distinct != (b - a) + 1:
            raise vlib.ToolError(f"Trace_JobCtl failed on {p}: ok={r.ok} states={r.distinct} expected={b - a + 1} "
                                 f"{(r.error or r.violation or '')[:1500]}")
        want = {j["line"]: j for j in r.json}
        out = []
        if want:
            with open(p) as f:
                for ln, line in enumerate(f, 1):
                    if ln in want:
                        out.append((json.loads(line), want[ln]))
        return out

    with ThreadPoolExecutor(max_workers=min(shards, len(pieces))) as ex:
        res = list(ex.map(one, pieces))
    bad = [x for part in res for x in part]
    for _, _, p in pieces:
        try:
            os.remove(p)
        except OSError:
            pass
    return n, bad


def _report(rep, bad, what, counters, stage=None):
    for rec, v in bad:
        if v["v"] == "skip":
            counters["skipped"] += 1
            continue
        script = [_cmd_text(c) for c in rec["script"]]
        at = v["at"]
        key = {"why": v["why"], "m": rec["m"], "script": "; ".join(script),
               "cmd": script[min(at, len(script)) - 1] if script else "", "outcome": rec["outcome"],
               "msg": rec.get("msg", "")[:200]}
        if stage:
            key["stage"] = stage
        detail = (f"{what}: run not allowed by spec/JobCtl.tla at command {at} ({v['why']}); "
                  f"monitor={rec['m']} script: {'; '.join(script)}")
        robj = {"m": rec["m"], "script": rec["script"], "sched": rec.get("sched", {}), "record": rec, "verdict": v}
        if stage:
            robj["stage"] = stage
        rep.violation(key, detail, robj)


def run(tier):
    t0 = time.time()
    t = TIERS[tier]
    wd = vlib.workdir(PID)
    rep = vlib.Reporter(PID)
    vlib.build_harness(PKG)
    states = transitions = 0
    coverage_actions = {}
    counters = {"skipped": 0}
    totals = {"scripts": 0, "runs": 0, "records": 0, "max_choice_points": 0, "dfs_capped": 0}
    kinds = {}
    samples = []
    hangs = 0
    sched_dependent = 0
    # P1 + P2 + P3 per configuration
    for cfg in t["mc"]:
        gen = os.path.join(wd, cfg + ".gen.ndjson")
        r = vlib.tlc("JobCtl", cfg, workers=8, json_out=gen, timeout=2400)
        vlib.tlc_must_pass(r, f"model check {cfg}")
        vlib.log(f"[tlc] {cfg}: {r.distinct} distinct states, {r.generated} generated, depth {r.depth}, {r.wall:.1f}s")
        states += r.distinct
        transitions += r.generated
        trace = os.path.join(wd, cfg + ".trace.ndjson")
        s = _explore(gen, trace, t)
        for k in ("scripts", "runs", "records", "dfs_capped"):
            totals[k] += s[k]
        totals["max_choice_points"] = max(totals["max_choice_points"], s["max_choice_points"])
        tv = time.time()
        n, bad = _validate(trace, t["shards"])
        vlib.log(f"[p2] {cfg}: {s['scripts']} scripts, {s['runs']} runs under explored schedules, "
                 f"{n} distinct records validated in {time.time() - tv:.1f}s, {len(bad)} not accepted")
        _report(rep, bad, f"replay of {cfg}", counters)
        with open(trace) as f:
            for i, line in enumerate(f):
                rec = json.loads(line)
                if rec["script"]:
                    k = rec["script"][-1]["k"]
                    if len(rec["steps"]) == len(rec["script"]):
                        k += " (error)" if rec["steps"][-1]["err"] else " (ok)"
                    else:
                        k += " (hang)"
                    kinds[k] = kinds.get(k, 0) + 1
                if rec["outcome"] == "deadlock":
                    hangs += 1
                if i in (7, 4321) and len(samples) < 4:
                    samples.append({"m": rec["m"], "script": [_cmd_text(c) for c in rec["script"]],
                                    "last_step": rec["steps"][-1] if rec["steps"] else None, "final": rec["final"]})
        sched_dependent += max(0, s["records"] - s["scripts"])
        os.remove(gen)
        os.remove(trace)
    # reverse direction: longer random scripts (TLC simulation of the same model)
    cfg, ntraces, depth = t["sim"]
    gen = os.path.join(wd, "sim.gen.ndjson")
    r = vlib.tlc("JobCtl", cfg, workers=4, json_out=gen, simulate=ntraces, depth=depth + 1, timeout=1500,
                 tool_seed=vlib.seed())
    vlib.tlc_must_pass(r, f"simulation {cfg}")
    # de-duplicate the emitted scripts
    seen = set()
    with open(gen) as f, open(gen + ".u", "w") as g:
        for line in f:
            if line not in seen:
                seen.add(line)
                g.write(line)
    trace = os.path.join(wd, "sim.trace.ndjson")
    s = _explore(gen + ".u", trace, t)
    n, bad = _validate(trace, t["shards"])
    vlib.log(f"[p3] random scripts of length {depth}: {s['scripts']} scripts, {s['runs']} runs, {n} records validated, "
             f"{len(bad)} not accepted")
    _report(rep, bad, "random long script", counters)
    random_records = n
    random_scripts = s["scripts"]
    totals["runs"] += s["runs"]
    os.remove(gen)
    os.remove(gen + ".u")
    os.remove(trace)
    rc = rep.finish()
    vlib.write_evidence(PID, tier, {
        "states": states,
        "transitions": transitions,
        "traces_validated_against_impl": totals["records"] + random_records,
        "samples": samples,
        "evaluations": totals["runs"],
        "distinct_nontrivial": totals["scripts"],
        "rule": "one script per (distinct model state, command usable in it) pair of the bounded model, each run on the "
                "real shell under explored schedules; one record per distinct observation",
        "exhaustive": True,
        "configs": t["mc"],
        "records_by_last_command_and_result": kinds,
        "tlc_actions": "Init, Next (one disjunct per command of Cmds); every command kind is exercised with every result "
                       "class listed in records_by_last_command_and_result",
        "schedule_dependent_extra_records": sched_dependent,
        "max_scheduling_choice_points": totals["max_choice_points"],
        "scripts_with_truncated_dfs": totals["dfs_capped"],
        "runs_ending_in_a_predicted_hang": hangs,
        "records_not_judged_unspecified_command": counters["skipped"],
        "random_long_scripts": random_scripts,
        "random_long_records": random_records,
    }, time.time() - t0, violations=len(rep.violations), assumptions=[
        "the simulated kernel delivers a signal synchronously to a process that is blocked in its body; signals to "
        "runnable (never run / released) or terminated simulated processes and non-KILL/CONT signals to stopped ones are "
        "not judged (limits of yash_env::system::virtual, see JobCtl.SigUnspec)",
        "`settle` (virtual sleep) lets every other simulated process run until it blocks; blocking FIFO opens are avoided "
        "(the shell keeps the FIFOs open read-write) because they do not complete under Concurrent::run_virtual",
        "the monitor option is fixed per script (set -m as the first command or not at all); no terminal (fg/bg work "
        "without one)",
        "TLC 1.8.0 and the JSON community module are trusted",
    ])
    return rc


STAGES = {
    # reduced slices run inside other checks: cfg, harness exploration parameters per tier
    "c12": {"cfg": "MC_JobCtl_c12.cfg",
            "quick": {"dfs_depth": 6, "max_dfs": 6, "random": 1, "shards": 8},
            "thorough": {"dfs_depth": 8, "max_dfs": 24, "random": 4, "shards": 8}},
}


def run_stage(tier, rep, budget="c12"):
    """A reduced slice of G02 run as a stage of another check (C12: `%%`, `%+`, `%-`, `%n`
    and `$!` designate the documented jobs *through the built-ins*): the TLC model check of
    JobCtl over <= 3 jobs with start/fgstart/rel/settle/jobs/wait/bg/fg/kill and
    `set -m`/`set +m` (jobs that are not job-controlled), every (state, command) pair run on
    the real shell under explored schedules and validated by Trace_JobCtl.  Violations go
    to `rep` (keys and replay objects carry "stage": "g02"); returns coverage numbers."""
    t0 = time.time()
    st = STAGES[budget]
    t = st[tier]
    cfg = st["cfg"]
    wd = vlib.workdir(PID + "-stage-" + budget)
    vlib.build_harness(PKG)
    gen = os.path.join(wd, cfg + ".gen.ndjson")
    r = vlib.tlc("JobCtl", cfg, workers=8, json_out=gen, timeout=1200)
    vlib.tlc_must_pass(r, f"model check {cfg}")
    vlib.log(f"[g02-stage] {cfg}: {r.distinct} distinct states, {r.generated} generated, depth {r.depth}, {r.wall:.1f}s")
    trace = os.path.join(wd, cfg + ".trace.ndjson")
    s = _explore(gen, trace, t)
    counters = {"skipped": 0}
    n, bad = _validate(trace, t["shards"])
    _report(rep, bad, f"job-control built-ins ({cfg})", counters, stage="g02")
    rejected = len(bad) - counters["skipped"]
    kinds = {}
    bang_moves = 0
    with open(trace) as f:
        for line in f:
            rec = json.loads(line)
            if rec["script"] and len(rec["steps"]) == len(rec["script"]):
                k = rec["script"][-1]["k"] + (" (error)" if rec["steps"][-1]["err"] else " (ok)")
                kinds[k] = kinds.get(k, 0) + 1
                if len(rec["steps"]) > 1 and rec["steps"][-1]["bang"] != rec["steps"][-2]["bang"]:
                    bang_moves += 1
    vlib.log(f"[g02-stage] {s['scripts']} scripts, {s['runs']} runs, {n} records validated against JobCtl, "
             f"{rejected} rejected, {counters['skipped']} not judged, {time.time() - t0:.1f}s")
    os.remove(gen)
    os.remove(trace)
    return {"config": cfg, "states": r.distinct, "transitions": r.generated, "scripts": s["scripts"], "runs": s["runs"],
            "records_validated": n, "records_not_judged": counters["skipped"], "rejected": rejected,
            "records_by_last_command_and_result": kinds, "records_where_last_command_changes_bang": bang_moves,
            "max_scheduling_choice_points": s["max_choice_points"], "wall_s": round(time.time() - t0, 1)}


def replay(path):
    with open(path) as f:
        obj = json.load(f)
    rp = obj["replay"]
    wd = vlib.workdir(PID + "-replay")
    vlib.build_harness(PKG)
    exe = vlib.harness_bin(PKG)
    args = [exe, "run", "--script", json.dumps(rp["script"])]
    if rp.get("m"):
        args.append("--m")
    pre = rp.get("sched", {}).get("prefix", [])
    if pre:
        args += ["--prefix", ",".join(str(x) for x in pre)]
    p = subprocess.run(args, capture_output=True, text=True, timeout=300)
    if p.returncode != 0:
        raise vlib.ToolError(f"{PKG} run failed: {p.stderr[-800:]}")
    t = os.path.join(wd, "one.ndjson")
    with open(t, "w") as f:
        f.write(p.stdout.strip().splitlines()[-1] + "\n")
    n, bad = _validate(t, 1)
    bad = [b for b in bad if b[1]["v"] != "skip"]
    if bad:
        print(f"rejected: {bad[0][1]}")
        print(f"VIOLATION property={obj.get('property', PID)} replay={path}")
        return 1
    print("accepted")
    return 0
