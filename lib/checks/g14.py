"""G14 — the signal catalogue: names, numbers, conditions, exit statuses; the naming layer of
`kill` and `trap` (specification-growth module; spec/SigNames.tla).

The oracle is the TLA+ module spec/SigNames.tla, written from POSIX.1-2024 (XBD <signal.h>,
XSH kill / sig2str / str2sig, XCU kill, trap, 2.8.2) and the manual (builtins/kill.md,
trap.md, language/commands/exit_status.md) plus the public doc comments of
yash_env::signal, yash_env::system::Signals and ExitStatus::to_signal.  One model, two
systems: the platform (names and numbers, realtime range, what kill() accepts) is a
parameter measured by harness/g14 from a source independent of the code under test (the
public constants of the simulated system / the libc constants and the kernel).

 0. Calib_SigNames: the examples of the manual, of kill*-p.sh / kill-y.sh / trap-p.sh /
    trap-y.sh and of the rustdoc hold for the oracle (ASSUMEs; failure = tool error).
    Gen_SigNames_neg_*.cfg: every named wrong variant of a rule is refuted by a law.
 1. per system: TLC (Gen_SigNames) evaluates the laws of the catalogue and of the
    conversions on the measured platform (a law that fails there is a discrepancy of the
    system: violation) and enumerates the cases of every family.
 2. spec -> impl: harness/g14 runs every case: kill command lines against sacrificial
    processes that block every signal (what was delivered is read from the process table
    / /proc), kill -l / -v listings, a shell that traps every signal by NUMBER and kills
    itself by NAME, a subshell that dies of the signal followed by kill -l $?, trap with
    every spelling of a condition and read-back through trap -p, and the API of the
    system object (str2sig, sig2str, validate_signal, Name::from_str, parse_signal,
    ExitStatus::to_signal, Condition::iter, ...).  Simulated OS in-process; real kernel
    inside a fresh PID namespace.
 3. verdicts: every record is judged by TLC (Trace_SigNames: SigNames!Conforms).
 4. impl -> spec: seeded random kill / trap command lines and API calls, recorded and
    judged the same way.
"""
import json
import os
import re
import time
from concurrent.futures import ThreadPoolExecutor

import vlib

PID = "G14"
PKG = "yv-g14"

TIERS = {
    "quick": dict(gen="Gen_SigNames_quick.cfg", nrandom={"sim": 6000, "real": 1500}, timeout=600),
    "thorough": dict(gen="Gen_SigNames_thorough.cfg", nrandom={"sim": 120000, "real": 20000}, timeout=2400),
}

NEGATIVE = ["rt-one-ended", "rt-always-rtmin", "any-name", "status-128", "exit-is-signal-0", "list-operand-prefix",
            "trap-folds-case", "cluster-first", "portable-s-number", "dash-needs-upper"]

SYSTEMS = ["sim", "real"]
SHARD = 40000

# kinds of expected outcome the enumeration must exercise on every system (else tool error)
REQUIRED = ["send:send", "send:err", "send:open", "list:list", "list:err", "self:send", "self:err", "die:send", "trap:ok",
            "trap:err", "trap:open", "trapall:ok", "api:ok"]


def _summary(out):
    line = [l for l in out.strip().splitlines() if l.startswith("{")][-1]
    return json.loads(line)


def _text(rec):
    if rec["fam"] == "api":
        return f"{rec['op']}({rec['t']!r}, {rec['n']})"
    head = {"send": "kill", "list": "kill", "self": "kill", "die": "kill", "trap": "trap", "trapall": "trap"}.get(rec["fam"], rec["fam"])
    return ("set -o portable; " if rec["po"] else "") + head + " " + " ".join(repr(a) if (a == "" or " " in a) else a for a in rec["w"])


def _key(rec, why, shape, direction):
    return {"dir": direction, "sys": rec["sys"], "fam": rec["fam"], "why": why, "shape": shape, "po": rec["po"],
            "w": " ".join(rec["w"]), "op": rec["op"], "t": rec["t"], "n": rec["n"]}


def _judge(rep, sysname, plat, trace, timeout, totals, what, direction):
    """Run Trace_SigNames over `trace` (in shards); report every rejected record.
    Returns (number of records, verdict tally)."""
    with open(trace) as f:
        lines = f.readlines()
    n = len(lines)
    verdicts = {}
    classes = {}
    wall = 0.0
    for a in range(0, n, SHARD):
        part = lines[a:a + SHARD]
        p = f"{trace}.shard"
        with open(p, "w") as f:
            f.writelines(part)
        r = vlib.tlc("Trace_SigNames", "Trace_SigNames.cfg", workers=4, timeout=timeout,
                     env={"TRACE": os.path.abspath(p), "PLATFORM": os.path.abspath(plat)})
        os.remove(p)
        vlib.tlc_must_pass(r, f"trace validation (Trace_SigNames, {sysname}, {what})")
        if r.distinct != 2 * len(part) - 1:
            raise vlib.ToolError(f"trace validation judged {r.distinct} states for {len(part)} records")
        wall += r.wall
        totals["states"] += r.distinct
        totals["transitions"] += r.generated
        nok = len(part)
        for j in r.json:
            nok -= 1
            v = j["v"]
            if v == "open":
                verdicts["open"] = verdicts.get("open", 0) + 1
                continue
            rec = json.loads(part[j["i"] - 1])
            if v == "bad-input":
                raise vlib.ToolError(f"the specification calls a generated case ill-formed: {json.dumps(rec)[:600]}")
            verdicts["reject"] = verdicts.get("reject", 0) + 1
            cls = f"{rec['fam']}:{v}:{j['shape'] or '-'}"
            classes[cls] = classes.get(cls, 0) + 1
            detail = (f"[{sysname}] {what}: `{_text(rec)}` -> {json.dumps(rec['o'])} {rec.get('note', '')[:300]}: "
                      f"{v} (SigNames!Conforms; expected kind {rec.get('xk')}; shape {j['shape'] or '-'})")
            rep.violation(_key(rec, v, j["shape"], direction), detail,
                          {"sys": sysname, "case": {k: rec[k] for k in ("fam", "po", "w", "op", "t", "n")}, "why": v,
                           "dir": direction})
        verdicts["ok"] = verdicts.get("ok", 0) + nok
    vlib.log(f"[{sysname}] {what}: {n} records judged by TLC in {wall:.1f}s: {verdicts}"
             + (f"; rejected by class {classes}" if classes else ""))
    return n, verdicts


# harness processes per system (the real side forks three sacrificial processes per kill case:
# several PID namespaces work side by side)
PARTS = {"sim": 1, "real": 4}


def _merge(a, b):
    for k, v in b.items():
        if isinstance(v, dict):
            a[k] = _merge(a.get(k, {}), v)
        else:
            a[k] = a.get(k, 0) + v
    return a


def _run_parts(sysname, sub, args, src, dst, parts, timeout):
    """Run `yv-g14 <sub>` in `parts` processes (the lines of `src` dealt out round-robin; for
    `random` every process gets its own stream: --stream k) and concatenate what they record."""
    ins = []
    if src:
        outs = [open(f"{src}.part{k}", "w") for k in range(parts)]
        with open(src) as f:
            for i, line in enumerate(f):
                outs[i % parts].write(line)
        for o in outs:
            o.close()
        ins = [o.name for o in outs]

    def one(k):
        a = [sub, "--sys", sysname] + list(args) + ["--out", f"{dst}.part{k}", "--stream", k]
        if src:
            a += ["--in", ins[k]]
        _, out, _ = vlib.run_harness(PKG, a, timeout=timeout)
        return _summary(out)

    with ThreadPoolExecutor(max_workers=parts) as ex:
        sums = list(ex.map(one, range(parts)))
    total = {}
    for sm in sums:
        _merge(total, sm)
    with open(dst, "w") as f:
        for k in range(parts):
            with open(f"{dst}.part{k}") as g:
                for line in g:
                    f.write(line)
            os.remove(f"{dst}.part{k}")
    for p in ins:
        os.remove(p)
    return total


def _side(timeout):
    """Calibration and the negative configurations (run beside the pipelines)."""
    r = vlib.tlc("Calib_SigNames", "Calib_SigNames.cfg", workers=1, timeout=300)
    return r


def _negative(name, plat, timeout):
    return vlib.tlc("Gen_SigNames", f"Gen_SigNames_neg_{name}.cfg", workers=2, timeout=timeout, xmx="2g",
                    env={"PLATFORM": os.path.abspath(plat)})


def _pipeline(sysname, tier, wd, rep_items, totals):
    """Everything for one system.  Returns a dict of measured numbers; violations are
    appended to rep_items as (key, detail, replay) tuples by way of a private Reporter-like
    list so that the two pipelines can run in parallel."""
    T = TIERS[tier]
    res = {"sys": sysname}
    plat = os.path.join(wd, f"platform-{sysname}.json")
    _, out, _ = vlib.run_harness(PKG, ["platform", "--sys", sysname], timeout=120)
    with open(plat, "w") as f:
        f.write(out.strip().splitlines()[-1] + "\n")
    P = json.loads(out.strip().splitlines()[-1])
    res["platform"] = {"names": len(P["names"]), "rtmin": P["rtmin"], "rtmax": P["rtmax"], "kill_accepts": len(P["kacc"])}

    # 1. laws on the measured platform + enumeration
    gen = os.path.join(wd, f"gen-{sysname}.ndjson")
    r = vlib.tlc("Gen_SigNames", T["gen"], workers=4, timeout=T["timeout"], json_out=gen,
                 env={"PLATFORM": os.path.abspath(plat)})
    vlib.tlc_must_pass(r, f"enumeration and laws ({T['gen']}, {sysname})")
    ngen = vlib.count_lines(gen)
    if ngen != r.distinct or ngen == 0:
        raise vlib.ToolError(f"enumeration printed {ngen} lines for {r.distinct} states")
    totals["states"] += r.distinct
    totals["transitions"] += r.generated
    laws = {}
    for c in vlib.read_ndjson(gen):
        if c["fam"] == "law":
            laws[c["w"][0]] = bool(c["po"])
    res["laws"] = laws
    res["enumerated"] = ngen - len(laws)
    res["gen_wall"] = round(r.wall, 1)
    vlib.log(f"[{sysname}] {T['gen']}: {len(laws)} laws evaluated on the measured platform "
             f"({sum(laws.values())} hold), {ngen - len(laws)} cases enumerated by TLC in {r.wall:.1f}s")
    for name, ok in sorted(laws.items()):
        if not ok:
            rep_items.append(({"dir": "law", "sys": sysname, "fam": "law", "why": "law-fails", "shape": name, "po": False,
                               "w": name, "op": "", "t": "", "n": 0},
                              f"[{sysname}] the law `{name}` of Gen_SigNames.tla does not hold on the catalogue the system "
                              f"declares (names, numbers, realtime range measured by `yv-g14 platform`): {json.dumps(P)[:1500]}",
                              {"sys": sysname, "law": name, "dir": "law"}))

    # 2. spec -> impl
    recs = os.path.join(wd, f"records-{sysname}.ndjson")
    t1 = time.time()
    st = _run_parts(sysname, "replay", ["--platform", plat], gen, recs, PARTS[sysname], T["timeout"])
    res["replay"] = st
    vlib.log(f"[{sysname}] replayed {st['cases']} cases in {st['shell_runs']} shell runs + API calls "
             f"({time.time() - t1:.1f}s); by family {st['by_family']}; skipped {st['skipped']}; not completed {st['not_done']}")
    if st["cases"] + sum(st["skipped"].values()) != res["enumerated"]:
        raise vlib.ToolError(f"harness replayed {st['cases']} (+{st['skipped']} skipped) of {res['enumerated']} cases")
    missing = [k for k in REQUIRED if not st["by_expected_kind"].get(k)]
    if missing:
        raise vlib.ToolError(f"[{sysname}] the enumeration does not exercise: {missing}")
    os.remove(gen)
    res["records"] = recs
    res["plat"] = plat

    # 4. random cases
    rnd = os.path.join(wd, f"random-{sysname}.ndjson")
    t1 = time.time()
    res["random"] = _run_parts(sysname, "random", ["--platform", plat, "--n", T["nrandom"][sysname] // PARTS[sysname]],
                               None, rnd, PARTS[sysname], T["timeout"])
    res["random_records"] = rnd
    vlib.log(f"[{sysname}] {res['random']['cases']} seeded random cases recorded ({time.time() - t1:.1f}s); "
             f"by family {res['random']['by_family']}; skipped {res['random']['skipped']}")
    return res


class _Collect:
    """Reporter front used inside the worker threads: violations are collected and handed
    to the real Reporter afterwards (in a fixed order)."""

    def __init__(self):
        self.items = []

    def violation(self, key, detail, replay):
        self.items.append((key, detail, replay))


def run(tier):
    t0 = time.time()
    T = TIERS[tier]
    wd = vlib.workdir(PID)
    rep = vlib.Reporter(PID)
    vlib.build_harness(PKG)
    totals = {s: {"states": 0, "transitions": 0} for s in SYSTEMS}
    collected = {s: _Collect() for s in SYSTEMS}

    def one(sysname):
        res = _pipeline(sysname, tier, wd, collected[sysname].items, totals[sysname])
        n1, v1 = _judge(collected[sysname], sysname, res["plat"], res["records"], T["timeout"], totals[sysname],
                        "enumerated case", "spec->impl")
        n2, v2 = _judge(collected[sysname], sysname, res["plat"], res["random_records"], T["timeout"], totals[sysname],
                        "random case", "impl->spec")
        res.update(judged=n1, verdicts=v1, random_judged=n2, random_verdicts=v2)
        return res

    # the negative configurations are evaluated on the catalogue of the simulated system
    nplat = os.path.join(wd, "platform-neg.json")
    _, out, _ = vlib.run_harness(PKG, ["platform", "--sys", "sim"], timeout=120)
    with open(nplat, "w") as f:
        f.write(out.strip().splitlines()[-1] + "\n")

    def negatives():
        with ThreadPoolExecutor(max_workers=3) as ex2:
            return list(ex2.map(lambda n: (n, _negative(n, nplat, T["timeout"])), NEGATIVE))

    with ThreadPoolExecutor(max_workers=4) as ex:
        fut = {s: ex.submit(one, s) for s in SYSTEMS}
        side = ex.submit(_side, T["timeout"])
        nside = ex.submit(negatives)
        results = {}
        err = None
        for s in SYSTEMS:
            try:
                results[s] = fut[s].result()
            except Exception as e:      # noqa: BLE001
                err = err or e
        calib = side.result()
        negs = nside.result()
    if err:
        raise err
    vlib.tlc_must_pass(calib, "calibration examples (Calib_SigNames)")
    with open(os.path.join(vlib.SPEC, "Calib_SigNames.tla")) as f:
        nassume = sum(1 for l in f if l.startswith("ASSUME"))
    vlib.log(f"[calib] Calib_SigNames: {nassume} ASSUMEs hold ({calib.wall:.1f}s)")

    refuted = {}
    for n, nr in negs:
        if nr.violation is None:
            raise vlib.ToolError(f"negative configuration {n}: the laws of Gen_SigNames.tla do not refute the wrong variant "
                                 f"({(nr.error or 'no violation')[:800]})")
        m = re.search(r'w \|-> <<"([^"]+)">>', nr.violation)
        refuted[n] = m.group(1) if m else "?"
    vlib.log(f"[tlc] {len(refuted)} wrong variants refuted by the laws: {refuted}")

    for s in SYSTEMS:
        for key, detail, replay in collected[s].items:
            rep.violation(key, detail, replay)

    samples = []
    for s in SYSTEMS:
        with open(results[s]["records"]) as f:
            for i, line in enumerate(f):
                if i % 2741 == 1300 and len(samples) < (4 if s == "sim" else 8):
                    rec = json.loads(line)
                    samples.append({"sys": s, "case": _text(rec), "expected_kind": rec["xk"], "observed": rec["o"]})
    for s in SYSTEMS:
        for k in ("records", "random_records"):
            os.remove(results[s][k])

    rc = rep.finish()
    states = sum(totals[s]["states"] for s in SYSTEMS)
    transitions = sum(totals[s]["transitions"] for s in SYSTEMS)
    judged = sum(results[s]["judged"] + results[s]["random_judged"] for s in SYSTEMS)
    accepted = sum(results[s]["verdicts"].get("ok", 0) + results[s]["random_verdicts"].get("ok", 0) for s in SYSTEMS)

    def nontrivial(s):
        kinds = results[s]["replay"]["by_expected_kind"]
        return sum(v for k, v in kinds.items() if not k.endswith(":open"))

    vlib.write_evidence(PID, tier, {
        "states": states,
        "transitions": transitions,
        "traces_validated_against_impl": judged,
        "samples": samples,
        "evaluations": judged,
        "distinct_nontrivial": sum(nontrivial(s) for s in SYSTEMS),
        "rule": "enumerated cases whose outcome the specification decides (expected kind other than open), each run on "
                "the system and judged by Trace_SigNames; random cases counted separately",
        "exhaustive": True,
        "exhaustive_bound": f"every case of the families of {T['gen']} (spec/Gen_SigNames.tla): every name of the measured "
                            "catalogue and the picked realtime numbers in 6-10 spellings, every number 0..RTMAX+3, the "
                            "malformed texts, in every option form of kill (-s X, -sX, -n X, -nX, -X, with --), with and "
                            "without the portable option; every exit status 0..384+RTMAX+5 as operand of kill -l; the "
                            "target shapes; every condition text x five trap forms; the API on the same texts and numbers",
        "config": T["gen"],
        "calibration_assumes": nassume,
        "negative_configs_refuted": refuted,
        "per_system": {s: {
            "platform": results[s]["platform"],
            "laws": results[s]["laws"],
            "enumerated_cases": results[s]["enumerated"],
            "cases_replayed": results[s]["replay"]["cases"],
            "by_family": results[s]["replay"]["by_family"],
            "by_expected_kind": results[s]["replay"]["by_expected_kind"],
            "skipped": results[s]["replay"]["skipped"],
            "shell_runs": results[s]["replay"]["shell_runs"] + results[s]["random"]["shell_runs"],
            "verdicts": results[s]["verdicts"],
            "random_cases": results[s]["random"]["cases"],
            "random_by_family": results[s]["random"]["by_family"],
            "random_verdicts": results[s]["random_verdicts"],
            "tlc_states": totals[s]["states"],
        } for s in SYSTEMS},
        "records_accepted": accepted,
        "records_left_open": sum(results[s]["verdicts"].get("open", 0) + results[s]["random_verdicts"].get("open", 0)
                                 for s in SYSTEMS),
    }, time.time() - t0, violations=len(rep.violations), assumptions=[
        "the platform record (names and numbers, realtime range, the numbers kill() accepts) is measured by the harness "
        "from the public constants of the simulated system / the libc constants and the running kernel; for the "
        "simulated system `kill() accepts 0 and the signals of the system` is taken from POSIX (XSH kill, EINVAL)",
        "sacrificial processes block every signal, so what a kill command line delivered is the pending set (KILL and "
        "STOP: the wait status); the real side runs inside a fresh PID namespace so that no command line can reach a "
        "process outside it; command lines in which a number could be taken for a process ID are skipped and counted",
        "left open (class open, counted): leading zeros and signs in numbers, RTMIN-0 / RTMAX+0, lower-case operands of "
        "kill -l, the signal given twice, -l together with a signal, numbers the kernel accepts but <signal.h> does not "
        "name (32 and 33 on Linux), resetting KILL / STOP, trap actions that are options or need quoting, which of "
        "several names of one number is printed unless POSIX requires one of them",
        "on the real kernel SEGV and BUS are not sent to the shell itself (the Rust runtime installs handlers)",
        "the texts of diagnostics are not judged; only whether standard error is empty",
        "TLC and the JSON community module are trusted",
    ])
    return rc


def replay(path):
    with open(path) as f:
        obj = json.load(f)
    rp = obj["replay"]
    sysname = rp["sys"]
    wd = vlib.workdir(PID + "-replay")
    plat = os.path.join(wd, "platform.json")
    _, out, _ = vlib.run_harness(PKG, ["platform", "--sys", sysname], timeout=120)
    with open(plat, "w") as f:
        f.write(out.strip().splitlines()[-1] + "\n")
    if rp.get("dir") == "law":
        r = vlib.tlc("Gen_SigNames", "Gen_SigNames_laws.cfg", workers=2, timeout=300, env={"PLATFORM": os.path.abspath(plat)})
        if r.violation:
            print(r.violation[:1500])
            print(f"VIOLATION property={obj.get('property', PID)} replay={path}")
            return 1
        vlib.tlc_must_pass(r, "laws on the measured platform")
        print("every law holds on the measured platform")
        return 0
    src = os.path.join(wd, "case.ndjson")
    with open(src, "w") as f:
        f.write(json.dumps(dict(rp["case"], xk="replay")) + "\n")
    t = os.path.join(wd, "one.ndjson")
    vlib.run_harness(PKG, ["replay", "--sys", sysname, "--platform", plat, "--in", src, "--out", t], timeout=300)
    r = vlib.tlc("Trace_SigNames", "Trace_SigNames.cfg", workers=1, timeout=300,
                 env={"TRACE": os.path.abspath(t), "PLATFORM": os.path.abspath(plat)})
    vlib.tlc_must_pass(r, "replay validation")
    with open(t) as f:
        now = json.loads(f.readline())
    print(f"[{sysname}] {_text(now)}")
    print("observed:", json.dumps(now["o"]), now.get("note", ""))
    bad = [j for j in r.json if j["v"] not in ("ok", "open")]
    if bad:
        print(f"rejected: {bad[0]}")
        print(f"VIOLATION property={obj.get('property', PID)} replay={path}")
        return 1
    print("accepted" + (f" ({r.json[0]})" if r.json else ""))
    return 0
