"""G18 — specification growth: lists, pipelines and compound commands beyond
Semantics.tla (asynchronous lists, `$!`, wait, pipefail, `!`, case with its
continuations and the order of pattern expansion, for, redirected compound
commands, subshell isolation of pipeline commands).

Oracle: spec/ListsExt.tla, a big-step interpreter written from POSIX XCU
2.9.2-2.9.4, 2.8.1, 2.13, 2.15 and the manual (docs/src/language/commands/
{pipelines,lists,case,loops,grouping,exit_status}.md, builtins/wait.md).  The
observations carry the path of the execution environment that made them;
children run concurrently inside *windows* of their parent's observations and
`Conforms` decides whether an observed run is a linearisation of that order.

Calib  spec/Calib_ListsExt.tla: worked examples of the manual and of
       pipeline-p.sh, async-p.sh, case-p.sh, case-y.sh, for-p.sh,
       grouping-p.sh, wait-p.sh, error-p.sh as ASSUMEs (a failure is a tool
       error); under each of 17 named wrong variants of a rule at least one
       ASSUME must fail (negative configurations).
Laws   spec/Gen_ListsExt.tla, INVARIANT Laws: theorems about the
       specification on every program of a bounded enumeration.
S->I   INVARIANT Emit prints every program of nine bounded enumerations with
       the outcome the specification prescribes per run option (errexit,
       pipefail); harness/g18 renders it to shell text (seeded surface
       variation), runs the real shell on the simulated OS - programs with
       concurrent processes also under depth-first enumerated and seeded
       random schedules - and checks exec::conforms.
I->S   seeded random larger programs are executed first (random schedules)
       and the records judged by spec/Trace_ListsExt.tla.
"""
import json
import os
import re
import threading
import time
from concurrent.futures import ThreadPoolExecutor

import vlib

PID = "G18"
PKG = "yv-g18"
_LOCK = threading.Lock()

GEN = ["pipes", "async", "asyncnest", "case", "case2", "for", "redir", "pipeio", "mix"]

VARIANTS = ["pf-first", "pf-off", "last-in-shell", "async-status", "async-stdin", "async-noign", "bang-fg",
            "wait-all-status", "wait-keeps", "case-expand-all", "case-fall-match", "case-cont-fall",
            "case-nomatch-keeps", "for-reexpand", "for-restores", "for-ro-skip", "rdr-each"]
# wrong variants that the laws alone (without the calibration) must refute as well
LAW_VARIANTS = ["last-in-shell", "for-restores", "async-status"]

# gen: (family, K, variants, dfs, rand)
PLAN = {
    "quick": {
        "laws": 3,
        "gen": [("pipes", 5, 2, 6, 2), ("async", 5, 2, 8, 2), ("asyncnest", 5, 2, 8, 2), ("case", 4, 2, 0, 0),
                ("case2", 4, 2, 0, 0), ("for", 4, 2, 0, 0), ("redir", 5, 2, 0, 0), ("pipeio", 5, 2, 4, 1),
                ("mix", 5, 1, 4, 1)],
        "random": (6000, 30), "jobs": 6,
    },
    "thorough": {
        "laws": 4,
        "gen": [("pipes", 6, 2, 8, 3), ("async", 6, 2, 12, 3), ("asyncnest", 6, 2, 12, 3), ("case", 5, 2, 0, 0),
                ("case2", 5, 2, 0, 0), ("for", 5, 3, 0, 0), ("redir", 6, 2, 0, 0), ("pipeio", 6, 2, 6, 2),
                ("mix", 6, 2, 6, 2)],
        "random": (60000, 40), "jobs": 8,
    },
}

# every rule tag of ListsExt.tla
RULE_TAGS = ["errexit", "pf-same", "pf-earlier", "pipe-last", "async", "wait-all", "wait-last", "wait-127", "wait-nobg",
             "kill-ignored", "kill-dies", "asg-ro", "for-ro", "for-none", "for-pos", "for-words", "case-zero",
             "case-fall", "case-cont", "case-stop-expansion", "rdr-trunc", "rdr-append", "rdr-in"]


def compact(p):
    """One-line rendering of a token list (for keys and samples)."""
    out = []
    for t in p:
        s = t["k"]
        if t["k"] in ("mk", "say", "brk", "cnt", "exit", "setpf", "sete", "setpp"):
            s += str(t["n"])
        if t["k"] in ("asg", "wait", "kill", "for", "rdr", "case"):
            s += ":" + t["s"]
        if t["k"] == "item":
            s += ":" + t["s"] + [";;", ";&", ";|"][t["n"]]
        out.append(s)
    return " ".join(out)


def _cfg(src_name, wd, k=None, variant=None, inv=None):
    with open(os.path.join(vlib.SPEC, src_name)) as f:
        text = f.read()
    if k is not None:
        text = re.sub(r"K = \d+", f"K = {k}", text)
    if variant is not None:
        text = text.replace('Variant = ""', f'Variant = "{variant}"')
    if inv is not None:
        text = text.replace("INVARIANT Emit", "INVARIANT " + inv)
    name = os.path.join(wd, f"K{k}_{variant or 'spec'}_{inv or ''}_{src_name}")
    with open(name, "w") as f:
        f.write(text)
    return name


class Stats:
    def __init__(self):
        self.states = 0
        self.transitions = 0
        self.programs = 0
        self.runs = 0
        self.scheds = 0
        self.pairs_ok = 0
        self.unspec = 0
        self.open = 0
        self.div = 0
        self.samples = []
        self.per_cfg = {}
        self.kinds = {}
        self.tags = {}
        self.rtags = {}
        self.neg = {}


def calibrate(wd, st):
    r = vlib.tlc("Calib_ListsExt", "Calib_ListsExt.cfg", workers=1, timeout=300)
    vlib.tlc_must_pass(r, "calibration of the oracle (Calib_ListsExt)")
    vlib.log(f"[calib] worked examples of docs/src and *-p.sh / case-y.sh hold in ListsExt.tla ({r.wall:.1f}s)")

    def neg(v):
        r = vlib.tlc("Calib_ListsExt", _cfg("Calib_ListsExt.cfg", wd, variant=v), workers=1, timeout=300)
        text = (r.error or "") + (r.violation or "")
        m = re.search(r"Assumption line (\d+)", text)
        if r.ok or not m:
            raise vlib.ToolError(f"negative configuration {v}: the calibration does not refute the wrong variant "
                                 f"({text[:300]})")
        return v, int(m.group(1))

    with ThreadPoolExecutor(max_workers=4) as ex:
        for v, line in ex.map(neg, VARIANTS):
            st.neg[v] = f"refuted by the ASSUME at Calib_ListsExt.tla:{line}"
    vlib.log(f"[neg] {len(VARIANTS)} wrong variants of the specification are each refuted by the calibration")


def laws(k, wd, st, workers=4):
    r = vlib.tlc("Gen_ListsExt", _cfg("MC_ListsExt_laws.cfg", wd, k=k), workers=workers, timeout=2400)
    vlib.tlc_must_pass(r, f"laws of the specification (MC_ListsExt_laws K={k})")
    with _LOCK:
        st.states += r.distinct
        st.transitions += r.generated
    vlib.log(f"[laws] K={k}: laws hold on {r.distinct} program prefixes over the union alphabet ({r.wall:.1f}s)")
    for v in LAW_VARIANTS:
        r = vlib.tlc("Gen_ListsExt", _cfg("MC_ListsExt_laws.cfg", wd, k=2, variant=v), workers=2, timeout=600)
        if r.ok or not r.violation:
            raise vlib.ToolError(f"negative configuration {v}: the laws do not refute the wrong variant")
        with _LOCK:
            st.neg[v] += "; also by the laws"
    vlib.log(f"[neg] laws refute {LAW_VARIANTS}")


def _violation(rep, layer, cfgname, p, f):
    tg = " ".join(sorted(f.get("tg") or []))
    key = {"layer": layer, "cfg": cfgname, "prog": compact(p), "e": f.get("e", 0), "pf": f.get("pf", 0),
           "why": f.get("why", ""), "tg": tg}
    replay = {"p": p, "e": f.get("e", 0), "pf": f.get("pf", 0), "text": f.get("text"), "flags": f.get("flags", []),
              "file": f.get("file", False), "sched": f.get("sched", "fifo"),
              "expected": f.get("expected"), "observed": f.get("observed")}
    detail = (f"{layer} {cfgname}: the shell's run of the program is not one ListsExt.tla allows "
              f"({f.get('why')}; schedule {f.get('sched')})")
    rep.violation(key, detail, replay)


def gen_and_replay(rep, wd, name, k, variants, dfs, rnd, st, workers=4, jobs=4):
    """Enumerate the programs of family `name` with size bound k (TLC) and
    replay every one of them on the real shell."""
    tmp = _cfg(f"Gen_ListsExt_{name}.cfg", wd, k=k)
    gen = os.path.join(wd, f"{name}-{k}.gen.ndjson")
    r = vlib.tlc("Gen_ListsExt", tmp, workers=workers, timeout=2400, json_out=gen)
    vlib.tlc_must_pass(r, f"program enumeration Gen_ListsExt_{name} K={k}")
    nprog = vlib.count_lines(gen)
    with _LOCK:
        st.states += r.distinct
        st.transitions += r.generated
    ver = os.path.join(wd, f"{name}-{k}.verdict.ndjson")
    t1 = time.time()
    vlib.run_harness(PKG, ["run", "--in", gen, "--out", ver, "--variants", variants, "--jobs", jobs, "--tick", 2,
                           "--dfs", dfs, "--depth", 8, "--rand", rnd], timeout=3000)
    t2 = time.time()
    with _LOCK:
        runs = scheds = unspec = opn = div = pairs = nfail = handled = 0
        lost = {}
        for rec in vlib.read_ndjson(ver):
            if rec.get("note"):
                vlib.log(f"[s->i] note: {rec['note']}")
                continue
            handled += 1
            if rec.get("bad"):
                raise vlib.ToolError(f"harness could not parse program {rec}")
            if rec.get("lost"):
                lost[rec["i"]] = rec
                continue
            runs += rec["runs"]
            scheds += rec["scheds"]
            unspec += rec["unspec"]
            opn += rec["open"]
            div += rec["div"]
            pairs += rec["pairs"]
            if rec["runs"]:
                for t in rec["p"]:
                    kk = t["k"]
                    st.kinds[kk] = st.kinds.get(kk, 0) + 1
                for tg in rec.get("tags", []):
                    st.tags[tg] = st.tags.get(tg, 0) + 1
            if rec.get("sample") and len(st.samples) < 6:
                st.samples.append({"cfg": name, "program": compact(rec["p"]), **rec["sample"]})
            for f in rec.get("fails", [])[:1]:
                nfail += 1
                _violation(rep, "S->I", name, rec["p"], f)
        if lost:
            for i, line in enumerate(vlib.read_ndjson(gen)):
                if i in lost:
                    oks = [o for o in line["o"] if o["oc"] == "ok"]
                    f = {"why": lost[i]["lost"], "e": -1, "pf": -1, "tg": sorted({t for o in oks for t in o.get("tg", [])}),
                         "expected": oks[:1], "observed": {"oc": lost[i]["lost"]}}
                    nfail += 1
                    _violation(rep, "S->I", name, line["p"], f)
        st.programs += handled
        st.runs += runs
        st.scheds += scheds
        st.pairs_ok += pairs
        st.unspec += unspec
        st.open += opn
        st.div += div
        st.per_cfg[f"{name}/K={k}"] = {
            "programs_enumerated": nprog, "programs_replayed": handled, "runs": runs,
            "runs_under_non_fifo_schedules": scheds, "option_runs_with_prescribed_outcome": pairs,
            "skipped_unspecified": unspec, "skipped_open_race": opn, "skipped_diverging": div,
            "mismatches": nfail, "tlc_states": r.distinct, "tlc_s": round(r.wall, 1), "harness_s": round(t2 - t1, 1)}
    vlib.log(f"[s->i] {name} K={k}: {nprog} programs enumerated by TLC ({r.wall:.1f}s), {handled} replayed, "
             f"{runs} runs of which {scheds} under enumerated/random schedules ({t2 - t1:.1f}s), {unspec} unspecified + "
             f"{opn} open + {div} diverging option-runs skipped, {nfail} mismatching program(s)")
    os.remove(gen)
    os.remove(ver)


def _judge(path, shards, timeout=2400):
    """Runs Trace_ListsExt over an ndjson file of records (sharded JVMs).
    Returns {0-based index: verdict line}."""
    with open(path) as f:
        lines = f.readlines()
    n = len(lines)
    if n == 0:
        return {}
    per = max(1, (n + shards - 1) // shards)
    pieces = [(a, min(n, a + per)) for a in range(0, n, per)]
    files = []
    for a, b in pieces:
        p = f"{path}.s{a}"
        with open(p, "w") as f:
            f.writelines(lines[a:b])
        files.append(p)

    def one(p):
        return vlib.tlc("Trace_ListsExt", "Trace_ListsExt.cfg", workers=1, timeout=timeout,
                        env={"TRACE": os.path.abspath(p)}, depth_first=True, want_lines=True, xmx="2g")

    with ThreadPoolExecutor(max_workers=shards) as ex:
        results = list(ex.map(one, files))
    verdicts = {}
    for (a, b), r, p in zip(pieces, results, files):
        os.remove(p)
        if not r.ok:
            raise vlib.ToolError(f"trace validation tool error: {(r.error or r.violation or '')[:2000]}")
        for j in r.json:
            loc = j.get("ok") or j.get("reject") or j.get("i")
            verdicts[a + loc - 1] = j
        if sum(1 for g in range(a, b) if g in verdicts) != b - a:
            raise vlib.ToolError("trace validation: not every record was judged")
    return verdicts


def random_and_validate(rep, wd, n, size, st, jobs=4, shards=6):
    recs = os.path.join(wd, "random.ndjson")
    full = os.path.join(wd, "random.full.ndjson")
    t0 = time.time()
    vlib.run_harness(PKG, ["random", "--n", n, "--size", size, "--tick", 2, "--out", recs, "--full", full,
                           "--jobs", jobs], timeout=3000)
    t1 = time.time()
    fulls = list(vlib.read_ndjson(full))
    verdicts = _judge(recs, shards)
    if len(verdicts) != len(fulls):
        raise vlib.ToolError("record files out of step")
    skips = {}
    nok = tr_total = nwin = nrej = 0
    with _LOCK:
        for g, j in sorted(verdicts.items()):
            if "skip" in j:
                skips[j["skip"]] = skips.get(j["skip"], 0) + 1
            elif "ok" in j:
                nok += 1
                tr_total += j["n"]
                nwin += 1 if j["w"] else 0
                for tg in j["tg"]:
                    st.rtags[tg] = st.rtags.get(tg, 0) + 1
            else:
                nrej += 1
                rec = fulls[g]
                f = {"e": rec["e"], "pf": rec["pf"], "why": "rejected by Trace_ListsExt", "tg": j.get("tg", []),
                     "text": rec.get("text"), "flags": rec.get("flags", []), "file": rec.get("file", False),
                     "sched": rec.get("sched", "fifo"),
                     "expected": {k: j.get(k) for k in ("tr", "win", "st", "out", "ff", "orace")},
                     "observed": {k: rec.get(k) for k in ("oc", "tr", "st", "out", "ff", "detail")}}
                _violation(rep, "I->S", "random", rec["p"], f)
        nskip = sum(skips.values())
        st.runs += len(fulls)
        st.per_cfg[f"random/size<={size}"] = {
            "records": len(fulls), "accepted": nok, "rejected": nrej, "skipped": skips,
            "accepted_with_concurrent_environments": nwin,
            "mean_observations_per_accepted_run": round(tr_total / max(1, nok), 2),
            "harness_s": round(t1 - t0, 1), "tlc_s": round(time.time() - t1, 1)}
        if fulls and len(st.samples) < 9:
            r0 = fulls[min(3, len(fulls) - 1)]
            st.samples.append({"cfg": "random", "text": r0.get("text"), "sched": r0.get("sched"),
                               "observed": {"tr": r0["tr"], "st": r0["st"]}})
    vlib.log(f"[i->s] {len(fulls)} random programs (size <= {size}) executed ({t1 - t0:.1f}s) and judged by "
             f"Trace_ListsExt ({time.time() - t1:.1f}s): {nok} accepted ({nwin} with concurrent environments), "
             f"{nrej} rejected, {nskip} skipped {skips}")
    os.remove(recs)
    os.remove(full)
    return nok, nskip


def run(tier):
    t0 = time.time()
    wd = vlib.workdir(PID)
    rep = vlib.Reporter(PID)
    st = Stats()
    plan = PLAN[tier]
    vlib.build_harness(PKG)
    calibrate(wd, st)
    res = {}
    jobs = plan["jobs"]
    tasks = []
    n, size = plan["random"]
    tasks.append(lambda: res.update(sim=random_and_validate(rep, wd, n, size, st, jobs=jobs, shards=6)))
    tasks.append(lambda: laws(plan["laws"], wd, st, workers=4))
    for name, k, variants, dfs, rnd in plan["gen"]:
        tasks.append(lambda name=name, k=k, variants=variants, dfs=dfs, rnd=rnd: gen_and_replay(
            rep, wd, name, k, variants, dfs, rnd, st, workers=4, jobs=jobs))
    with ThreadPoolExecutor(max_workers=3) as ex:
        futs = [ex.submit(t) for t in tasks]
        for f in futs:
            f.result()
    validated, skipped = res["sim"]
    rc = rep.finish()
    never = sorted(t for t in RULE_TAGS if not st.tags.get(t) and not st.rtags.get(t))
    if never and rc == 0:
        raise vlib.ToolError(f"rules of ListsExt.tla never exercised by a replayed or validated run: {never}")
    vlib.write_evidence(PID, tier, {
        "states": st.states,
        "transitions": st.transitions,
        "traces_validated_against_impl": st.pairs_ok + validated,
        "samples": st.samples,
        "evaluations": st.runs,
        "distinct_nontrivial": st.pairs_ok,
        "rule": "distinct (program, run options) pairs of the bounded enumerations for which the specification "
                "prescribes an outcome (not unspecified, not open, not diverging), each executed on the real shell in "
                "`variants` surface renderings and, where processes run concurrently, under further schedules; random "
                "programs counted separately",
        "exhaustive": True,
        "programs_enumerated_and_replayed": st.programs,
        "runs_under_enumerated_or_random_schedules": st.scheds,
        "option_runs_skipped_unspecified": st.unspec,
        "option_runs_skipped_open_race": st.open,
        "option_runs_skipped_diverging": st.div,
        "random_programs_validated": validated,
        "random_programs_skipped": skipped,
        "per_configuration": st.per_cfg,
        "token_kinds_replayed": st.kinds,
        "spec_rule_tags_total": len(RULE_TAGS),
        "spec_rule_tags_replayed": st.tags,
        "spec_rule_tags_in_accepted_random_runs": st.rtags,
        "negative_configurations": st.neg,
        "known_finding_hits": {fid: n for fid, (f, n) in rep.known_hits.items()},
    }, time.time() - t0, violations=len(rep.violations), assumptions=[
        "the probe built-ins mk / probe / tick / rd / selfkill registered by the harness and yvcommon's echo behave as "
        "ListsExt.tla describes its leaves; /dev/null is a regular empty file of the simulated file system",
        "the simulated OS is cooperative: processes interleave where one blocks; schedules are explored at that "
        "granularity (depth-first over the first choice points, then seeded random)",
        "processes are mapped to environments by the process tree: the children of a process that recorded anything, "
        "in the order of their creation; how many processes record nothing is not compared",
        "pipelines.md 'The shell waits for all commands in the pipeline' is taken as the contract (POSIX only "
        "requires the last command)",
        "exit statuses POSIX only bounds are compared as classes: shell errors in 1..255 (bound consistently), "
        "death by signal > 128",
        "programs the specification classifies as unspecified (break / continue without an enclosing loop in the same "
        "environment, break in a loop condition after a failing body), open (races on the file f, the shell's "
        "standard input or a pipe; data left unread in a pipe; nested output redirections to f) or diverging are "
        "skipped and counted",
        "job control (set -m), traps and functions are outside this module (G02, C11, G12)",
        "TLC 1.8.0 and the JSON community module are trusted",
    ])
    return rc


def replay(path):
    with open(path) as f:
        obj = json.load(f)
    rec = obj["replay"]
    wd = vlib.workdir(PID + "-replay")
    src = os.path.join(wd, "in.json")
    with open(src, "w") as f:
        json.dump(rec, f)
    rc, out, _ = vlib.run_harness(PKG, ["redo", "--in", src, "--tick", 2])
    res = json.loads(out.strip().splitlines()[-1])
    obs = res["observed"]
    print("text:\n" + res["text"])
    print("flags:", res.get("flags"))
    print("observed:", json.dumps(obs))
    one = os.path.join(wd, "one.ndjson")
    with open(one, "w") as f:
        f.write(json.dumps({"p": rec["p"], "e": max(0, rec["e"]), "pf": max(0, rec["pf"]),
                            "oc": obs["oc"], "tr": obs["tr"], "st": obs["st"], "out": obs["out"], "ff": obs["ff"]}) + "\n")
    v = _judge(one, 1)[0]
    if "reject" in v:
        print("rejected by Trace_ListsExt; the specification prescribes:", json.dumps(v))
        print(f"VIOLATION property={PID} replay={path}")
        return 1
    print("accepted by Trace_ListsExt" + (f" (skipped: {v['skip']})" if "skip" in v else ""))
    return 0
