"""C17 — alias substitution terminates and rewrites exactly the eligible words
(DESIGN.md section 6, C17).

P1  TLC model-checks spec/Alias.tla (written from XCU 2.3.1 and the manual) for
    ALL alias tables over 3 names (4 in the thorough tier) with values from
    {name, name+blank, `! `, `{`, `if`, `|`, `>f`, `'q'`, empty}: termination
    (liveness under weak fairness, and a strictly decreasing variant), no name
    substituted inside its own replacement, determinism (up to one open point
    of the standard), agreement of the recursive definition Result(table, line)
    with the state machine, only eligible tokens replaced.
P4  spec -> impl: every final state of that exploration is printed as
    {table, line, by-hand result}; harness/c17 parses the line with the table
    by the real parser and the rendered by-hand result with NO aliases; the
    printed command lists and the alias origin of every word must agree.  A
    look-up counter / watchdog turns a hang into a recorded outcome.
P3  impl -> spec: random tables (5 names, multi-token values, global flags)
    and random structured lines are parsed by the real parser; the records
    are validated by spec/Trace_Alias.tla (termination, origins of the words),
    which also prints the allowed by-hand results that the harness then parses
    without aliases and compares with the recorded command lists.
E2E the same through the `alias` / `unalias` built-ins in a real shell run on
    the simulated OS (defined on one line and used on the next; used on the
    same line, where it must not apply; after unalias; after redefinition).
"""
import json
import os
import re
import time
from concurrent.futures import ThreadPoolExecutor

import vlib

PID = "C17"
PKG = "yv-c17"

# name -> (cfg, workers, role)
GEN_CONFIGS = {
    "quick": ["MC_Alias_q3.cfg", "MC_Alias_g3.cfg", "MC_Alias_nl3.cfg"],
    "thorough": ["MC_Alias_q3.cfg", "MC_Alias_g3.cfg", "MC_Alias_nl3.cfg", "MC_Alias_nl3t.cfg", "MC_Alias_g3b.cfg", "MC_Alias_n4.cfg", "MC_Alias_t3.cfg"],
}
SPELLINGS = (0, 1, 2)
RANDOM_N = {"quick": 8000, "thorough": 80000}
E2E_N = {"quick": 1500, "thorough": 15000}
TLC_TIMEOUT = {"quick": 1500, "thorough": 6000}


def _tb_text(tb):
    if not isinstance(tb, dict):
        return ""
    parts = []
    for n in sorted(tb):
        d = tb[n]
        v = " ".join(d.get("toks", [])) + (" " if d.get("bl") else "")
        parts.append(("-g " if d.get("g") else "") + f"{n}='{v}'")
    return " ".join(parts)


def _key(kind, rec):
    return {"kind": kind, "class": rec.get("class", ""), "spell": rec.get("spell", 0), "table": _tb_text(rec.get("tb")),
            "line": " ".join(rec.get("line", []))}


def _harness(args, what):
    """Runs the harness; exit status 3 = the watchdog saw a parse exceed its
    time limit (a hang of the code under test, returned as data)."""
    rc, out, err = vlib.run_harness(PKG, args, check=False, timeout=3000)
    if rc == 3:
        m = re.search(r"HANG-TIMEOUT (\{.*\})", err)
        return None, (json.loads(m.group(1)) if m else {"input": "?"})
    if rc != 0:
        raise vlib.ToolError(f"harness failed ({what}): rc={rc}\n{err[-2000:]}")
    return out, None


def _summary(out, what):
    try:
        return json.loads(out.strip().splitlines()[-1])
    except Exception:
        raise vlib.ToolError(f"no summary from harness ({what}): {out[-500:]}")


def _report_bad(rep, kind, path, limit=20):
    n = 0
    for rec in vlib.read_ndjson(path):
        n += 1
        if n > limit:
            continue
        rep.violation(_key(kind, rec), f"{kind}: parse with aliases differs from parse of the by-hand substitution "
                                       f"({rec.get('class')})", {"kind": kind, **rec})
    return n


def _trace(trace_path, res_path, timeout):
    """Trace_Alias over one file: returns (ok, reject_record_or_None, result)."""
    r = vlib.tlc("Trace_Alias", "Trace_Alias.cfg", workers=1, timeout=timeout, env={"TRACE": os.path.abspath(trace_path)},
                 depth_first=True, want_lines=True, json_out=res_path, xmx="3g")
    if r.ok:
        return True, None, r
    rej = [l for l in r.lines if "REJECT" in l]
    if rej:
        m = re.search(r'"REJECT", (\d+)', rej[0])
        return False, int(m.group(1)), r
    raise vlib.ToolError(f"Trace_Alias tool error: {(r.error or r.violation or '')[:2000]}")


def _trace_sharded(rep, kind, trace_path, res_path, shards, timeout):
    """Validates the records with Trace_Alias in parallel JVMs.  A rejected
    record is a violation; validation of that shard resumes after it."""
    with open(trace_path) as f:
        lines = f.readlines()
    n = len(lines)
    per = max(1, (n + shards - 1) // shards)
    pieces = [(a, min(n, a + per)) for a in range(0, n, per)]
    states = 0

    def one(k):
        a, b = pieces[k]
        validated = rejected = st = 0
        rejs = []
        start = a
        part = 0
        while start < b:
            p = f"{trace_path}.s{k}.{part}"
            rp = f"{res_path}.s{k}.{part}"
            with open(p, "w") as f:
                f.writelines(lines[start:b])
            ok, idx, r = _trace(p, rp, timeout)
            st += r.distinct
            os.remove(p)
            if ok:
                validated += b - start
                start = b
            else:
                validated += idx - 1
                rejected += 1
                rejs.append(json.loads(lines[start + idx - 1]))
                start = start + idx
                if rejected >= 2:
                    break
            part += 1
        return validated, rejs, st, [f"{res_path}.s{k}.{i}" for i in range(part + 1)]

    t0 = time.time()
    with ThreadPoolExecutor(max_workers=shards) as ex:
        results = list(ex.map(one, range(len(pieces))))
    validated = 0
    with open(res_path, "w") as out:
        for v, rejs, st, files in results:
            validated += v
            states += st
            for rec in rejs:
                rec2 = dict(rec)
                rec2["class"] = "rejected-" + rec.get("st", "?")
                rep.violation(_key(kind, rec2), f"{kind}: record rejected by Trace_Alias (parser did not terminate "
                                                f"normally, or words / alias origins not those of an allowed result)",
                              {"kind": kind, **rec2})
            for fp in files:
                if os.path.exists(fp):
                    with open(fp) as f:
                        out.write(f.read())
                    os.remove(fp)
    return {"records": n, "validated": validated, "rejected": sum(len(r[1]) for r in results), "states": states,
            "wall": time.time() - t0}


def run(tier):
    t0 = time.time()
    wd = vlib.workdir(PID)
    rep = vlib.Reporter(PID)
    vlib.build_harness(PKG)
    states = transitions = 0
    cov_actions = {}
    samples = []
    assumptions = [
        "tokens of a line and of an alias value are separated by blanks (a token formed partly from replacement text "
        "is unspecified by XCU 2.3.1); alias names are not reserved words (unspecified by XCU 2.3.1)",
        "cases the spec marks Unspecified (reserved word after an assignment/redirection prefix or directly after a "
        "compound command; global alias or continued substitution directly after a compound command) are skipped and counted",
        "where a token checked because of a blank-ending value is replaced by an empty value, both readings of "
        "'the next token' are allowed",
        "global aliases are injected through the Glossary API (the alias built-in cannot define them)",
        "the spec's tokens are rendered under 3 spellings (ASCII; alias names outside the portable alias-name set such "
        "as a.b c+d .. and non-ASCII names; words with multi-byte characters): the rules of XCU 2.3.1 do not depend on "
        "the spelling of an unquoted literal word",
        "TLC (tla2tools) and the JSON community module are trusted",
    ]

    # ---- calibration of the oracle against the manual's and alias-p.sh's worked examples (DESIGN 4.4) ----
    def calib():
        return vlib.tlc("Calib_Alias", "Calib_Alias.cfg", workers=1, timeout=300)

    # ---- P1: liveness + agreement of the two forms of the spec (small family of lines, ALL tables) ----
    def live():
        return vlib.tlc("Alias", "MC_Alias_live.cfg", workers=4, timeout=TLC_TIMEOUT[tier])

    # ---- P1 + generator ----
    def gen(cfg):
        path = os.path.join(wd, cfg + ".gen.ndjson")
        r = vlib.tlc("Alias", cfg, workers=8, timeout=TLC_TIMEOUT[tier], json_out=path,
                     coverage=(cfg == "MC_Alias_g3.cfg"))
        return cfg, path, r

    cfgs = GEN_CONFIGS[tier]
    with ThreadPoolExecutor(max_workers=2) as ex:
        f_calib = ex.submit(calib)
        f_live = ex.submit(live)
        gens = []
        # the generator runs are the heavy ones: one after another, alongside the liveness run
        for cfg in cfgs:
            gens.append(gen(cfg))
        r_live = f_live.result()
        r_calib = f_calib.result()
    vlib.tlc_must_pass(r_calib, "calibration of Result(table, line) (Calib_Alias)")
    vlib.log(f"[tlc] Calib_Alias: worked examples of the manual and of alias-p.sh hold for the oracle ({r_calib.wall:.1f}s)")
    vlib.tlc_must_pass(r_live, "liveness / FinalsAgree (MC_Alias_live.cfg)")
    vlib.log(f"[tlc] MC_Alias_live.cfg: termination (<>Done under WF), variant, FinalsAgree, determinism: "
             f"{r_live.distinct} states, {r_live.wall:.1f}s")
    states += r_live.distinct
    transitions += r_live.generated

    replay_cases = replay_nontrivial = replay_unspec = replay_amb = 0
    replay_parsed = replay_err = 0
    cause_drift = 0
    per_cfg = {}
    for cfg, path, r in gens:
        vlib.tlc_must_pass(r, f"model check {cfg}")
        states += r.distinct
        transitions += r.generated
        for a, c in r.coverage.items():
            cov_actions[a] = cov_actions.get(a, 0) + c
        # every case is replayed under each spelling of the names and words
        # (harness/c17/src/model.rs: ASCII; alias names outside the portable
        # set and multi-byte words, two variants)
        s = None
        nbad = 0
        hang = None
        for sp in SPELLINGS:
            bad = os.path.join(wd, f"{cfg}.bad{sp}.ndjson")
            out, hang = _harness(["replay", "--spell", sp, "--in", path, "--out", bad], f"replay {cfg} spelling {sp}")
            if hang is not None:
                break
            s1 = _summary(out, f"replay {cfg}")
            nb = _report_bad(rep, "replay", bad)
            nbad += nb
            if s1.get("stopped_early"):
                vlib.log(f"[p4] {cfg} spelling {sp}: replay stopped after {nb} failing cases; the rest was not replayed")
            if nb == 0:
                os.remove(bad)
            if s is None:
                s = s1
            else:
                for k in ("cases", "unspecified_skipped", "agree_parsed", "agree_syntax_error", "nontrivial", "ambiguous",
                          "syntax_error_cause_drift"):
                    s[k] = s.get(k, 0) + s1.get(k, 0)
        if hang is not None:
            rep.violation({"kind": "replay", "class": "hang-timeout", "input": hang.get("input", "")},
                          "parser exceeded the wall-clock limit (alias substitution does not terminate?)",
                          {"kind": "timeout", **hang})
            per_cfg[cfg] = {"states": r.distinct, "hang": True}
            continue
        vlib.log(f"[p4] {cfg}: {r.distinct} states ({r.wall:.1f}s); {s['cases']} (table, line, spelling) cases replayed on the real "
                 f"parser: {s['agree_parsed']} parsed+equal, {s['agree_syntax_error']} both syntax errors, "
                 f"{s['unspecified_skipped']} unspecified skipped, {s['ambiguous']} with two allowed results, {nbad} BAD")
        replay_cases += s["cases"] - s["unspecified_skipped"]
        replay_unspec += s["unspecified_skipped"]
        replay_nontrivial += s["nontrivial"]
        replay_amb += s["ambiguous"]
        replay_parsed += s["agree_parsed"]
        replay_err += s["agree_syntax_error"]
        cause_drift += s.get("syntax_error_cause_drift", 0)
        per_cfg[cfg] = {"states": r.distinct, "generated": r.generated, "cases": s["cases"], "bad": nbad,
                        "nontrivial": s["nontrivial"]}
        if len(samples) < 6:
            samples.extend(s["samples"][:3])
        os.remove(path)

    # ---- P3: random records validated by Trace_Alias, results judged ----
    rec = os.path.join(wd, "random.rec.ndjson")
    res = os.path.join(wd, "random.res.ndjson")
    bad = os.path.join(wd, "random.bad.ndjson")
    rnd = {"records": 0, "validated": 0}
    js = {"agree_parsed": 0, "agree_syntax_error": 0, "nontrivial": 0, "unspecified_skipped": 0}
    out, hang = _harness(["random", "--n", RANDOM_N[tier], "--out", rec], "random")
    if hang is not None:
        rep.violation({"kind": "random", "class": "hang-timeout", "input": hang.get("input", "")},
                      "parser exceeded the wall-clock limit", {"kind": "timeout", **hang})
    else:
        rnd = _trace_sharded(rep, "random", rec, res, shards=8, timeout=TLC_TIMEOUT[tier])
        states += rnd["states"]
        out, hang = _harness(["judge", "--rec", rec, "--res", res, "--out", bad], "judge")
        if hang is not None:
            raise vlib.ToolError(f"parser hung on alias-free text: {hang}")
        js = _summary(out, "judge")
        cause_drift += js.get("syntax_error_cause_drift", 0)
        nbad = 0
        for r_ in vlib.read_ndjson(bad):
            if r_["rec"].get("st") in ("hang", "panic"):
                continue        # already reported as rejected by Trace_Alias
            nbad += 1
            rep.violation(_key("random", r_), "random: parse with aliases differs from parse of every allowed by-hand result",
                          {"kind": "random", **r_})
        vlib.log(f"[p3] random: {rnd['records']} records, {rnd['validated']} accepted by Trace_Alias "
                 f"({rnd['rejected']} rejected) in {rnd['wall']:.1f}s; judged: {js['agree_parsed']} parsed+equal, "
                 f"{js['agree_syntax_error']} both syntax errors, {js['unspecified_skipped']} unspecified, {nbad} BAD")
        samples.extend(js.get("samples", [])[:2])
        for p in (rec, res):
            os.remove(p)

    # ---- E2E through the alias / unalias built-ins ----
    rec = os.path.join(wd, "e2e.rec.ndjson")
    res = os.path.join(wd, "e2e.res.ndjson")
    bad = os.path.join(wd, "e2e.bad.ndjson")
    out, hang = _harness(["e2e", "record", "--n", E2E_N[tier], "--out", rec], "e2e record")
    e2e = {"records": 0, "validated": 0}
    es = {"agree": 0, "agree_with_commands_run": 0, "modes": {}, "unspecified_skipped": 0}
    if hang is not None:
        rep.violation({"kind": "e2e", "class": "hang-timeout", "input": hang.get("input", "")},
                      "parser exceeded the wall-clock limit", {"kind": "timeout", **hang})
    else:
        e2e = _trace_sharded(rep, "e2e", rec, res, shards=4, timeout=TLC_TIMEOUT[tier])
        states += e2e["states"]
        out, hang = _harness(["e2e", "judge", "--rec", rec, "--res", res, "--out", bad], "e2e judge")
        if hang is not None:
            raise vlib.ToolError(f"shell hung on alias-free text: {hang}")
        es = _summary(out, "e2e judge")
        nbad = 0
        for r_ in vlib.read_ndjson(bad):
            if r_["rec"].get("st") in ("hang", "panic"):
                continue
            nbad += 1
            k = _key("e2e", r_)
            k["mode"] = r_.get("mode")
            rep.violation(k, "e2e: commands executed with aliases defined by the built-in differ from the by-hand text",
                          {"kind": "e2e", **r_})
        vlib.log(f"[e2e] {e2e['records']} shell runs through the alias/unalias built-ins: {es['agree']} agree "
                 f"({es['agree_with_commands_run']} with commands executed), modes {es['modes']}, "
                 f"{es['unspecified_skipped']} unspecified, {nbad} BAD")
        samples.extend(es.get("samples", [])[:2])
        for p in (rec, res):
            os.remove(p)

    if cause_drift:
        vlib.log(f"NOTE: {cause_drift} case(s) where both parses are syntax errors but with different causes (drift, not a violation)")
    rc = rep.finish()
    unexercised = [a for a, c in cov_actions.items() if c == 0]
    validated = replay_cases + rnd["validated"] + e2e["validated"]
    vlib.write_evidence(PID, tier, {
        "states": states,
        "transitions": transitions,
        "traces_validated_against_impl": validated,
        "samples": samples[:10],
        "evaluations": validated,
        "distinct_nontrivial": replay_nontrivial + js["nontrivial"] + es["agree_with_commands_run"],
        "rule": "replay: (table, line, spelling) cases whose by-hand result differs from the line and that parse; random: same; "
                "e2e: agreeing shell runs in which at least one command was executed",
        "exhaustive": True,
        "exhaustive_over": "all alias tables over 3 names" + (" and over 4 names" if tier == "thorough" else "") +
                           " with 13 values each (some alias global in the g configs), x the line families of Alias.tla",
        "configs": per_cfg,
        "replay_cases": replay_cases,
        "replay_parsed_equal": replay_parsed,
        "replay_both_syntax_error": replay_err,
        "drift_syntax_error_cause_differs": cause_drift,
        "replay_unspecified_skipped": replay_unspec,
        "replay_two_allowed_results": replay_amb,
        "random_records": rnd["records"],
        "random_validated_by_Trace_Alias": rnd["validated"],
        "random_judged": {k: js[k] for k in ("agree_parsed", "agree_syntax_error", "nontrivial", "unspecified_skipped")},
        "e2e_runs": e2e["records"],
        "e2e_agree": es["agree"],
        "e2e_modes": es["modes"],
        "liveness_states": r_live.distinct,
        "tlc_action_coverage": cov_actions,
        "actions_not_exercised": unexercised,
    }, time.time() - t0, violations=len(rep.violations), assumptions=assumptions)
    return rc


def replay(path):
    """Re-runs one violation on the current tree: the real parser (or shell)
    observes the input again, Trace_Alias validates the record and computes
    the allowed results, the harness judges."""
    with open(path) as f:
        obj = json.load(f)
    r = obj["replay"]
    wd = vlib.workdir(PID + "-replay")
    rep = vlib.Reporter(PID)
    kind = r.get("kind")
    if kind == "timeout":
        print("timeout violation: input =", r.get("input"))
        return 1
    src = os.path.join(wd, "in.ndjson")
    rec = os.path.join(wd, "rec.ndjson")
    res = os.path.join(wd, "res.ndjson")
    bad = os.path.join(wd, "bad.ndjson")
    if kind == "e2e":
        with open(src, "w") as f:
            f.write(json.dumps(r["rec"]) + "\n")
        out, hang = _harness(["e2e", "redo", "--in", src, "--out", rec], "e2e redo")
    else:
        with open(src, "w") as f:
            f.write(json.dumps({"tb": r["tb"], "line": r["line"], "spell": r.get("spell", 0)}) + "\n")
        out, hang = _harness(["observe", "--in", src, "--out", rec], "observe")
    if hang is not None:
        print(f"VIOLATION property={PID} replay={path}")
        return 1
    info = _trace_sharded(rep, kind or "replay", rec, res, shards=1, timeout=300)
    if info["rejected"] == 0:
        out, _ = _harness((["e2e"] if kind == "e2e" else []) + ["judge", "--rec", rec, "--res", res, "--out", bad], "judge")
        s = _summary(out, "judge")
        print(json.dumps(s))
        if s["bad"] == 0:
            print("accepted")
            return 0
        for b in vlib.read_ndjson(bad):
            print(json.dumps(b)[:3000])
    else:
        print("rejected by Trace_Alias")
    print(f"VIOLATION property={PID} replay={path}")
    return 1
