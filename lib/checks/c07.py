"""C07 — quoted output reads back verbatim; state listings recreate the state
(DESIGN.md section 6, C07).

(i)  spec/Quote.tla: Read (POSIX token recognition + expansion of a word that
     contains only quoting), GoodQuote, QuoteRule (the documented rule of
     yash-quote).  TLC enumerates every string over the special alphabet up to
     the bound and checks GoodQuote(s, QuoteRule(s)) (design check); the
     harness computes the REAL quote(s) and lets the REAL shell read it back in
     five contexts; Trace_Quote.tla judges each record: GoodQuote under the
     spec's reader, the real reader returns <<s>>, and both readers agree.
     Random strings <= 40 over a bigger alphabet likewise.
(ii) spec/ShellState.tla: abstract shell state, definition operations and the
     projection each printer has to recreate.  TLC generates definition
     histories (and checks Eval(Listing(st)) = st on the abstract listings);
     the harness applies each to a simulated shell, runs every printer,
     evaluates the printout in a FRESH shell (from stdin and through eval) and
     snapshots it; Trace_ShellState.tla judges each record against the state
     the spec predicts for the history.  Random histories with random strings
     likewise.
"""
import json
import os
import re
import time
from concurrent.futures import ThreadPoolExecutor

import vlib

PID = "C07"
PKG = "yv-c07"

QUOTE_CFGS = {
    "quick": ["MC_Quote_a3.cfg", "MC_Quote_b4.cfg"],
    "thorough": ["MC_Quote_a4.cfg"],
}
STATE_CFGS = {"quick": ["MC_ShellState_quick.cfg"],
              "thorough": ["MC_ShellState_thorough.cfg", "MC_ShellState_rich.cfg"]}


def _judge(module, trace_path, shards=8, timeout=2400, header=0):
    """Run the Trace_* spec `module` over the ndjson file in up to `shards`
    parallel JVMs.  The first `header` lines are repeated at the head of every
    shard.  The spec prints one JSON line {bad: index, why: ..} per observation
    it does not accept, {drift: index} per record that is accepted but differs
    from the driver's prediction, {skip: index} per record outside the
    quantifier, and {done: n} at the end.  Returns (bad, info):
    bad = [(global line number, why, record, verdict line)]."""
    with open(trace_path) as f:
        lines = f.readlines()
    head, body = lines[:header], lines[header:]
    n = len(body)
    if n == 0:
        return [], {"events": 0, "wall": 0.0, "states": 0, "skip": 0, "drift": 0}
    per = max(1, (n + shards - 1) // shards)
    pieces = [(a, min(n, a + per)) for a in range(0, n, per)]
    paths = []
    for k, (a, b) in enumerate(pieces):
        p = f"{trace_path}.shard{k}"
        with open(p, "w") as f:
            f.writelines(head)
            f.writelines(body[a:b])
        paths.append(p)
    t0 = time.time()

    def one(p):
        return vlib.tlc(module, cfg=module + ".cfg", workers=1, timeout=timeout, env={"TRACE": os.path.abspath(p)},
                        depth_first=True, xmx="3g")

    with ThreadPoolExecutor(max_workers=shards) as ex:
        results = list(ex.map(one, paths))
    bad, drift, states, skip = [], 0, 0, 0
    for (a, b), r, p in zip(pieces, results, paths):
        if not r.ok:
            raise vlib.ToolError(f"{module} failed on {p}: {(r.error or r.violation or '')[:2000]}")
        done = [j for j in r.json if isinstance(j, dict) and "done" in j]
        if not done or done[0]["done"] != header + (b - a):
            raise vlib.ToolError(f"{module} did not judge every record of {p}: {done}")
        states += r.distinct
        for j in r.json:
            if not isinstance(j, dict):
                continue
            if "bad" in j:
                g = a + j["bad"] - header - 1
                rec = json.loads(body[g]) if j["bad"] > header else json.loads(head[j["bad"] - 1])
                bad.append((g, j.get("why", ""), rec, j))
            elif "drift" in j:
                drift += 1
            elif "skip" in j:
                skip += 1
        os.remove(p)
    bad.sort(key=lambda x: x[0])
    return bad, {"events": n, "wall": time.time() - t0, "states": states, "skip": skip, "drift": drift}


def _txt(cps):
    return "".join(chr(c) for c in cps)


# --------------------------------------------------------------------------
# (i) quoting round trip
# --------------------------------------------------------------------------
def _quote_violations(rep, bad, what):
    for _, why, rec, _j in bad:
        key = {"part": "quote", "why": ":".join(why.split(":")[:2]), "s": _txt(rec["s"])}
        rep.violation(key, f"{what}: quote({_txt(rec['s'])!r}) = {_txt(rec['q'])!r}: {why}",
                      {"part": "quote", "s": rec["s"]})


def _sample(line):
    rec = json.loads(line)
    return {"s": _txt(rec["s"]), "q": _txt(rec["q"]), "fields_read_by_real_shell": [_txt(x) for x in rec["fa"]["f"]]}


def _run_quote(tier, wd, rep, ev):
    states = transitions = 0
    samples = []
    trace = os.path.join(wd, "quote.trace.ndjson")
    open(trace, "w").close()
    enumerated = 0
    for cfg in QUOTE_CFGS[tier]:
        gen = os.path.join(wd, cfg + ".gen.ndjson")
        r = vlib.tlc("MC_Quote", cfg, workers=8, json_out=gen, timeout=2400)
        vlib.tlc_must_pass(r, f"design check GoodQuote(s, QuoteRule(s)) {cfg}")
        vlib.log(f"[tlc] {cfg}: {r.distinct} strings, design check GoodQuote(s, QuoteRule(s)) holds, {r.wall:.1f}s")
        states += r.distinct
        transitions += r.generated
        part = os.path.join(wd, cfg + ".trace.ndjson")
        vlib.run_harness(PKG, ["quote", "--in", gen, "--out", part])
        with open(trace, "a") as out, open(part) as f:
            for i, line in enumerate(f):
                out.write(line)
                enumerated += 1
                if i in (4321, 20011) and len(samples) < 2:
                    samples.append(_sample(line))
        os.remove(gen)
        os.remove(part)
    # random strings beyond the exhaustive bound
    n = 2000 if tier == "quick" else 60000
    part = os.path.join(wd, "quote.random.ndjson")
    vlib.run_harness(PKG, ["quote-random", "--n", n, "--maxlen", 40, "--out", part])
    with open(trace, "a") as out, open(part) as f:
        for i, line in enumerate(f):
            out.write(line)
            if i == 17:
                samples.append(_sample(line))
    os.remove(part)
    bad, info = _judge("Trace_Quote", trace)
    vlib.log(f"[p4] {enumerated} enumerated + {n} random strings (<= 40): real quote + real reader in 5 contexts, "
             f"judged by Trace_Quote in {info['wall']:.1f}s: {len(bad)} rejected, drift {info['drift']}")
    _quote_violations(rep, bad, "quote")
    os.remove(trace)
    ev.update({"quote_strings_enumerated": enumerated, "quote_strings_random": n, "quote_drift": info["drift"],
               "quote_rejected": len(bad)})
    return states, transitions, enumerated + n, samples


# --------------------------------------------------------------------------
# (ii) state listings
# --------------------------------------------------------------------------
RESERVED = {"!", "{", "}", "case", "do", "done", "elif", "else", "esac", "fi", "for", "if", "in", "then", "until",
            "while", "[[", "]]", "function", "namespace", "select", "time"}


def _name_class(n):
    if n in RESERVED:
        return "reserved-word"
    if re.fullmatch(r"[A-Za-z_][A-Za-z0-9_]*", n):
        return "plain"
    return "special-characters"


def _history_text(h):
    out = []
    for o in h:
        d = {"op": o["op"], "n": _txt(o["n"])}
        if o["op"] == "opt":
            d["on"] = o["hv"]
        elif o["op"] == "enter":
            d = {"op": "enter", "n": _txt(o["n"])}     # what follows happens inside this function's body
        elif o["op"] == "local":
            d["attrs"] = ["", "-x", "-r", "-x -r"][o["m"] & 3]
            if o["hv"]:
                d["v"] = [_txt(x) for x in o["v"]]
        elif o["op"] == "umask":
            d = {"op": "umask", "m": "%03o" % o["m"]}
        elif o["hv"]:
            d["v"] = [_txt(x) for x in o["v"]]
        out.append(d)
    return out


def _state_violations(rep, bad, what):
    """Diagnostics only (the verdict is TLC's): describe what failed so that a
    violation can be recognised again (known_findings.json)."""
    for _, why, rec, j in bad:
        kind, mode = j.get("kind", ""), j.get("mode", "")
        h = rec.get("h", [])
        key = {"part": "state", "why": why, "kind": kind, "mode": mode}
        if kind == "functions" and "orig" in rec:
            # which function names did not come back, and did the printout use
            # the `function` keyword?
            obs = [o for o in rec.get("fresh", []) if o["kind"] == kind and o["mode"] == mode]
            orig = {(_txt(e["n"]), _txt(e["b"])) for e in rec["orig"]["fn"]}
            if obs and obs[0]["ok"]:
                got = {(_txt(e["n"]), _txt(e["b"])) for e in obs[0]["fn"]}
                failing = {n for n, _ in orig ^ got}
            else:
                # the printout could not be evaluated at all (a syntax error
                # hides every definition in it): a name that is a reserved
                # word, printed bare, is a sure syntax error
                failing = {n for n, _ in orig if _name_class(n) == "reserved-word"} or {n for n, _ in orig}
            key["names"] = "+".join(sorted({_name_class(n) for n in failing}))
            key["function_keyword"] = bool(obs) and any(
                ln.startswith("function ") for ln in obs[0].get("txt", "").split("\n"))
        if kind in ("export", "readonly", "typeset", "typesetg"):
            key["plus_name"] = any(o["op"] in ("export", "readonly", "typeset", "local")
                                   and _txt(o["n"]).startswith("+") for o in h)
        key["history"] = json.dumps(_history_text(h), ensure_ascii=False)
        rep.violation(key, f"{what}: {why} {kind} {mode}: history {key['history']}",
                      {"part": "state", "c": rec.get("c", ""), "h": h})


def _append_trace(trace, part):
    """Append the records of `part` to `trace`; the base record (line 1) of
    both is the same deterministic run."""
    if not os.path.exists(trace):
        os.rename(part, trace)
        return
    with open(trace) as f:
        base = f.readline()
    with open(trace, "a") as out, open(part) as f:
        if f.readline() != base:
            raise vlib.ToolError("the base shell differs between two harness runs")
        for line in f:
            out.write(line)
    os.remove(part)


def _run_state(tier, wd, rep, ev):
    trace = os.path.join(wd, "state.trace.ndjson")
    part = os.path.join(wd, "state.part.ndjson")
    states = transitions = depth = 0
    coverage = {}
    for cfg in STATE_CFGS[tier]:
        gen = os.path.join(wd, "state.gen.ndjson")
        r = vlib.tlc("MC_ShellState", cfg, workers=8, json_out=gen, timeout=2400, coverage=True)
        vlib.tlc_must_pass(r, f"generator + design check Eval(Listing(st)) = st {cfg}")
        vlib.log(f"[tlc] {cfg}: {r.distinct} abstract states (one history each), {r.generated} transitions, "
                 f"depth {r.depth}, ListingsOK holds, {r.wall:.1f}s")
        states += r.distinct
        transitions += r.generated
        depth = max(depth, r.depth)
        for a, c in r.coverage.items():
            coverage[a] = coverage.get(a, 0) + c
        vlib.run_harness(PKG, ["state", "--in", gen, "--out", part])
        _append_trace(trace, part)
        os.remove(gen)
    n_gen = vlib.count_lines(trace) - 1
    # random histories with random strings, appended to the same trace
    n = 300 if tier == "quick" else 8000
    vlib.run_harness(PKG, ["state-random", "--n", n, "--maxops", 6 if tier == "quick" else 8, "--out", part])
    _append_trace(trace, part)
    bad, info = _judge("Trace_ShellState", trace, header=1, shards=4 if tier == "quick" else 8)
    vlib.log(f"[p2] {n_gen} generated + {n} random histories replayed on the real shell (11 printers x 2 ways of "
             f"evaluation), judged by Trace_ShellState in {info['wall']:.1f}s: {len(bad)} rejected observations, "
             f"{info['skip']} skipped")
    _state_violations(rep, bad, "history")
    samples = []
    own = 0
    ops = {}
    own_kinds = {}
    for i, rec in enumerate(vlib.read_ndjson(trace)):
        if i == 0:
            continue
        own += len(rec["fresh"])
        for o in rec["h"]:
            k = o["op"] + ("" if o["hv"] else ":novalue")
            ops[k] = ops.get(k, 0) + 1
        for o in rec["fresh"]:
            own_kinds[o["kind"]] = own_kinds.get(o["kind"], 0) + 1
        if i in (700, 1100, n_gen + 5):
            samples.append({"history": _history_text(rec["h"]),
                            "printouts_differing_from_base_shell": sorted({o["kind"] for o in rec["fresh"]})})
    os.remove(trace)
    ev.update({"state_histories_generated": n_gen, "state_histories_random": n,
               "state_skipped": info["skip"], "state_rejected_observations": len(bad),
               "state_printouts_evaluated_in_fresh_shell": own, "tlc_action_coverage": coverage,
               "state_history_depth": depth - 1, "operations_replayed": ops,
               "printouts_evaluated_by_printer": own_kinds,
               "operations_not_exercised": [k for k in ("assign", "array", "export", "export:novalue", "readonly",
                                                        "readonly:novalue", "typeset", "typeset:novalue", "alias",
                                                        "func", "opt", "opt:novalue", "trap", "trap:novalue", "umask",
                                                        "enter", "local", "local:novalue")
                                            if not ops.get(k)],
               "printers_not_exercised": [k for k in ("alias", "export", "readonly", "typeset", "typesetg", "functions", "set",
                                                      "options", "trap", "umask", "umaskS") if not own_kinds.get(k)]})
    return states, transitions, n_gen + n, samples


def run(tier):
    t0 = time.time()
    wd = vlib.workdir(PID)
    rep = vlib.Reporter(PID)
    ev = {}
    # calibration of the reader against the manual's and the conformance
    # suite's worked examples (ASSUMEs): a failure is a tool error
    r = vlib.tlc("Calib_Quote", "Calib_Quote.cfg", workers=1, timeout=600)
    vlib.tlc_must_pass(r, "calibration of Quote.tla (Calib_Quote)")
    qs, qt, qn, qsamples = _run_quote(tier, wd, rep, ev)
    ss, st, sn, ssamples = _run_state(tier, wd, rep, ev)
    rc = rep.finish()
    ev.update({
        "states": qs + ss,
        "transitions": qt + st,
        "traces_validated_against_impl": qn + sn,
        "samples": qsamples + ssamples,
        "evaluations": qn * 6 + ev["state_printouts_evaluated_in_fresh_shell"] + sn,
        "distinct_nontrivial": qn + sn,
        "rule": "one per distinct string s (real quote(s) read back by the real shell in 5 contexts and by the "
                "spec's reader in 3) plus one per distinct definition history (11 printers, issued at top level or from inside a function body, each printout that "
                "differs from the base shell's evaluated in 2 fresh shells)",
        "exhaustive": True,
        "bounds": {"alphabet": 28, "max_len": 3 if tier == "quick" else 4,
                   "sub_alphabet_len4": 10 if tier == "quick" else 28,
                   "random_string_max_len": 40, "history_depth": ev.get("state_history_depth")},
        "known_findings_hit": {k: v[1] for k, v in rep.known_hits.items()},
    })
    vlib.write_evidence(PID, tier, ev, time.time() - t0, violations=len(rep.violations), assumptions=[
        "the reader of Quote.tla covers words that contain only quoting; words with expansions are outside it",
        "blank = Unicode White_Space except newline, the lexer's documented choice of the locale's <blank> class",
        "quote output is judged where words are expanded (argument, declaration-utility argument, assignment "
        "value, array element), not in command position (reserved words)",
        "histories stay inside ShellState!OpEnabled (no assignment to read-only variables, no definitions under "
        "`portable`, no readonly/typeset under `allexport`, `exec` never switched off)",
        "function bodies are compared as printed trees; here-documents are not generated",
        "the string never contains NUL",
        "TLC 1.8.0 and the JSON community module are trusted",
    ])
    return rc


def replay(path):
    """Re-run one recorded violation on the current tree."""
    with open(path) as f:
        obj = json.load(f)
    rp = obj["replay"]
    wd = vlib.workdir(PID + "-replay")
    rep = vlib.Reporter(PID)
    src = os.path.join(wd, "in.ndjson")
    trace = os.path.join(wd, "out.ndjson")
    if rp["part"] == "quote":
        with open(src, "w") as f:
            f.write(json.dumps({"s": rp["s"]}) + "\n")
        vlib.run_harness(PKG, ["quote", "--in", src, "--out", trace])
        bad, _ = _judge("Trace_Quote", trace, shards=1)
        _quote_violations(rep, bad, "replay")
    else:
        with open(src, "w") as f:
            f.write(json.dumps({"c": rp.get("c", ""), "h": rp["h"]}) + "\n")
        vlib.run_harness(PKG, ["state", "--in", src, "--out", trace])
        bad, _ = _judge("Trace_ShellState", trace, shards=1, header=1)
        _state_violations(rep, bad, "replay")
    for _, why, rec, j in bad:
        print("rejected:", why, j.get("kind", ""), j.get("mode", ""))
    if not bad:
        print("accepted")
    return rep.finish()
