"""C07 — quoted output reads back verbatim; state listings recreate the state
(DESIGN.md section 6, C07).

(i)  spec/Quote.tla: Read (POSIX token recognition + expansion of a word that
     contains only quoting), GoodQuote, QuoteRule (the documented rule of
     yash-quote).  TLC enumerates every string over the special alphabet up to
     the bound and checks GoodQuote(s, QuoteRule(s)) (design check); the
     harness computes the REAL quote(s) and lets the REAL shell read it back in
     five contexts; Trace_Quote.tla judges each record: GoodQuote under the
     spec's reader, the real reader returns <<s>>, and both readers agree.
     Random strings <= 40 over a bigger alphabet likewise.
(ii) spec/ShellState.tla: abstract shell state, definition operations and the
     projection each printer has to recreate.  TLC generates definition
     histories; the harness applies each to a simulated shell, runs every
     printer, evaluates the printout in a FRESH shell and snapshots it;
     Trace_ShellState.tla judges each record against the state the spec
     predicts for the history.  Random histories with random strings likewise.
"""
import json
import os
import time
from concurrent.futures import ThreadPoolExecutor

import vlib

PID = "C07"
PKG = "yv-c07"

QUOTE_CFGS = {
    "quick": ["MC_Quote_a3.cfg", "MC_Quote_b4.cfg"],
    "thorough": ["MC_Quote_a4.cfg"],
}
STATE_CFGS = {
    "quick": ["MC_ShellState_vars.cfg", "MC_ShellState_misc.cfg"],
    "thorough": ["MC_ShellState_vars5.cfg", "MC_ShellState_misc5.cfg"],
}


def _judge(module, trace_path, shards=8, timeout=1500, header=0):
    """Run the Trace_* spec `module` over the ndjson file in up to `shards`
    parallel JVMs.  The first `header` lines are repeated at the head of every
    shard.  The spec prints one JSON line {bad: index, why: ..} per record it
    does not accept, {drift: index} per record that is accepted but differs
    from the driver's prediction, and {done: n} at the end.  Returns
    (bad, drift, info): bad = [(global line number, why, record)]."""
    with open(trace_path) as f:
        lines = f.readlines()
    head, body = lines[:header], lines[header:]
    n = len(body)
    if n == 0:
        return [], 0, {"events": 0, "wall": 0.0, "states": 0}
    per = max(1, (n + shards - 1) // shards)
    pieces = [(a, min(n, a + per)) for a in range(0, n, per)]
    paths = []
    for k, (a, b) in enumerate(pieces):
        p = f"{trace_path}.shard{k}"
        with open(p, "w") as f:
            f.writelines(head)
            f.writelines(body[a:b])
        paths.append(p)
    t0 = time.time()

    def one(p):
        return vlib.tlc(module, cfg=module + ".cfg", workers=1, timeout=timeout, env={"TRACE": os.path.abspath(p)},
                        depth_first=True, xmx="3g")

    with ThreadPoolExecutor(max_workers=shards) as ex:
        results = list(ex.map(one, paths))
    bad, drift, states = [], 0, 0
    for (a, b), r, p in zip(pieces, results, paths):
        if not r.ok:
            raise vlib.ToolError(f"{module} failed on {p}: {(r.error or r.violation or '')[:2000]}")
        done = [j for j in r.json if isinstance(j, dict) and "done" in j]
        if not done or done[0]["done"] != header + (b - a):
            raise vlib.ToolError(f"{module} did not judge every record of {p}: {done}")
        states += r.distinct
        for j in r.json:
            if isinstance(j, dict) and "bad" in j:
                g = a + j["bad"] - header - 1
                bad.append((g, j.get("why", ""), json.loads(body[g]) if g >= 0 else json.loads(head[0]), j))
            elif isinstance(j, dict) and "drift" in j:
                drift += 1
        os.remove(p)
    bad.sort(key=lambda x: x[0])
    return bad, drift, {"events": n, "wall": time.time() - t0, "states": states}


def _txt(cps):
    return "".join(chr(c) for c in cps)


def _quote_violations(rep, bad, what):
    for _, why, rec, _j in bad:
        key = {"part": "quote", "why": why.split(":")[0] + (":" + why.split(":")[1] if ":" in why else ""),
               "s": _txt(rec["s"])}
        rep.violation(key, f"{what}: quote({_txt(rec['s'])!r}) = {_txt(rec['q'])!r}: {why}",
                      {"part": "quote", "s": rec["s"]})


def _run_quote(tier, wd, rep, ev):
    states = transitions = 0
    total = 0
    drift = 0
    samples = []
    for cfg in QUOTE_CFGS[tier]:
        gen = os.path.join(wd, cfg + ".gen.ndjson")
        r = vlib.tlc("MC_Quote", cfg, workers=8, json_out=gen, timeout=2400)
        vlib.tlc_must_pass(r, f"design check GoodQuote(s, QuoteRule(s)) {cfg}")
        vlib.log(f"[tlc] {cfg}: {r.distinct} strings, design check GoodQuote(s, QuoteRule(s)) holds, {r.wall:.1f}s")
        states += r.distinct
        transitions += r.generated
        trace = os.path.join(wd, cfg + ".trace.ndjson")
        vlib.run_harness(PKG, ["quote", "--in", gen, "--out", trace])
        bad, d, info = _judge("Trace_Quote", trace)
        drift += d
        total += info["events"]
        vlib.log(f"[p4] {cfg}: {info['events']} records (real quote + real reader in 5 contexts) judged by "
                 f"Trace_Quote in {info['wall']:.1f}s, {len(bad)} rejected, drift {d}")
        _quote_violations(rep, bad, f"enumerated ({cfg})")
        if not samples:
            for i, rec in enumerate(vlib.read_ndjson(trace)):
                if i in (0, 4321, 20011):
                    samples.append({"s": _txt(rec["s"]), "q": _txt(rec["q"]), "fields_read_by_real_shell": [_txt(f) for f in rec["fa"]["f"]]})
        os.remove(gen)
        os.remove(trace)
    # random strings beyond the exhaustive bound
    n = 4000 if tier == "quick" else 60000
    trace = os.path.join(wd, "quote.random.ndjson")
    vlib.run_harness(PKG, ["quote-random", "--n", n, "--maxlen", 40, "--out", trace])
    bad, d, info = _judge("Trace_Quote", trace)
    drift += d
    vlib.log(f"[p4] random strings <= 40: {info['events']} records judged in {info['wall']:.1f}s, "
             f"{len(bad)} rejected, drift {d}")
    _quote_violations(rep, bad, "random string")
    os.remove(trace)
    ev.update({"quote_states": states, "quote_transitions": transitions, "quote_enumerated": total,
               "quote_random": info["events"], "quote_drift": drift, "quote_samples": samples})


def run(tier):
    t0 = time.time()
    wd = vlib.workdir(PID)
    rep = vlib.Reporter(PID)
    ev = {}
    _run_quote(tier, wd, rep, ev)
    rc = rep.finish()
    return rc


def replay(path):
    return 2
